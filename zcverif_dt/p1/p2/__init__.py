"""Datatypes for prefix tests (C11): level 2."""


def rev(s):
    return "p2:" + s[::-1]


def key_lower(s):
    """A key type: like basic-key but defined here."""
    if not s or not s[0].isalpha() or not all(
            c.isalnum() or c in "-._" for c in s) or not s.isascii():
        raise ValueError("bad key %r" % (s,))
    return s.lower()


def conv(s):
    return "c2:" + s
