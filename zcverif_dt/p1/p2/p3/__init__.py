"""Datatypes for prefix tests (C11): level 3."""


def tag(s):
    return "p3:" + s


def conv(s):
    return "c3:" + s
