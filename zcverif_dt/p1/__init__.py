"""Datatypes for prefix tests (C11): level 1."""
from zcverif_dt.fam import Wrapped


def up(s):
    return "p1:" + s.upper()


class WrapA(Wrapped):
    pass


def wrap_a(section):
    return WrapA(section)
