"""Datatypes for prefix tests (C11): level 1."""
from zcverif_dt.fam import Wrapped


def up(s):
    from zcverif_dt.fam import reenter
    reenter()
    return "p1:" + s.upper()


class WrapA(Wrapped):
    pass


def wrap_a(section):
    return WrapA(section)


def conv(s):
    return "c1:" + s


def kt(s):
    """key type: upper-cases (distinguishable from the other levels)"""
    if not s or not s[0].isalpha() or not s.isascii():
        raise ValueError("bad key %r" % (s,))
    return s.upper()
