"""Datatypes referenced by the generated schema family (by dotted name)."""


class Wrapped:
    """Section datatype that wraps its argument (C02)."""

    def __init__(self, section):
        self.section = section

    def __repr__(self):
        return "<Wrapped %r>" % (self.section,)


# -- re-entry -----------------------------------------------------------------
# Application datatypes may well use ZConfig themselves (a section datatype
# that reads a second configuration file is the textbook case).  wrap() and
# friends therefore run a complete little load, a substitution and a schema
# load of their own while the outer load is in progress; the outer load must
# not notice, and the inner one must give its own result.

REENTRIES = [0]
_MINI = [None]
_DEPTH = [0]
MINI_SCHEMA = ("<schema><sectiontype name='s'><key name='k' "
               "datatype='integer'/><multikey name='m'/></sectiontype>"
               "<multisection type='s' name='*' attribute='ss'/>"
               "<key name='k' default='d'/><key name='+' attribute='w'/>"
               "</schema>")
MINI_TEXT = ("%define x 1\n%define Y ${x}2\nk $Y\nother v\n<s a>\n  k 2\n"
             "  m $x\n  m $$\n</s>\n<S/>\n")


class ReentryBroken(Exception):
    """The nested load did not give its own result."""


def reenter():
    if _DEPTH[0]:
        return
    _DEPTH[0] += 1
    try:
        import io
        import ZConfig
        from ZConfig.substitution import substitute
        REENTRIES[0] += 1
        if _MINI[0] is None or REENTRIES[0] % 50 == 0:
            _MINI[0] = ZConfig.loadSchemaFile(io.StringIO(MINI_SCHEMA))
        cfg, handler = ZConfig.loadConfigFile(_MINI[0],
                                              io.StringIO(MINI_TEXT))
        got = (cfg.k, dict(cfg.w), [(x.getSectionName(), x.k, list(x.m))
                                    for x in cfg.ss], len(handler),
               substitute("$a-${B}$$", {"a": "1", "b": "2"}))
        want = ("12", {"other": "v"}, [("a", 2, ["1", "$"]),
                                       (None, None, [])], 0, "1-2$")
        if got != want:
            raise ReentryBroken("nested load gave %r, not %r" % (got, want))
        try:
            ZConfig.loadConfigFile(_MINI[0], io.StringIO("<s>\n k x\n</s>\n"))
        except ZConfig.DataConversionError:
            pass
        else:
            raise ReentryBroken("nested faulty load was accepted")
    finally:
        _DEPTH[0] -= 1


def wrap(section):
    reenter()
    return Wrapped(section)


class Wrapped2(Wrapped):
    pass


def wrap2(section):
    reenter()
    return Wrapped2(section)


def needs_marker(section):
    """Section datatype that rejects (ValueError) a section whose attribute
    'marker' is the string 'bad' (used for section-datatype faults)."""
    if getattr(section, "marker", None) == "bad":
        raise ValueError("marker is bad")
    reenter()
    return section


class Holder:
    """Datatype functions reached through objects that are not modules."""

    @staticmethod
    def conv(value):
        return value

    @staticmethod
    def lower(value):
        return value.lower()

    class Inner:
        @staticmethod
        def conv(value):
            return value
