"""Datatypes referenced by the generated schema family (by dotted name)."""


class Wrapped:
    """Section datatype that wraps its argument (C02)."""

    def __init__(self, section):
        self.section = section

    def __repr__(self):
        return "<Wrapped %r>" % (self.section,)


def wrap(section):
    return Wrapped(section)


class Wrapped2(Wrapped):
    pass


def wrap2(section):
    return Wrapped2(section)


def needs_marker(section):
    """Section datatype that rejects (ValueError) a section whose attribute
    'marker' is the string 'bad' (used for section-datatype faults)."""
    if getattr(section, "marker", None) == "bad":
        raise ValueError("marker is bad")
    return section


class Holder:
    """Datatype functions reached through objects that are not modules."""

    @staticmethod
    def conv(value):
        return value

    @staticmethod
    def lower(value):
        return value.lower()

    class Inner:
        @staticmethod
        def conv(value):
            return value
