"""Datatypes referenced by the generated schema family (by dotted name)."""


class Wrapped:
    """Section datatype that wraps its argument (C02)."""

    def __init__(self, section):
        self.section = section

    def __repr__(self):
        return "<Wrapped %r>" % (self.section,)


# -- re-entry -----------------------------------------------------------------
# Application datatypes may well use ZConfig themselves (a section datatype
# that reads a second configuration file is the textbook case).  wrap() and
# friends therefore run a complete little load, a substitution and a schema
# load of their own while the outer load is in progress; the outer load must
# not notice, and the inner one must give its own result.

REENTRIES = [0]
_MINI = [None]
_DEPTH = [0]
MINI_SCHEMA = ("<schema handler='top'><sectiontype name='s'><key name='k' "
               "datatype='integer' handler='h1'/><multikey name='m'/>"
               "</sectiontype>"
               "<multisection type='s' name='*' attribute='ss'/>"
               "<key name='k' default='d'/><key name='+' attribute='w'/>"
               "<multikey name='mk' handler='H3'/></schema>")
# names the outer texts use as well: defines a, b, Def1; sections main, s1
MINI_TEXT = ("%define x 1\n%define Y ${x}2\n%define a INNER\n"
             "%define Def1 ${a}-D\n%define b $a\nk $Y\nother $Def1$b\n"
             "<s main>\n  k 2\n"
             "  m $x\n  m $$\n</s>\n<S s1/>\nmk 1\nmk 2\n<s main2>\n</s>\n")
MINI_WANT = ("12", {"other": "INNER-DINNER"},
             [("main", 2, ["1", "$"]), ("s1", None, []), ("main2", None, [])],
             ["1", "2"], 5, "1-2$")
# ... and once more under command-line overrides
MINI_OVERRIDES = ["k=ov", "main/m=x", "s1/k=7", "mk=3"]
MINI_WANT_OV = ("ov", {"other": "INNER-DINNER"},
                [("main", 2, ["x"]), ("s1", 7, []), ("main2", None, [])],
                ["3"], 5, "1-2$")
ALSO = [None]         # a check may add a load of its own (a callable)
CURRENT = [None]      # ("text", schema, text) | ("path", schema, path): the
                      # outer load, set by the harness around its loads
SAME = [0]
SAME_RESULTS = []     # "ok" / "reject" of those nested loads; the harness
                      # compares them with how the outer load ended


def same_load_mismatch(outer_ok):
    """Message when a nested run of the very same load ended differently
    from the outer one (same schema, same text: same outcome), else None.
    (A nested run that happens before the outer load meets a fault it has
    itself cannot be compared: only an outer success is conclusive.)"""
    res, SAME_RESULTS[:] = list(SAME_RESULTS), []
    if outer_ok and "reject" in res:
        return ("the same load, run from inside itself, was rejected "
                "%d time(s) although it succeeds" % res.count("reject"))
    return None


class ReentryBroken(Exception):
    """The nested load did not give its own result."""


def reenter():
    if _DEPTH[0]:
        return
    _DEPTH[0] += 1
    try:
        import io
        import ZConfig
        from ZConfig.substitution import substitute
        REENTRIES[0] += 1
        if _MINI[0] is None or REENTRIES[0] % 50 == 0:
            _MINI[0] = ZConfig.loadSchemaFile(io.StringIO(MINI_SCHEMA))
        for ov, want in ((None, MINI_WANT), (MINI_OVERRIDES, MINI_WANT_OV)):
            if ov and REENTRIES[0] % 3:
                continue
            if ov:
                cfg, handler = ZConfig.loadConfigFile(
                    _MINI[0], io.StringIO(MINI_TEXT), overrides=ov)
            else:
                cfg, handler = ZConfig.loadConfigFile(_MINI[0],
                                                      io.StringIO(MINI_TEXT))
            got = (cfg.k, dict(cfg.w),
                   [(x.getSectionName(), x.k, list(x.m)) for x in cfg.ss],
                   list(cfg.mk), len(handler),
                   substitute("$a-${B}$$", {"a": "1", "b": "2"}))
            if got != want:
                raise ReentryBroken("nested load gave %r, not %r"
                                    % (got, want))
            seen = []
            handler({"h1": lambda v: seen.append(("h1", v)),
                     "h3": lambda v: seen.append(("h3", v)),
                     "TOP": lambda v: seen.append(("top", v is cfg))})
            if [x[0] for x in seen] != ["h1", "h1", "h1", "h3", "top"] or \
                    seen[-1] != ("top", True):
                raise ReentryBroken("nested handler delivered %r" % (seen,))
        if ALSO[0] is not None:
            ALSO[0]()
        cur = CURRENT[0]
        if cur is not None and REENTRIES[0] % 2 == 0:
            # the very load that is in progress, once more from inside it:
            # same schema object, same text or file, a loader of its own
            SAME[0] += 1
            try:
                ov = list(cur[3]) if len(cur) > 3 and cur[3] else ()
                if cur[0] == "text":
                    ZConfig.loadConfigFile(cur[1], io.StringIO(cur[2]),
                                           overrides=ov)
                else:
                    ZConfig.loadConfig(cur[1], cur[2], overrides=ov)
                SAME_RESULTS.append("ok")
            except ZConfig.ConfigurationError as e:
                SAME_RESULTS.append("reject")
        try:
            ZConfig.loadConfigFile(_MINI[0], io.StringIO("<s>\n k x\n</s>\n"))
        except ZConfig.DataConversionError:
            pass
        else:
            raise ReentryBroken("nested faulty load was accepted")
    finally:
        _DEPTH[0] -= 1


def wrap(section):
    reenter()
    return Wrapped(section)


class Wrapped2(Wrapped):
    pass


def wrap2(section):
    reenter()
    return Wrapped2(section)


def needs_marker(section):
    """Section datatype that rejects (ValueError) a section whose attribute
    'marker' is the string 'bad' (used for section-datatype faults)."""
    if getattr(section, "marker", None) == "bad":
        raise ValueError("marker is bad")
    reenter()
    return section


class Holder:
    """Datatype functions reached through objects that are not modules."""

    @staticmethod
    def conv(value):
        return value

    @staticmethod
    def lower(value):
        return value.lower()

    class Inner:
        @staticmethod
        def conv(value):
            return value


def reenter_sect(section):
    """Section datatype that only re-enters (C05)."""
    reenter()
    return section


def reenter_str(value):
    """Value datatype that only re-enters."""
    reenter()
    return value


def kt_reenter(value):
    """Key type (lower-cases like basic-key for plain names) that
    re-enters: key types run while the text is being read."""
    _KT[0] += 1
    if _KT[0] % 3 == 0:
        reenter()
    return value.lower()


_KT = [0]


_WILD_SCHEMA = ("<schema><key name='+' attribute='w'><default key='A'>1"
                "</default><default key='b'>2</default></key>"
                "<sectiontype name='q' keytype='identifier'>"
                "<key name='+' attribute='w'><default key='X'>1</default>"
                "<default key='x'>2</default></key></sectiontype></schema>")
KT_RELOADS = [0]


def kt_reload(value):
    """Key type (lower-cases) that loads a schema of its own - one with
    keyed defaults - every time it converts a key."""
    if not _DEPTH[0]:
        _DEPTH[0] += 1
        try:
            import io
            import ZConfig
            KT_RELOADS[0] += 1
            ZConfig.loadSchemaFile(io.StringIO(_WILD_SCHEMA))
        finally:
            _DEPTH[0] -= 1
    if not value or not value[0].isalpha() or not value.isascii():
        raise ValueError("bad key %r" % (value,))
    return value.lower()
