"""Formatter classes / factories a logging configuration may name with the
``formatter`` key; all of them render exactly as logging.Formatter does."""

import logging


class PlainFormatter(logging.Formatter):
    pass


def make(fmt=None, datefmt=None, style="%", **kw):
    return logging.Formatter(fmt, datefmt, style=style, **kw)


class HookFormatter(logging.Formatter):
    """A formatter class of the application's own that does something of
    its own when it is created - here: whatever HOOK says (the harness
    makes it call another logger section's factory)."""
    HOOK = [None]
    busy = [False]

    def __init__(self, *a, **kw):
        logging.Formatter.__init__(self, *a, **kw)
        if HookFormatter.HOOK[0] is not None and not HookFormatter.busy[0]:
            HookFormatter.busy[0] = True
            try:
                HookFormatter.HOOK[0]()
            finally:
                HookFormatter.busy[0] = False


class OldStyle(logging.Formatter):
    """A formatter class written before formatters had styles: its
    constructor takes the format and the date format, nothing else."""

    def __init__(self, fmt=None, datefmt=None):
        logging.Formatter.__init__(self, fmt, datefmt, validate=False)


def make_old(fmt=None, datefmt=None):
    return OldStyle(fmt, datefmt)
