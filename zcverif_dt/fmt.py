"""Formatter classes / factories a logging configuration may name with the
``formatter`` key; all of them render exactly as logging.Formatter does."""

import logging


class PlainFormatter(logging.Formatter):
    pass


def make(fmt=None, datefmt=None, style="%", **kw):
    return logging.Formatter(fmt, datefmt, style=style, **kw)
