"""C12 — abstract slots accept exactly their implementers, %import included.

Oracle: reference admitted-set model (schema implementers + implementers of
components %import-ed on earlier lines of the same load) via ref.refmatch;
state monitor on AbstractType.addsubtype / getsubtypenames of the
application schema around every load.
"""

import io
import os
import shutil

from ..gen import cuts, family, packages, texts
from ..mon import outcome
from ..ref import refmatch, refparse

ID = "C12"
LEVEL = "exploration"
TECHNIQUE = ("runtime monitoring: reference admitted-implementer-set model "
             "vs accept/reject and value tree of loads using %import, plus "
             "implementer-table monitor (hook on AbstractType.addsubtype, "
             "getsubtypenames before/after) over load sequences")
RULE = ("schemas with 1..3 abstract types (in a generated base package or "
        "inline), 0..4 concrete types implementing / extending in random "
        "combinations, slots of every abstract type at top level and inside "
        "a holder type, optionally a component imported at schema level; "
        "0..2 generated component packages adding implementers, extenders "
        "and plain types; texts placing %import lines before, between and "
        "after uses of schema implementers, non-implementers, extenders, "
        "the abstract type itself, component types and unknown types, "
        "repeated imports, imports of a plain module, a missing package and "
        "a package without component.xml; sequences of 1..4 loads against "
        "one schema object.  distinct_nontrivial = distinct (kinds of "
        "lines in order, expected outcome) signatures."
        ' The kept loader is a ConfigLoader, an ExtendedConfigLoader or one with an option; some worlds keep the abstract types and the slot-holding type in a library schema imported by <import src>; refused %import names include a plain module inside a component package.')
LEVEL_TEXT = ("Every load is compared with a reference that tracks the "
              "admitted implementer set line by line; the application "
              "schema's implementer tables are observed around every load.")
ASSUMPTIONS = [
    "the vocabulary of a load = schema types + types of components whose "
    "%import line has been read; components follow the shipped logger's "
    "layout (shared abstract.xml in a base package)",
]
FLOORS = {"quick": {"judged": 4000, "expect_accept": 800,
                    "expect_reject": 1500, "texts_with_import": 1500},
          "thorough": {"judged": 800000, "expect_accept": 400000,
                       "expect_reject": 250000, "texts_with_import": 400000}}
HOOK_FLOORS = {"quick": {"addsubtype_during_schema_load": 100},
               "thorough": {"addsubtype_during_schema_load": 5000}}
N_WORLDS = {"quick": 960, "thorough": 24000}
SEQS = {"quick": 10, "thorough": 20}


def shards(tier):
    return 16


def _key_alpha():
    return {"kind": "key", "name": "alpha", "datatype": "integer",
            "required": False, "handler": None, "attribute": None,
            "default": "42", "defaults": []}


class GetOnlyRegistry:
    """All a datatype registry has to offer is get(name): this one offers
    nothing else, and knows one name the stock registry does not."""

    def __init__(self):
        import ZConfig.datatypes
        self._r = ZConfig.datatypes.Registry()

    def get(self, name):
        if name == "zcvonly.int":
            return int
        return self._r.get(name)


class World:
    def __init__(self, rng, space):
        self.space = space
        self.getonly = rng.random() < 0.15
        n_abs = rng.randint(1, 3)
        abstracts = ["abs%d" % (i + 1) for i in range(n_abs)]
        model = {"keytype": "basic-key", "datatype": None, "handler": None,
                 "children": [], "types": []}
        for a in abstracts:
            model["types"].append({"kind": "abstract", "name": a})
        concretes = []
        # now and then an abstract type with very many implementers
        crowd = rng.random() < 0.05
        for i in range(rng.randint(33, 40) if crowd else rng.randint(0, 4)):
            # names that contain one another (c1, c1-x, x): admission goes
            # by the whole name, never by a part of it
            tname = "c%d" % (i + 1)
            if concretes and rng.random() < 0.35:
                base_n = rng.choice(concretes)
                cand = rng.choice([base_n + "-x", base_n + "x",
                                   "x" + base_n, base_n[:1]])
                if cand not in concretes and cand not in abstracts:
                    tname = cand
            t = {"kind": "section", "name": tname, "keytype": None,
                 "datatype": "wrap" if rng.random() < 0.2 else None,
                 "extends": None, "implements": None,
                 "children": [_key_alpha()]}
            if crowd:
                t["implements"] = abstracts[0]
            elif rng.random() < 0.6:
                t["implements"] = rng.choice(abstracts)
            if concretes and rng.random() < 0.4:
                t["extends"] = rng.choice(concretes)
                t["children"] = []
            model["types"].append(t)
            concretes.append(t["name"])
        # holder type with a nested abstract slot
        model["types"].append(
            {"kind": "section", "name": "holder", "keytype": None,
             "datatype": None, "extends": None, "implements": None,
             "children": [{"kind": "multisection", "name": "*",
                           "type": abstracts[0], "required": False,
                           "handler": None, "attribute": "inner"}]})
        model["children"].append(
            {"kind": "multisection", "name": "*", "type": "holder",
             "required": False, "handler": None, "attribute": "holders"})
        for i, a in enumerate(abstracts):
            model["children"].append(
                {"kind": "multisection",
                 "name": "*" if rng.random() < 0.7 else "+", "type": a,
                 "required": False, "handler": None,
                 "attribute": "slot_%d" % (i + 1)})
        # a top-level key no generated text sets (for a command-line
        # option that has nothing to do with sections)
        model["children"].append(
            {"kind": "key", "name": "zopt", "datatype": "string",
             "required": False, "handler": None, "attribute": None,
             "default": None, "defaults": []})
        if rng.random() < 0.3:
            model["children"].append(
                {"kind": "section", "name": "main", "type": abstracts[0],
                 "required": False, "handler": None, "attribute": None})
        self.model = model
        self.abstracts = abstracts
        self.inline = rng.random() < 0.25
        self.base = None
        self.components = []        # (pkg name, [typedefs])
        self.imports = {}           # pkg name -> packages its component imports
        self.schema_level = None    # component imported by the schema itself
        if not self.inline:
            self.base = space.new_name("base")
            space.write(self.base, {"abstract.xml":
                                    packages.abstract_xml(model)})
            ncomp = rng.randint(0, 2)
            names = [space.new_name("comp%d" % i) for i in range(ncomp)]
            # component packages may import each other (also in a cycle, or
            # themselves): importing one then brings in what it imports,
            # each component once
            cyc = rng.random()
            for i, name in enumerate(names):
                ctypes = packages.gen_component_types(rng, model,
                                                      "p%d" % i)
                if self.getonly:
                    for t_ in ctypes:
                        for c_ in t_["children"]:
                            if c_["datatype"] == "integer":
                                c_["datatype"] = "zcvonly.int"
                imports = []
                if cyc < 0.15 and ncomp == 2:
                    imports = [names[1 - i]]            # mutual
                elif cyc < 0.25:
                    imports = [name]                    # itself
                elif cyc < 0.35 and ncomp == 2 and i == 0:
                    imports = [names[1]]                # chain
                self.imports[name] = imports
                space.write(name, {"component.xml": packages.component_xml(
                    ctypes, self.base, imports)})
                self.components.append((name, ctypes))
            if rng.random() < 0.3:
                name = space.new_name("scomp")
                ctypes = packages.gen_component_types(rng, model, "sp")
                space.write(name, {"component.xml": packages.component_xml(
                    ctypes, self.base)})
                self.schema_level = (name, ctypes)
        # a component that defines an implementer and then fails (its
        # second type extends a type nobody defines): importing it is
        # refused every time and contributes nothing
        self.broken = None
        self.broken_types = []
        if self.base:
            self.broken = space.new_name("broken")
            bt = packages.gen_component_types(rng, model, "bk", 2)
            bt[1]["extends"] = "no-such-base-type"
            bt[1]["children"] = []
            space.write(self.broken, {"component.xml":
                                      packages.component_xml(bt, self.base)})
            self.broken_types = bt
        self.plain_module = space.new_name("mod")
        space.write(self.plain_module, {}, module_only=True)
        # a plain module inside a package that does provide a component:
        # the module itself is no package and provides none
        self.inner_module = None
        if self.components:
            space.write(self.components[0][0],
                        {"plainmod.py": "# a module, not a package\n"})
            self.inner_module = self.components[0][0] + ".plainmod"
        self.no_component = space.new_name("nocomp")
        space.write(self.no_component, {})
        head = None
        if self.schema_level:
            # (the default file name is spelled out half of the time: the
            # same component)
            head = "<import package='%s'%s/>" % (
                self.schema_level[0],
                " file='component.xml'" if rng.random() < 0.5 else "")
        # now and then the abstract types and the holder type (a section
        # type with an abstract slot) live in a library schema that the
        # application schema imports by reference; the implementers are
        # declared outside the library
        self.library = None
        rendered = model
        if self.inline and rng.random() < 0.4:
            import urllib.request
            lib = [t for t in model["types"]
                   if t["kind"] == "abstract" or t["name"] == "holder"]
            out = ["<schema>"]
            family.render_types(lib, out)
            out.append("</schema>")
            World._libs = getattr(World, "_libs", 0) + 1
            self.library = os.path.join(space.root,
                                        "zcvlib %d.xml" % World._libs)
            with open(self.library, "w") as f:
                f.write("\n".join(out) + "\n")
            rendered = dict(model, types=[t for t in model["types"]
                                          if t not in lib])
            head = "<import src='file://%s'/>" % urllib.request.pathname2url(
                self.library) + (head or "")
        self.xml = family.render_xml(
            rendered, abstract_import=(self.base, "abstract.xml")
            if self.base else None, head_xml=head)
        import ZConfig
        import ZConfig.loader
        if self.getonly and not self.inline:
            self.schema = ZConfig.loader.SchemaLoader(
                GetOnlyRegistry()).loadFile(io.StringIO(self.xml))
        else:
            self.getonly = False
            self.schema = ZConfig.loadSchemaFile(io.StringIO(self.xml))

    def closure(self, imported):
        """The packages whose components are in after importing these."""
        reach = set()
        todo = [n for n in imported]
        while todo:
            n = todo.pop()
            if n not in reach:
                reach.add(n)
                todo.extend(self.imports.get(n, ()))
        return reach

    def resolved_with(self, imported):
        """Resolved model of the schema plus the given imported packages."""
        import copy
        m = copy.deepcopy(self.model)
        if self.schema_level:
            m["types"].extend(copy.deepcopy(self.schema_level[1]))
        reach = self.closure(imported)
        for name, ctypes in self.components:
            if name in reach:
                m["types"].extend(copy.deepcopy(ctypes))
        return family.Resolved(m)

    def subtype_tables(self, schema=None):
        schema = schema or self.schema
        return {a: schema.gettype(a).getsubtypenames()
                for a in self.abstracts}


def gen_text(rng, w):
    """-> (text, kinds).  60% of the texts only use what is admitted at
    that point (by construction mostly valid), the rest is hostile."""
    lines = []
    kinds = []
    friendly = rng.random() < 0.6
    imported = []
    serial = [0]

    def admitted_now(slot_children):
        res = w.resolved_with(imported)
        adm = []
        for c in slot_children:
            if c["kind"] in ("section", "multisection") and \
                    c["name"] in ("*", "+"):
                for t in res.admitted(c):
                    adm.append((t, c["name"]))
        return res, adm

    has_main = any(c["name"] == "main" for c in w.model["children"])

    def section(t, slotname, depth=0):
        serial[0] += 1
        name = "s%d" % serial[0] if (slotname == "+" or
                                     rng.random() < 0.5) else None
        if has_main and depth == 0 and rng.random() < 0.25:
            # the fixed-name abstract slot, with whatever type this is
            name = rng.choice(["main", "Main"])
        if not friendly and rng.random() < 0.15:
            name = None
        ind = "  " * depth
        head = t + ((" " + name) if name else "")
        if t == "holder" and depth == 0:
            lines.append("%s<%s>" % (ind, head))
            if w.components and rng.random() < 0.3:
                # an %import line inside an open section: from that line
                # onward, here and after the section
                n_, _t = rng.choice(w.components)
                lines.append("%s  %%import %s" % (ind, n_))
                if n_ not in imported:
                    imported.append(n_)
                kinds.append("I")
            res, adm = admitted_now(
                [c for c in w.model["types"] if c.get("name") == "holder"]
                [0]["children"])
            for _ in range(rng.randint(0, 2)):
                if friendly and adm:
                    t2, sn = rng.choice(adm)
                    section(t2, sn, depth + 1)
                elif not friendly:
                    section(rng.choice(res.concrete_names() + w.abstracts),
                            "*", depth + 1)
            lines.append("%s</%s>" % (ind, t))
        elif rng.random() < 0.5:
            lines.append("%s<%s/>" % (ind, head))
        else:
            lines.append("%s<%s>" % (ind, head))
            if rng.random() < 0.3 and t != "holder":
                res = w.resolved_with([n for n, _ in w.components])
                cont = res.types.get(t)
                if cont not in (None, "abstract") and any(
                        c["name"] == "alpha" for c in cont.children):
                    lines.append("%s  alpha 42" % ind)
            lines.append("%s</%s>" % (ind, t))

    for _ in range(rng.randint(1, 7)):
        r = rng.random()
        if r < 0.3 and w.components:
            n, _ = rng.choice(w.components)
            lines.append("%import " + n)
            if n not in imported:
                imported.append(n)
            kinds.append("I")
        elif r < 0.36 and not friendly:
            bad = rng.choice([w.plain_module, w.no_component,
                              "zcvpkg_no_such_package", "os",
                              "zcvpkg..x"] +
                             ([w.inner_module] * 2 if w.inner_module
                              else []) +
                             ([w.base] if w.base else []) +
                             ([w.broken] * 3 if w.broken else []))
            if rng.random() < 0.2:
                # a name that only becomes empty (or blank) when expanded
                lines.append("%define zcv_nothing" + rng.choice(["", "  "]))
                bad = rng.choice(["${zcv_nothing}", "$zcv_nothing"])
            lines.append("%import " + bad)
            kinds.append("B")
        elif r < 0.4 and w.schema_level:
            lines.append("%import " + w.schema_level[0])
            kinds.append("S")
        else:
            res, adm = admitted_now(w.model["children"])
            if friendly:
                if not adm:
                    continue
                t, sn = rng.choice(adm)
                kinds.append("c")
                section(t, sn)
                continue
            res_all = w.resolved_with([n for n, _ in w.components])
            concrete = res_all.concrete_names()
            if w.broken_types and rng.random() < 0.25:
                # a type only the component that cannot be imported has
                concrete = [w.broken_types[0]["name"]]
            pick = rng.random()
            if pick < 0.75 and concrete:
                t = rng.choice(concrete)
                kinds.append("c")
            elif pick < 0.85:
                t = rng.choice(w.abstracts)
                kinds.append("a")
            else:
                t = "nosuchtype"
                kinds.append("u")
            section(t, "*")
    return "".join(l + "\n" for l in lines), ("F" if friendly else "H") + \
        "".join(kinds)


def expected(w, text):
    events, out, _ = refparse.parse(text)
    if out[0] != "ok":
        return ("reject", "syntax", out)
    comp = {n: ts for n, ts in w.components}
    good_imports = set(comp)
    if w.schema_level:
        good_imports.add(w.schema_level[0])
    imported = []
    comp_types = {}
    for n, ts in w.components:
        for t in ts:
            comp_types[t["name"]] = n
    for e in events:
        if e[0] == "import":
            if e[1] not in good_imports:
                return ("reject", "import", "%s is not a component package"
                        % e[1])
            if e[1] in comp and e[1] not in imported:
                imported.append(e[1])
        elif e[0] == "open":
            owner = comp_types.get(e[3])
            if owner is not None and owner not in w.closure(imported):
                return ("reject", "match",
                        "type %s used before its %%import" % e[3])
    res = w.resolved_with(imported)
    events = [e for e in events if e[0] != "import"]
    return refmatch.conform_tree(res, refmatch.build_tree(events))


def load_path(schema, path):
    import ZConfig
    try:
        config, handler = ZConfig.loadConfig(schema, path)
    except Exception as e:  # noqa
        fam, tn, lineno, url = outcome.classify_exception(e)
        return ("reject", fam, tn, lineno, url, str(e)[:200])
    return ("ok", outcome.canon_value(config), None, None)


class Hook:
    def __init__(self, res):
        self.res = res
        self.phase = "schema"
        self.events = []
        self.app_ids = set()

    def install(self):
        from ZConfig import info
        self.cls = info.AbstractType
        self.orig = self.cls.addsubtype
        hook = self

        def addsubtype(self, type_):
            if hook.phase == "schema":
                hook.res.hook("addsubtype_during_schema_load")
            else:
                hook.res.hook("addsubtype_during_config_load")
                if id(self) in hook.app_ids:
                    hook.events.append((self.name, type_.name))
            return hook.orig(self, type_)
        self.cls.addsubtype = addsubtype

    def remove(self):
        self.cls.addsubtype = self.orig


def strip_imports(text):
    return "".join(l + "\n" for l in text.split("\n")
                   if l and not l.strip().startswith("%import"))


def harmless_alpha_override(w, text):
    """'<type>/alpha=42' for the first top-level section type of the text
    that has the key 'alpha' (None if there is none)."""
    events, out, _ = refparse.parse(text)
    if out[0] != "ok":
        return None, False
    res = w.resolved_with([n for n, _ in w.components])
    imported_types = set(t["name"] for _, ts in w.components for t in ts)
    found = None
    for e in events:
        if e[0] == "open" and e[2] == 0:
            cont = res.types.get(e[3])
            if cont not in (None, "abstract") and any(
                    c["name"] == "alpha" for c in cont.children):
                if e[3] not in imported_types:
                    # a type the application schema has itself
                    return "%s/alpha=42" % e[3], False
                found = found or e[3]
    if found:
        return "%s/alpha=42" % found, True
    return None, False


def validator_run(ctx, w, texts_):
    """The validator script over several files in one run: each file is a
    load of its own.  -> (status, number of message lines)"""
    import contextlib
    import gc
    from ZConfig import validator
    d = os.path.join(ctx.tmp, "c12val")
    shutil.rmtree(d, ignore_errors=True)
    os.makedirs(d)
    sp = os.path.join(d, "schema.xml")
    with open(sp, "w", encoding="utf-8") as f:
        f.write(w.xml)
    args = ["-s", sp]
    for i, t in enumerate(texts_):
        fp = os.path.join(d, "f%d.conf" % i)
        with open(fp, "w", encoding="utf-8") as f:
            f.write(t)
        args.append(fp)
    err = io.StringIO()
    try:
        with contextlib.redirect_stderr(err):
            rc = validator.main(args)
    except BaseException as e:  # noqa
        rc = "%s: %s" % (type(e).__name__, e)
    gc.collect()
    return rc, err.getvalue()


def validator_scenario(ctx, w, hook, with_import):
    """File 1 imports a component and uses its types, file 2 uses them
    without importing: an %import extends the vocabulary of its own load
    only, so file 2 is invalid wherever it stands in the argument list."""
    res = ctx.res
    bare = strip_imports(with_import)
    if expected(w, with_import)[0] != "accept" or \
            expected(w, bare)[0] != "reject":
        return
    hook.phase = "config"
    try:
        for order in ([with_import, bare], [bare, with_import],
                      [with_import, with_import, bare]):
            res.evaluations += 1
            res.count("validator_runs")
            rc, msgs = validator_run(ctx, w, order)
            if rc != 1:
                res.violate(
                    "import-of-one-file-serves-the-next",
                    {"xml": w.xml, "texts": order, "via": "validator",
                     "components": [[n, ts] for n, ts in w.components],
                     "imports": dict(w.imports),
                     "schema_level": list(w.schema_level)
                     if w.schema_level else None, "model": w.model},
                    "status 1 (the file without %import is invalid)",
                    [rc, msgs[:300]],
                    detail="validator over %d files -> %r; files=%r"
                    % (len(order), rc, order),
                    vsig="validator|%s" % rc)
                break
    finally:
        hook.phase = "schema"


def run_world(ctx, w, hook, rng):
    res = ctx.res
    hook.app_ids = set(id(w.schema.gettype(a)) for a in w.abstracts)
    comp_types = set(t["name"] for _, ts in w.components for t in ts)
    # (a component that fails half-way has already registered the
    # implementers it defined before the failure: same mechanism)
    comp_types |= set(t["name"] for t in w.broken_types)
    for_validator = None
    from ZConfig.loader import ConfigLoader
    from ZConfig.cmdline import ExtendedConfigLoader
    # the loader object kept for every text of the world: a plain one,
    # the command-line loader without options, or the command-line loader
    # with an option that sets the top-level key 'zopt'
    ll_kind = rng.choice(["plain", "plain", "ext", "ext-opt"])
    if ll_kind == "plain":
        long_lived = ConfigLoader(w.schema)
    else:
        long_lived = ExtendedConfigLoader(w.schema)
        if ll_kind == "ext-opt":
            long_lived.addOption("zopt=1")
    res.count("long_lived_loader_" + ll_kind)
    earlier = []
    for _ in range(SEQS[ctx.tier]):
        for li in range(rng.randint(1, 4)):
            text, kinds = gen_text(rng, w)
            res.evaluations += 1
            exp = expected(w, text)
            if for_validator is None and exp[0] == "accept" and \
                    "%import" in text:
                for_validator = text
            before = w.subtype_tables()
            hook.phase = "config"
            hook.events = []
            via = "text"
            if "%import" in text and rng.random() < 0.3:
                # the same lines with a balanced range (often holding an
                # %import) moved into an included file: an %import read in
                # an included resource counts from that line onward too
                lay = cuts.cut_text(rng, text)
                if lay is not None:
                    via = "include"
                    d = os.path.join(ctx.tmp, "c12inc")
                    shutil.rmtree(d, ignore_errors=True)
                    obs = load_path(w.schema, lay.write(d))
                    res.count("loads_via_include")
            if via == "text" and "%import" in text and exp[0] == "accept" \
                    and rng.random() < 0.35:
                # the same load with a command-line override that changes
                # nothing (alpha is 42 wherever it is written, and by
                # default): imported types must be known to whatever
                # handles the override as well
                spec, spec_imported = harmless_alpha_override(w, text)
                if spec:
                    via = "override"
                    obs = outcome.load_text(w.schema, text, overrides=[spec])
                    res.count("loads_with_override")
                    if spec_imported:
                        res.count("override_addresses_imported_type")
            if via == "text":
                obs = outcome.load_text(w.schema, text)
                # ... and through the one loader object that has read every
                # earlier text of this world: each load starts from the
                # application schema
                if exp[0] != "unjudged":
                    o2 = outcome._finish(
                        lambda: long_lived.loadFile(io.StringIO(text)))
                    res.count("loads_by_long_lived_loader")
                    want = ("ok", exp[1]) if exp[0] == "accept" \
                        else ("reject",)
                    if ll_kind == "ext-opt" and exp[0] == "accept":
                        e2 = expected(w, text + "zopt 1\n")
                        want = ("ok", e2[1]) if e2[0] == "accept" \
                            else ("unexpected", e2)
                    got = ("ok", o2[1]) if o2[0] == "ok" else ("reject",)
                    if want != got:
                        res.violate(
                            "long-lived-loader-differs",
                            {"xml": w.xml, "text": text, "via": "loader",
                             "earlier_texts": list(earlier[-6:]),
                             "loader_kind": ll_kind,
                             "components": [[n, ts]
                                            for n, ts in w.components],
                             "imports": dict(w.imports),
                             "broken": [w.broken, w.broken_types],
                             "schema_level": list(w.schema_level)
                             if w.schema_level else None, "model": w.model},
                            list(exp[:2]) if exp[0] == "reject" else exp[1],
                            list(o2[:2]) if o2[0] == "ok" else list(o2[:6]),
                            detail="one ConfigLoader for every text of the "
                            "world; this text=%r; before it=%r"
                            % (text, earlier[-3:]),
                            vsig="longlived|%s|%s" % (exp[0], o2[0]))
                earlier.append(text)
            hook.phase = "schema"
            after = w.subtype_tables()
            case = {"xml": w.xml, "text": text, "load_index": li, "via": via,
                    "getonly": w.getonly,
                    "components": [[n, ts] for n, ts in w.components],
                    "imports": dict(w.imports),
                    "schema_level": list(w.schema_level)
                    if w.schema_level else None, "model": w.model}
            if "%import" in text:
                res.count("texts_with_import")
            if exp[0] == "unjudged":
                res.count("unjudged")
            else:
                res.count("judged")
                res.count("expect_" + exp[0])
                res.sig("%s|%s|%d" % (kinds[:8], exp[0], li))
                res.sample("%s-%s" % (exp[0], "imp" if "I" in kinds
                                      else "plain"),
                           {"schema": w.xml, "text": text,
                            "expected": list(exp[:2]) if exp[0] == "reject"
                            else "accept"}, 1)
                bad = None
                if exp[0] == "accept":
                    if obs[0] != "ok":
                        bad = ("refused-although-admitted", "accept",
                               list(obs[:6]))
                    elif obs[1] != exp[1]:
                        bad = ("value-tree-differs", exp[1], obs[1])
                else:
                    if obs[0] == "ok":
                        bad = ("accepted-although-not-admitted",
                               list(exp[:3]), "accepted")
                    elif obs[1] != "config":
                        bad = ("rejected-with-non-configuration-error",
                               list(exp[:3]), list(obs[:6]))
                if bad:
                    mech = None
                    if via == "override" and spec_imported and \
                            bad[0] == "refused-although-admitted" and \
                            "unknown type name" in str(obs[5]) and \
                            repr(spec.split("/")[0]) in str(obs[5]):
                        # neutraliser: the same text without the override
                        plain = outcome.load_text(w.schema, text)
                        if plain[0] == "ok" and plain[1] == exp[1]:
                            mech = "override-addresses-section-of-" \
                                   "imported-type"
                    if via == "override":
                        case = dict(case, overrides=[spec])
                    res.violate(bad[0], case, bad[1], bad[2],
                                detail="load %d text=%r exp=%s%s" % (
                                    li, text, str(exp[:3])[:150],
                                    " overrides=%r" % [spec]
                                    if via == "override" else ""),
                                mechanism=mech,
                                vsig="%s|%s|%s" % (bad[0], kinds[:6], mech))
            # implementer tables of the application schema
            if hook.events or before != after:
                mech = None
                added = set(n for _, n in hook.events)
                for a in w.abstracts:
                    added |= set(after[a]) - set(before[a])
                grown_only = all(set(before[a]) <= set(after[a])
                                 for a in w.abstracts)
                if grown_only and added and added <= comp_types and \
                        "%import" in text:
                    # neutraliser: without the %import lines nothing happens
                    b2 = w.subtype_tables()
                    hook.phase = "config"
                    hook.events = []
                    outcome.load_text(w.schema, strip_imports(text))
                    hook.phase = "schema"
                    if not hook.events and b2 == w.subtype_tables():
                        mech = "import-adds-implementers-to-application-" \
                               "schema"
                res.violate("application-schema-implementer-table-changed",
                            case, before, after,
                            detail="added=%s text=%r" % (sorted(added),
                                                         text),
                            mechanism=mech,
                            vsig="table|%s" % mech)
    if for_validator is not None and rng.random() < 0.8 and not w.getonly:
        validator_scenario(ctx, w, hook, for_validator)


def churn(ctx, w, rng, rounds=10):
    """Schema objects come and go: two different schemas that import the
    same component are loaded, used for one %import load and dropped, over
    and over, so that a later schema object sits where an earlier one sat.
    Each load sees its own schema's implementers and the imported ones."""
    import copy
    import gc
    import ZConfig
    res = ctx.res
    name, ctypes = w.components[0]
    imp = [t["name"] for t in ctypes if t.get("implements")]
    mb = copy.deepcopy(w.model)
    mb["types"].insert(len(w.abstracts), {
        "kind": "section", "name": "zcv-b-only", "keytype": None,
        "datatype": None, "extends": None, "implements": w.abstracts[0],
        "children": [_key_alpha()]})
    head = "<import package='%s'/>" % w.schema_level[0] \
        if w.schema_level else None
    xml_b = family.render_xml(
        mb, abstract_import=(w.base, "abstract.xml") if w.base else None,
        head_xml=head)
    text_a = "%%import %s\n<holder n1>\n</holder>\n" % name
    text_b = "%%import %s\n<zcv-b-only n1>\n  alpha 42\n</zcv-b-only>\n" \
        % name
    if imp:
        # (the first abstract slot may not be the one the imported type
        # implements: use it only inside a holder when it fits)
        pass
    for k in range(rounds):
        for xml, text, tag in ((w.xml, text_a, "A"), (xml_b, text_b, "B")):
            try:
                schema = ZConfig.loadSchemaFile(io.StringIO(xml))
            except Exception as e:  # noqa
                res.count("churn_schema_failed")
                return
            o = outcome.load_text(schema, text)
            res.evaluations += 1
            res.count("churn_loads")
            if o[0] != "ok":
                res.violate(
                    "refused-although-admitted",
                    {"xml": xml, "text": text, "via": "churn", "round": k,
                     "components": [[n, ts] for n, ts in w.components],
                     "imports": dict(w.imports),
                     "schema_level": list(w.schema_level)
                     if w.schema_level else None,
                     "model": mb if tag == "B" else w.model},
                    "accept", list(o[:6]),
                    detail="round %d schema %s (schema objects created and "
                    "dropped in turn): text=%r -> %s" % (k, tag, text, o[5]),
                    vsig="churn|%s" % o[2])
                return
            del schema, o
            gc.collect()


def run_shard(ctx):
    space = packages.PackageSpace(os.path.join(ctx.tmp, "pkgs"),
                                  "c12s%d" % ctx.shard)
    space.split_every = 5
    space.odd_every = 4
    space.lead_every = 3
    hook = Hook(ctx.res)
    hook.install()
    try:
        for wi in range(N_WORLDS[ctx.tier] // ctx.nshards):
            rng = ctx.rng("world", wi)
            hook.phase = "schema"
            try:
                w = World(rng, space)
            except Exception as e:  # noqa
                ctx.res.count("world_failed")
                ctx.res.sample("world-failed", {"error": "%s: %s" % (
                    type(e).__name__, e)}, 2)
                import ZConfig
                if isinstance(e, ZConfig.ConfigurationError):
                    # the generated schema (abstract types, implementers,
                    # component packages) obeys every rule: refusing it
                    # is refusing its implementers
                    ctx.res.evaluations += 1
                    ctx.res.violate(
                        "schema-with-implementers-refused",
                        {"world": wi, "seed": ctx.seed, "shard": ctx.shard},
                        "loads", "%s: %s" % (type(e).__name__,
                                             str(e)[:200]),
                        detail="world %d: %s: %s" % (wi, type(e).__name__,
                                                     str(e)[:160]),
                        vsig="world|%s" % type(e).__name__)
                continue
            ctx.res.count("worlds")
            run_world(ctx, w, hook, rng)
            if w.getonly:
                ctx.res.count("worlds_with_get_only_registry")
            if w.library:
                ctx.res.count("worlds_with_library_schema")
            if w.components and rng.random() < 0.2 and not w.getonly:
                hook.phase = "churn"
                churn(ctx, w, rng)
                hook.phase = "schema"
    finally:
        hook.remove()
        space.close()


def replay(ctx, case):
    import re
    import ZConfig
    space = packages.PackageSpace(os.path.join(ctx.tmp, "pkgs"), "c12r")
    if "world" in case:
        from ..core.shard import Ctx
        c2 = Ctx("C12", "quick", case["seed"], case["shard"], shards("quick"))
        try:
            World(c2.rng("world", case["world"]), space)
        except ZConfig.ConfigurationError as e:
            ctx.res.violate("schema-with-implementers-refused", case,
                            "loads", "%s: %s" % (type(e).__name__, e))
        finally:
            space.close()
        return
    try:
        base = re.search(r"<import package=\"([^\"]+)\" file=\"abstract",
                         case["xml"])
        if base:
            space.write(base.group(1), {"abstract.xml":
                                        packages.abstract_xml(case["model"])})
        comps = list(case["components"])
        if case.get("schema_level"):
            comps.append(case["schema_level"])
        imports = case.get("imports", {})
        for n, ts in comps:
            space.write(n, {"component.xml": packages.component_xml(
                ts, base.group(1) if base else None, imports.get(n, ()))})

        if case.get("broken") and case["broken"][0]:
            space.write(case["broken"][0], {
                "component.xml": packages.component_xml(
                    case["broken"][1], base.group(1) if base else None)})

        class W:
            pass
        w = W()
        w.model = case["model"]
        w.components = [(n, ts) for n, ts in case["components"]]
        w.schema_level = tuple(case["schema_level"]) \
            if case.get("schema_level") else None
        w.imports = imports
        w.closure = lambda imported: World.closure(w, imported)
        w.resolved_with = lambda imported: World.resolved_with(w, imported)
        if case.get("via") == "validator":
            w.xml = case["xml"]
            rc, msgs = validator_run(ctx, w, case["texts"])
            if rc != 1:
                ctx.res.violate("import-of-one-file-serves-the-next", case,
                                "status 1", [rc, msgs[:300]])
            return
        if case.get("getonly"):
            import ZConfig.loader
            schema = ZConfig.loader.SchemaLoader(
                GetOnlyRegistry()).loadFile(io.StringIO(case["xml"]))
        else:
            schema = ZConfig.loadSchemaFile(io.StringIO(case["xml"]))
        exp = expected(w, case["text"])
        if case.get("via") == "loader":
            from ZConfig.loader import ConfigLoader
            from ZConfig.cmdline import ExtendedConfigLoader
            kind = case.get("loader_kind", "plain")
            ld = ConfigLoader(schema) if kind == "plain" \
                else ExtendedConfigLoader(schema)
            if kind == "ext-opt":
                ld.addOption("zopt=1")
                exp = expected(w, case["text"] + "zopt 1\n")
            for t in case.get("earlier_texts", ()):
                outcome._finish(lambda: ld.loadFile(io.StringIO(t)))
            obs = outcome._finish(
                lambda: ld.loadFile(io.StringIO(case["text"])))
        else:
            obs = outcome.load_text(schema, case["text"])
        if exp[0] == "accept" and (obs[0] != "ok" or obs[1] != exp[1]):
            ctx.res.violate("refused-or-differs", case, list(exp[:2]),
                            list(obs[:6]))
        elif exp[0] == "reject" and obs[0] == "ok":
            ctx.res.violate("accepted-although-not-admitted", case,
                            list(exp[:3]), "accepted")
    finally:
        space.close()
