"""C11 — schema composition features mean the same as their written-out
expansion.

Metamorphic monitor: for a composed schema S and its mechanical expansion S'
(produced by this module, not by ZConfig), loadConfigFile must give the same
outcome for the same text; both sides are decided by the real loader.
"""

import copy
import importlib
import io
import json
import os
import shutil
import sys

from ..gen import family, packages, texts
from ..mon import outcome

ID = "C11"
LEVEL = "exploration"
TECHNIQUE = ("runtime monitoring: metamorphic comparator composed schema vs "
             "mechanically expanded schema (extends chains, prefixes, "
             "schema-level extends, component import diamonds) over "
             "generated texts")
RULE = ("four families of composed schemas, each paired with its expansion "
        "and 12 (quick) / 30 (thorough) generated texts (valid and "
        "faulted): (a) section types with extends chains <=3 incl. key type "
        "/ datatype inheritance and override, wildcard defaults "
        "re-normalised, implements not inherited; (b) prefix attributes on "
        "schema / component / sectiontype nesting <=3, absolute and "
        "relative dotted datatype names; (c) schema-level extends with 1..3 "
        "base files incl. key type / datatype inheritance and the conflict "
        "rule; (d) diamond-shaped component imports over 3 generated "
        "packages imported once, twice and along two paths.  "
        "distinct_nontrivial = distinct (family, composition shape, "
        "outcome) signatures."
        ' Further families: a component whose datatype module loads a schema importing the same component (nested schema load); relative package names under a prefix with and without decoy top-level packages; bases broken then repaired; schema loads from a decoy working directory and through a loader that makes its own resource objects.')
LEVEL_TEXT = ("Each (composed, expanded) schema pair is loaded by the real "
              "schema loader and every text is loaded against both; value "
              "trees or the fact of rejection must agree.")
ASSUMPTIONS = [
    "the expansion rules implemented here are the statement's: base "
    "children first, own after; key type / datatype inherited unless "
    "overridden; implements not inherited; relative dotted names prefixed "
    "by the nearest enclosing prefix; base schemas merged; component types "
    "defined once",
    "base schemas are merged in the order ZConfig reads them (last listed "
    "first); the documentation does not fix that order and only ambiguous "
    "schemas could tell",
]
FLOORS = {"quick": {"compared": 8000, "compared_ok": 2500,
                    "fam_extends": 2500, "fam_prefix": 1500,
                    "fam_schema_extends": 1500, "fam_components": 1000},
          "thorough": {"compared": 1000000, "compared_ok": 350000,
                       "fam_extends": 250000, "fam_prefix": 250000,
                       "fam_schema_extends": 250000,
                       "fam_components": 250000}}
N = {"quick": 480, "thorough": 15000}       # schema pairs per family
TEXTS = {"quick": 12, "thorough": 30}


def shards(tier):
    return 16


class PlainResource:
    """What a loader's createResource() may return: an object with 'file',
    'url', 'close()' - and nothing borrowed from the file."""

    closed = False

    def __init__(self, file, url):
        self.file = file
        self.url = url

    def close(self):
        if self.file is not None:
            self.file.close()
            self.file = None
            self.closed = True

    def __enter__(self):
        return self

    def __exit__(self, *exc):
        self.close()
        return False


_LST = [0]


def own_resource_loader():
    import ZConfig.loader

    class OwnResources(ZConfig.loader.SchemaLoader):
        def createResource(self, file, url):
            return PlainResource(file, url)
    return OwnResources()


def load_schema_text(xml):
    import ZConfig
    _LST[0] += 1
    try:
        if _LST[0] % 4 == 0:
            # through a loader that makes resource objects of its own
            return own_resource_loader().loadFile(io.StringIO(xml)), None
        return ZConfig.loadSchemaFile(io.StringIO(xml)), None
    except ZConfig.SchemaError as e:
        return None, ("SchemaError", str(e)[:120])
    except Exception as e:  # noqa
        return None, (type(e).__name__, str(e)[:120])


_LSP = [0]


def load_schema_path(path, cwd=None):
    import ZConfig
    _LSP[0] += 1
    if cwd is not None:
        # from a working directory of the caller's choosing (restored
        # afterwards)
        old_ = os.getcwd()
        os.chdir(cwd)
        try:
            return load_schema_path(path)
        finally:
            os.chdir(old_)
    try:
        if _LSP[0] % 3 == 0:
            # the same file as an open binary file whose name is bytes
            old = os.getcwd()
            os.chdir("/")
            try:
                with open(os.fsencode(path), "rb") as f:
                    return ZConfig.loadSchemaFile(f), None
            finally:
                os.chdir(old)
        if _LSP[0] % 3 == 1:
            return own_resource_loader().loadURL(path), None
        return ZConfig.loadSchema(path), None
    except ZConfig.SchemaError as e:
        return None, ("SchemaError", str(e)[:120])
    except Exception as e:  # noqa
        return None, (type(e).__name__, str(e)[:120])


def key(o):
    return o[:2] if o[0] == "ok" else ("reject",)


def compare_pair(ctx, fam, shape, s1, e1, s2, e2, res_model, case, rng,
                 classify=None):
    """s1/s2: schema objects (or None with e1/e2 errors)."""
    res = ctx.res
    res.count("pairs_" + fam)
    if (s1 is None) != (s2 is None):
        mech = classify(case) if classify else None
        res.evaluations += 1
        res.violate("one-schema-loads-the-other-does-not", case,
                    {"composed": e1 or "loads"}, {"expanded": e2 or "loads"},
                    detail="%s composed=%s expanded=%s" % (fam, e1, e2),
                    mechanism=mech, vsig="load|%s|%s" % (fam, mech))
        return
    if s1 is None:
        res.count("both_refused")
        return
    for _ in range(TEXTS[ctx.tier]):
        tree, faults = texts.generate(rng, res_model)
        text = texts.render(tree)
        res.evaluations += 1
        o1 = outcome.load_text(s1, case.get("prefix", "") + text)
        o2 = outcome.load_text(s2, text)
        res.count("compared")
        res.count("fam_" + fam)
        res.count("compared_" + o2[0])
        res.sig("%s|%s|%s|%s" % (fam, shape, o2[0], ",".join(sorted(
            f["kind"] for f in faults))))
        res.sample("%s-%s" % (fam, o2[0]), dict(case, text=text), 1)
        if key(o1) == key(o2) and o1[0] == "ok" and \
                json.dumps(o1[1]) != json.dumps(o2[1]):
            # equal trees whose attributes come in another order: an
            # expansion writes the base's items first, in the base's order
            res.count("attribute_order_differs")
            res.violate("composed-differs-from-expansion-in-order",
                        dict(case, text=text),
                        {"expanded": json.dumps(o2[1])[:300]},
                        {"composed": json.dumps(o1[1])[:300]},
                        detail="%s %s: same values, other order of "
                        "attributes; text=%r" % (fam, shape, text),
                        vsig="order|%s" % fam)
        if key(o1) != key(o2):
            mech = classify(case) if classify else None
            res.violate("composed-differs-from-expansion",
                        dict(case, text=text),
                        {"expanded": list(o2[:2]) if o2[0] == "ok"
                         else list(o2[:6])},
                        {"composed": list(o1[:2]) if o1[0] == "ok"
                         else list(o1[:6])},
                        detail="%s %s text=%r" % (fam, shape, text),
                        mechanism=mech,
                        vsig="diff|%s|%s|%s|%s" % (fam, o1[0], o2[0], mech))


# ---------------------------------------------------------------------------
# (a) extends chains

def expand_extends(model):
    res = family.Resolved(model)
    m = copy.deepcopy(model)
    for t in m["types"]:
        if t["kind"] != "section" or not t.get("extends"):
            continue
        cont = res.types[t["name"]]
        ch = copy.deepcopy(cont.children)
        for c in ch:
            c.pop("_declared_under", None)
        t["children"] = ch
        t["keytype"] = cont.keytype if cont.keytype != "basic-key" else None
        t["datatype"] = cont.datatype
        t["extends"] = None
    return m


def nonfixed_inherited(model):
    """Known-finding predicate: a derived type overrides the key type and
    inherits a declared name that the new key type normalises differently
    (or refuses)."""
    res = family.Resolved(model)
    for t in model["types"]:
        if t["kind"] == "section" and t.get("extends") and t.get("keytype"):
            base = res.types[t["extends"]]
            if t["keytype"] == base.keytype:
                continue
            for c in base.children:
                if c["name"] in ("*", "+"):
                    continue
                bk = c.get("_declared_under", base.keytype)
                a = family.norm_key(bk, c["name"])
                try:
                    b = family.norm_key(t["keytype"], c["name"])
                except ValueError:
                    b = None
                if a != b:
                    return True
    return False


FIXED = {"Beta": "beta", "a-b": "ab", "k.x": "kx", "Delta9": "delta9",
         "a_b": "ab2", "host-b": "hostb", "h1.example": "h1example",
         "10.0.0.1": "ten", "x--y": "xy"}


def neutralise_names(model):
    m = copy.deepcopy(model)
    for c in [m] + [t for t in m["types"] if t["kind"] == "section"]:
        used = set(ch["name"] for ch in c["children"])
        for ch in c["children"]:
            n = FIXED.get(ch["name"])
            if n and n not in used:
                ch["name"] = n
    return m


def run_extends(ctx, i):
    rng = ctx.rng("extends", i)
    override = rng.random() < 0.25
    if i % 4 == 3:
        model = family.targeted_extends_model(rng)
    else:
        for _ in range(20):
            model = family.random_model(rng, handlers=False,
                                        override_keytype=override)
            if any(t.get("extends") for t in model["types"]):
                break
        else:
            return
    depth = {}
    for t in model["types"]:
        if t.get("extends"):
            depth[t["name"]] = depth.get(t["extends"], 0) + 1
    shape = "chain%d%s" % (max(depth.values() or [0]),
                           "+kt" if any(t.get("extends") and t.get("keytype")
                                        for t in model["types"]) else "")

    def pair(m):
        x1 = family.render_xml(m)
        x2 = family.render_xml(expand_extends(m))
        return x1, x2, load_schema_text(x1), load_schema_text(x2)

    x1, x2, (s1, e1), (s2, e2) = pair(model)
    case = {"family": "extends", "model": model, "composed": x1,
            "expanded": x2}

    def classify(case):
        if not nonfixed_inherited(model):
            return None
        # neutraliser: the same model with fixed-point names must agree
        m2 = neutralise_names(model)
        if nonfixed_inherited(m2):
            return None
        y1, y2, (t1, f1), (t2, f2) = pair(m2)
        if (t1 is None) != (t2 is None):
            return None
        if t1 is not None:
            r2 = ctx.rng("neutral", i)
            res2 = family.Resolved(m2)
            for _ in range(TEXTS[ctx.tier]):
                tree, _f = texts.generate(r2, res2)
                tx = texts.render(tree)
                if key(outcome.load_text(t1, tx)) != \
                        key(outcome.load_text(t2, tx)):
                    return None
        return "derived-keytype-override-keeps-base-normalisation"

    compare_pair(ctx, "extends", shape, s1, e1, s2, e2,
                 family.Resolved(model), case, rng, classify)
    # the same model with an own child of a derived type that claims the
    # attribute of an inherited child (key, section, or unnamed section):
    # composed schema and expansion are refused alike
    # (only for models whose inherited names mean the same under every
    # overriding key type: elsewhere the open finding about inherited
    # names makes the two sides differ for a reason of its own)
    if rng.random() < 0.35 and not nonfixed_inherited(model):
        res0 = family.Resolved(model)
        m3 = copy.deepcopy(model)
        derived = [t for t in m3["types"] if t["kind"] == "section"
                   and t.get("extends")]
        rng.shuffle(derived)
        for t in derived:
            inherited = [c for c in res0.types[t["extends"]].children]
            if not inherited:
                continue
            # unnamed sections first: they have no key, only the attribute
            inherited.sort(key=lambda c: (c["name"] not in ("*", "+") or
                                          c["kind"] in ("key", "multikey"),
                                          rng.random()))
            c = inherited[0] if rng.random() < 0.6 else rng.choice(inherited)
            # (the attribute derives from the name as normalised by
            # the key type it was declared under)
            base_c = res0.types[t["extends"]]
            attr = c.get("attribute") or family.derive_attribute(
                family.norm_key(c.get("_declared_under", base_c.keytype),
                                c["name"]) or c["name"]) or \
                c["name"].replace("-", "_")
            t["children"].append(
                {"kind": rng.choice(["key", "multikey"]), "name": "zcvclash",
                 "attribute": attr, "datatype": "string", "required": False,
                 "handler": None, "default": None, "defaults": []})
            try:
                y1 = family.render_xml(m3)
                y2 = family.render_xml(expand_extends(m3))
            except Exception:  # noqa  (renderer cannot express it)
                break
            (t1, f1), (t2, f2) = load_schema_text(y1), load_schema_text(y2)
            ctx.res.evaluations += 1
            ctx.res.count("attribute_clash_pairs")
            ctx.res.sig("extends|clash|%s|%s|%s" % (
                c["kind"], c["name"] in ("*", "+"), t1 is None))
            if (t1 is None) != (t2 is None):
                ctx.res.violate(
                    "one-schema-loads-the-other-does-not",
                    {"family": "extends", "model": m3, "composed": y1,
                     "expanded": y2},
                    {"composed": f1 or "loads"}, {"expanded": f2 or "loads"},
                    detail="own child claims inherited attribute %r of %s "
                    "%r: composed=%s expanded=%s" % (attr, c["kind"],
                                                     c["name"], f1, f2),
                    vsig="clash|%s|%s" % (c["kind"], t1 is None))
            break


# ---------------------------------------------------------------------------
# (b) prefixes

FUNCS = ["zcverif_dt.p1.up", "zcverif_dt.p1.p2.rev",
         "zcverif_dt.p1.p2.p3.tag",
         # the same relative spelling '.conv' names a different function
         # under each prefix
         "zcverif_dt.p1.conv", "zcverif_dt.p1.p2.conv",
         "zcverif_dt.p1.p2.p3.conv", "zcverif_dt.p1.conv",
         "zcverif_dt.p1.p2.conv", "zcverif_dt.p1.p2.p3.conv"]
SECT_FUNCS = ["zcverif_dt.p1.wrap_a", "zcverif_dt.fam.wrap"]
PREFIXES = ["zcverif_dt", "zcverif_dt.p1", "zcverif_dt.p1.p2",
            "zcverif_dt.p1.p2.p3"]


def rel(name, prefix, rng):
    """Spell dotted *name* relative to *prefix* when possible."""
    if prefix and name.startswith(prefix + ".") and rng.random() < 0.8:
        return name[len(prefix):]
    return name


def decorate_prefixes(rng, model):
    """-> (composed model, expanded model): same types, dotted datatypes on
    string keys and sections, spelled with prefixes vs absolutely."""
    comp = copy.deepcopy(model)
    top_prefix = rng.choice([None] + PREFIXES)
    comp["prefix"] = top_prefix

    def assign(cont_c, cont_e, prefix):
        for cc, ce in zip(cont_c["children"], cont_e["children"]):
            if cc["kind"] in ("key", "multikey") and \
                    cc["datatype"] == "string" and rng.random() < 0.6:
                f = rng.choice(FUNCS)
                if prefix and prefix + ".conv" in FUNCS and \
                        rng.random() < 0.5:
                    f = prefix + ".conv"
                cc["raw_datatype"] = rel(f, prefix, rng)
                ce["raw_datatype"] = f
    exp = copy.deepcopy(model)
    assign(comp, exp, top_prefix)
    if rng.random() < 0.4:
        f = rng.choice(SECT_FUNCS)
        comp["raw_datatype"] = rel(f, top_prefix, rng)
        exp["raw_datatype"] = f
        comp["datatype"] = exp["datatype"] = None
    for tc, te in zip(comp["types"], exp["types"]):
        if tc["kind"] != "section":
            continue
        p = top_prefix
        r = rng.random()
        if r < 0.3:
            p = rng.choice(PREFIXES)
            tc["prefix"] = p
        elif r < 0.6 and top_prefix and top_prefix != PREFIXES[-1]:
            nxt = PREFIXES[PREFIXES.index(top_prefix) + 1]
            tc["prefix"] = nxt[len(top_prefix):]       # relative: '.p1'
            p = nxt
        # (a type that extends another may carry its own prefix and a
        # relative datatype / key type as well: resolved against its own
        # prefix, like any other type's)
        if rng.random() < 0.4:
            f = rng.choice(SECT_FUNCS)
            tc["raw_datatype"] = rel(f, p, rng)
            te["raw_datatype"] = f
            tc["datatype"] = te["datatype"] = None
        if rng.random() < 0.3 and not tc.get("keytype"):
            f = "zcverif_dt.p1.p2.key_lower"
            tc["keytype"] = rel(f, p, rng)
            te["keytype"] = f
        assign(tc, te, p)
    return comp, exp


def run_prefix(ctx, i):
    rng = ctx.rng("prefix", i)
    model = family.random_model(rng, handlers=False)
    # keep key types stock except where decorate sets one; make more keys
    # plain strings so they can carry dotted datatypes
    for c in [model] + [t for t in model["types"] if t["kind"] == "section"]:
        for ch in c["children"]:
            if ch["kind"] in ("key", "multikey") and rng.random() < 0.5:
                ch["datatype"] = "string"
                ch["default"] = None
                ch["defaults"] = [d for d in ch.get("defaults") or []
                                  if isinstance(d, list)]
                for d in ch["defaults"]:
                    d[1] = "v"
    comp, exp = decorate_prefixes(rng, model)
    x1, x2 = family.render_xml(comp), family.render_xml(exp)
    s1, e1 = load_schema_text(x1)
    s2, e2 = load_schema_text(x2)
    n_rel = x1.count('=".')
    shape = "top=%s,rel=%d" % (comp.get("prefix"), min(n_rel, 4))
    # texts are generated from the undecorated model (custom key type
    # behaves like basic-key)
    compare_pair(ctx, "prefix", shape, s1, e1, s2, e2,
                 family.Resolved(model),
                 {"family": "prefix", "composed": x1, "expanded": x2}, rng)


# ---------------------------------------------------------------------------
# (c) schema-level extends

def split_schema(rng, model, k):
    """Partition types/children into k base parts + own part, in parse
    order (parts[0] is parsed first)."""
    nt = len(model["types"])
    cuts_t = sorted(rng.randint(0, nt) for _ in range(k))
    parts = []
    lo = 0
    for c in cuts_t + [nt]:
        parts.append({"types": model["types"][lo:c], "children": []})
        lo = c
    where = {}
    for pi, p in enumerate(parts):
        for t in p["types"]:
            where[t["name"]] = pi
    for ch in model["children"]:
        lo = where.get(ch.get("type"), 0) if ch["kind"] in (
            "section", "multisection") else 0
        parts[rng.randint(lo, k)]["children"].append(ch)
    return parts


def run_schema_extends(ctx, i, dirpath):
    rng = ctx.rng("sext", i)
    model = family.random_model(rng, handlers=False)
    k = rng.randint(1, 3)
    parts = split_schema(rng, model, k)
    top_kt = model["keytype"]
    top_dt = model["datatype"]
    # declare key type / datatype on the bases; the extending schema
    # inherits them (or overrides explicitly)
    mode = rng.choice(["inherit", "inherit", "explicit", "conflict",
                       "chain", "chain", "own-dt", "own-kt"])
    if mode == "chain" and k < 2:
        k = 2
        parts = split_schema(rng, model, k)
    shutil.rmtree(dirpath, ignore_errors=True)
    os.makedirs(os.path.join(dirpath, "bases"))
    names = []
    for bi in range(k):
        part = parts[bi]
        bm = {"keytype": top_kt, "datatype": top_dt, "handler": None,
              "types": part["types"], "children": part["children"]}
        if mode == "own-dt":
            # every base states a datatype of its own; the extending
            # schema states another one (and no key type): its own wins
            bm["datatype"] = "wrap2" if top_dt != "wrap2" else "wrap"
        if mode == "chain" and bi > 0:
            # only the root base declares key type and datatype; every
            # base after it extends the previous one and inherits them
            bm["keytype"] = None
            bm["datatype"] = None
            prev = names[bi - 1]
            here = "bases/" if bi % 2 else ""
            bm["extends_attr"] = ("../" + prev) if here and \
                not prev.startswith("bases/") else \
                (prev[len("bases/"):] if here else prev)
        if mode == "conflict" and k >= 2 and bi == 0:
            bm["keytype"] = "identifier" if top_kt != "identifier" \
                else "basic-key"
            # its own children must still be valid under that key type
            def _bad(c):
                if c["name"] not in ("*", "+"):
                    return family.norm_key(bm["keytype"], c["name"]) is None
                return any(family.norm_key(bm["keytype"], d[0]) is None
                           for d in c.get("defaults") or []
                           if isinstance(d, list))
            if any(_bad(c) for c in bm["children"]):
                mode = "inherit"
                bm["keytype"] = top_kt
        fn = "bases/b%d.xml" % bi if bi % 2 else "b%d.xml" % bi
        with open(os.path.join(dirpath, fn), "w") as f:
            f.write(family.render_xml(bm))
        names.append(fn)
    own = parts[k]
    om = {"keytype": top_kt if mode in ("explicit", "own-kt") else None,
          "datatype": top_dt if mode in ("explicit", "own-dt") else None,
          "handler": None, "types": own["types"],
          "children": own["children"],
          # ZConfig reads the listed bases last-first
          # (white space of any kind separates the references and may
          # surround the list)
          "extends_attr": rng.choice(["", "", " ", "\n    ", "\t"]) +
          rng.choice([" ", " ", "  ", "\n      ", "\t"]).join(
              reversed(names) if mode != "chain" else names[-1:]) +
          rng.choice(["", "", " ", "\n  "])}
    if mode in ("explicit", "own-kt"):
        om["extra_attrs"] = {"keytype": top_kt}
    if mode == "own-dt" and not top_dt:
        om["raw_datatype"] = "null"
    main = os.path.join(dirpath, "main.xml")
    with open(main, "w") as f:
        f.write(family.render_xml(om))
    # the merged document lists types and top-level items in the order
    # ZConfig reads them: bases (last listed first), then the own body
    merged = dict(model)
    merged["types"] = [t for p in parts for t in p["types"]]
    merged["children"] = [c for p in parts for c in p["children"]]
    x2 = family.render_xml(merged)
    if mode != "conflict" and rng.random() < 0.3:
        # one base is broken at first (not well-formed, naming a type
        # nobody defines, defining a type twice, or missing) - the schema
        # is refused - and repaired afterwards: the schema must then equal
        # its expansion as if nothing had happened
        victim = os.path.join(dirpath, rng.choice(names))
        good = open(victim).read()
        how = rng.choice(["truncated", "unknown-type", "twice", "missing"])
        if how == "missing":
            os.remove(victim)
        else:
            with open(victim, "w") as f:
                f.write({"truncated": good[:max(8, len(good) // 2)],
                         "unknown-type": good.replace(
                             "</schema>", "<section type='zcv-nosuch' "
                             "name='zcvx'/></schema>"),
                         "twice": good.replace(
                             "</schema>", "<sectiontype name='zcv-tw'/>"
                             "<sectiontype name='zcv-tw'/></schema>"),
                         }[how])
        sb, eb = load_schema_path(main)
        ctx.res.count("base_broken_then_repaired")
        # (how the refusal is reported is not this property's subject:
        # a document that is not well-formed ends in the XML parser's own
        # exception on the pinned tree)
        if sb is not None:
            ctx.res.evaluations += 1
            ctx.res.violate("broken-base-not-refused",
                            {"family": "schema_extends", "how": how,
                             "mode": mode}, "refused",
                            eb or "loads", detail="%s %s" % (how, eb),
                            vsig="brokenbase|%s|%s" % (how, eb and eb[0]))
        with open(victim, "w") as f:
            f.write(good)
    # the working directory holds files named like the bases (and like
    # the schema itself) with something else in them: a reference is
    # resolved beside the document that contains it
    decoy = os.path.join(os.path.dirname(dirpath), "sext decoys")
    os.makedirs(os.path.join(decoy, "bases"), exist_ok=True)
    for n_ in names + ["main.xml"]:
        with open(os.path.join(decoy, n_), "w") as f:
            f.write("<schema><key name='zcv-decoy' required='yes'/>"
                    "<sectiontype name='zcv-decoy-type'/></schema>")
    s1, e1 = load_schema_path(main, cwd=decoy if rng.random() < 0.7
                              else None)
    case = {"family": "schema_extends", "mode": mode,
            "files": {n: open(os.path.join(dirpath, n)).read()
                      for n in names + ["main.xml"]},
            "expanded": x2}
    if mode == "conflict" and k >= 2:
        ctx.res.evaluations += 1
        ctx.res.count("conflict_cases")
        if s1 is not None or e1[0] != "SchemaError":
            ctx.res.violate("conflicting-base-keytypes-not-refused", case,
                            "SchemaError", e1 or "loads")
        return
    s2, e2 = load_schema_text(x2)
    compare_pair(ctx, "schema_extends", "k%d,%s" % (k, mode), s1, e1, s2,
                 e2, family.Resolved(model), case, rng)


# ---------------------------------------------------------------------------
# (d) component import diamonds

def run_components(ctx, i, space):
    rng = ctx.rng("comp", i)
    for _ in range(20):
        model = family.random_model(rng, handlers=False)
        if any(t["kind"] == "abstract" for t in model["types"]):
            break
    abstracts = [t["name"] for t in model["types"] if t["kind"] == "abstract"]
    if not abstracts:
        return
    base = space.new_name("base")
    space.write(base, {"abstract.xml": packages.abstract_xml(model)})
    pa, pb, pc = (space.new_name(x) for x in "abc")
    ta = packages.gen_component_types(rng, model, "pa")
    tb = packages.gen_component_types(rng, model, "pb")
    if rng.random() < 0.5:
        tb[0]["extends"] = ta[0]["name"]
        tb[0]["children"] = []
    tc = packages.gen_component_types(rng, model, "pc", 1)
    cyclic = rng.random() < 0.3
    if cyclic:
        # pa imports pb and pb imports pa: whichever is entered first, the
        # other one is read from inside it; no cross-package extends
        for t in tb:
            if t.get("extends") and not t["extends"].startswith("pb"):
                t["extends"] = None
                t["children"] = [dict(ta[0]["children"][0])]
    space.write(pa, {"component.xml": packages.component_xml(
        ta, base, [pb] if cyclic else [])})
    # the default file name is sometimes spelled out: the same component
    ef = rng.choice([0, 0, 1, 2])
    space.write(pb, {"component.xml": packages.component_xml(
        tb, base, [pa], explicit_file=ef)})
    space.write(pc, {"component.xml": packages.component_xml(
        tc, base, [pa, pb], explicit_file=ef)})
    # slots so the component types can be used
    m = copy.deepcopy(model)
    for ai, a in enumerate(abstracts):
        m["children"].append({"kind": "multisection", "name": "*",
                              "type": a, "required": False, "handler": None,
                              "attribute": "cslot_%d" % ai})
    imports = rng.choice([[pc], [pa, pc], [pc, pb, pa], [pb, pb, pc],
                          [pa, pa], [pc, pc, pb]])
    # now and then a schema with very many components (17-22 more), the
    # first ones imported again at the end: still each component once
    many = []
    if rng.random() < 0.08:
        for k in range(rng.randint(17, 22)):
            pn = space.new_name("m%d" % k)
            tk = packages.gen_component_types(rng, model, "pm%d" % k, 1)
            space.write(pn, {"component.xml":
                             packages.component_xml(tk, base)})
            many.append((pn, tk))
        imports = imports[:1] + [pn for pn, _ in many] + imports + \
            [many[0][0], many[1][0]]
        ctx.res.count("schemas_with_many_components")
    many_names = set(pn for pn, _ in many)
    # some of the imports are made by the configuration text instead
    # ('%import' lines in front of it): the same vocabulary in the end
    late = []
    if rng.random() < 0.5 and len(imports) > 1 and not cyclic:
        cut = rng.randint(1, len(imports) - 1)
        imports, late = imports[:cut], imports[cut:]
        ctx.res.count("components_imported_by_the_text")
    head = "".join(
        ("<import package='%s' file='component.xml'/>" % p)
        if ef and (j + ef) % 2 == 0 else "<import package='%s'/>" % p
        for j, p in enumerate(imports))
    # two component files of one package whose names differ in letter case
    # only: two components (file names are case-sensitive here)
    twins = []
    if rng.random() < 0.3:
        pd = space.new_name("d")
        tl = packages.gen_component_types(rng, model, "pdl", 1)
        tu = packages.gen_component_types(rng, model, "pdu", 1)
        space.write(pd, {"extra.xml": packages.component_xml(tl, base),
                         "Extra.xml": packages.component_xml(tu, base)})
        order = rng.choice([("extra.xml", "Extra.xml"),
                            ("Extra.xml", "extra.xml")])
        head += "".join("<import package='%s' file='%s'/>" % (pd, f)
                        for f in order)
        twins = (tl + tu) if order[0] == "extra.xml" else (tu + tl)
    x1 = family.render_xml(m, abstract_import=(base, "abstract.xml"),
                           head_xml=head)
    # expansion: everything defined in place once, in definition order
    reach = set()
    for p in imports + late:
        if p in many_names:
            continue
        reach.update({pa: [pa, pb] if cyclic else [pa], pb: [pa, pb],
                      pc: [pa, pb, pc]}[p])
    em = copy.deepcopy(m)
    extra = []
    for p, ts in ((pa, ta), (pb, tb), (pc, tc)):
        if p in reach:
            extra.extend(copy.deepcopy(ts))
    extra.extend(copy.deepcopy(twins))
    for pn, tk in many:
        extra.extend(copy.deepcopy(tk))
    abstract_defs = [t for t in em["types"] if t["kind"] == "abstract"]
    rest = [t for t in em["types"] if t["kind"] != "abstract"]
    em["types"] = abstract_defs + extra + rest
    x2 = family.render_xml(em)
    s1, e1 = load_schema_text(x1)
    s2, e2 = load_schema_text(x2)
    via_base = rng.random() < 0.35
    if via_base:
        # the composed schema used as the base of a schema that adds
        # nothing but the same imports once more (directly, or by way of a
        # middle schema): the components are already there
        ctx.res.count("components_through_base_schema")
        d = os.path.join(ctx.tmp, "sext imp %41 x")
        shutil.rmtree(d, ignore_errors=True)
        os.makedirs(os.path.join(d, "sub"))
        with open(os.path.join(d, "base.xml"), "w", encoding="utf-8") as f:
            f.write(x1)
        again = head if rng.random() < 0.7 else \
            "<import package='%s'/>" % rng.choice(imports)
        chain = rng.random() < 0.4
        if chain:
            with open(os.path.join(d, "sub", "mid.xml"), "w") as f:
                f.write("<schema extends='../base.xml'>%s</schema>"
                        % (again if rng.random() < 0.5 else ""))
        with open(os.path.join(d, "main.xml"), "w") as f:
            f.write("<schema extends='%s'>%s</schema>"
                    % ("sub/mid.xml" if chain else "base.xml", again))
        s1, e1 = load_schema_path(os.path.join(d, "main.xml"))
    compare_pair(ctx, "components", "imports=%d,reach=%d%s" % (
        len(imports), len(reach), (",cyclic" if cyclic else "") +
        (",case-twins" if twins else "") + (",via-base" if via_base else "")),
                 s1, e1, s2, e2, family.Resolved(em),
                 {"family": "components", "composed": x1, "expanded": x2,
                  "packages": {pa: packages.component_xml(ta, base),
                               pb: packages.component_xml(tb, base, [pa]),
                               pc: packages.component_xml(tc, base,
                                                          [pa, pb]),
                               base: packages.abstract_xml(model),
                               **{pn: packages.component_xml(tk, base)
                                  for pn, tk in many}},
                  "prefix": "".join("%%import %s\n" % p for p in late)},
                 rng)

# ---------------------------------------------------------------------------
# (e) a component whose datatype module loads a schema of its own when it is
# imported - a schema that imports the same component.  When the application
# schema imports the component before anybody imported the module, that
# second schema load runs from inside the first, while the component is
# being read; both schemas must still equal their written-out expansions.

SELF_DT = """\
import os
import ZConfig
def wrap(section):
    return ("wrap", section.getSectionName(), section.size)
_here = os.path.dirname(os.path.abspath(__file__))
own_schema = ZConfig.loadSchema(os.path.join(_here, "own.xml"))
"""


def _selfschema_files(pkg, composed, tname, via):
    """Files of the package; *composed*: own.xml and the application schema
    import the component, else the types are written in place.  *via*:
    the module that triggers the nested load is the component's own
    ('direct') or that of a second component it imports ('indirect')."""
    sect = ("<sectiontype name='%s' datatype='%s.dt.wrap'>"
            "<key name='size' datatype='integer' default='1'/>"
            "</sectiontype>" % (tname, pkg))
    comp = ("<component prefix='%s.dt'><sectiontype name='%s' "
            "datatype='.wrap'><key name='size' datatype='integer' "
            "default='1'/></sectiontype></component>" % (pkg, tname))
    imp = "<import package='%s'/>" % pkg
    body_own = "<multisection type='%s' name='*' attribute='ws'/>" % tname
    body_app = "<section type='%s' name='*' attribute='w'/>" % tname
    files = {"component.xml": comp, "dt.py": SELF_DT,
             "own.xml": "<schema>%s%s</schema>" % (imp if composed else sect,
                                                   body_own)}
    app = "<schema>%s%s</schema>" % (imp if composed else sect, body_app)
    return files, app


def run_selfschema(ctx, i, space):
    import ZConfig
    res = ctx.res
    rng = ctx.rng("selfschema", i)
    tname = rng.choice(["widget", "w-%d" % i, "Gadget", "g.x"])
    size = rng.randint(0, 99)
    sname = rng.choice(["", " n1", " Upper"])
    text = "<%s%s>\n size %d\n</%s>\n" % (tname, sname, size, tname)
    want_name = sname.strip().lower() or None
    text2 = "<%s second>\n size %d\n</%s>\n" % (tname, size, tname)
    order = rng.choice(["nested", "nested", "module-first", "own-first"])
    got = {}
    for composed in (True, False):
        pkg = space.new_name("self%s" % ("c" if composed else "e"))
        files, app = _selfschema_files(pkg, composed, tname, None)
        space.write(pkg, files)
        modname = pkg + ".dt"
        try:
            if order == "module-first":
                importlib.import_module(modname)
            elif order == "own-first":
                ZConfig.loadSchema(os.path.join(space.root, pkg, "own.xml"))
            schema = ZConfig.loadSchemaFile(io.StringIO(app))
            mod = sys.modules.get(modname)
            conf, _ = ZConfig.loadConfigFile(schema, io.StringIO(text))
            a = ("ok", repr(conf.w))
            conf2, _ = ZConfig.loadConfigFile(mod.own_schema,
                                              io.StringIO(text + text2))
            b = ("ok", repr(conf2.ws))
        except ZConfig.ConfigurationError as e:
            a = b = ("reject", type(e).__name__, str(e)[:150])
        except Exception as e:  # noqa
            a = b = ("internal", type(e).__name__, str(e)[:150])
        got[composed] = (a, b)
    res.evaluations += 1
    res.count("selfschema_pairs")
    res.count("selfschema_" + order)
    res.sig("selfschema|%s|%s|%s" % (order, tname[:1], bool(sname)))
    want = (("ok", repr(("wrap", want_name, size))),
            ("ok", repr([("wrap", want_name, size),
                         ("wrap", "second", size)])))
    case = {"family": "selfschema", "type": tname, "text": text,
            "order": order}
    if got[True] != got[False] or got[False] != want:
        res.violate("component-read-during-nested-schema-load",
                    case, {"expanded": list(got[False]), "want": list(want)},
                    {"composed": list(got[True])},
                    detail="order=%s type=%s composed=%r expanded=%r"
                    % (order, tname, got[True], got[False]),
                    vsig="selfschema|%s|%s" % (order, got[True][0][0]))

# ---------------------------------------------------------------------------
# (f) relative package names: <import package=".x"/> under prefix P means
# package P.x - and nothing else: when P.x cannot be imported the import is
# refused even if a top-level package x with a component exists.

def _rel_component(tname, default):
    return ("<component><sectiontype name='%s'><key name='alpha' "
            "datatype='integer' default='%s'/></sectiontype></component>"
            % (tname, default))


def run_relpkg(ctx, i, space):
    import ZConfig
    res = ctx.res
    rng = ctx.rng("relpkg", i)
    P = space.new_name("rp")
    X = space.new_name("rx")
    tname = "rx-%d" % i
    exists = rng.random() < 0.6
    decoy = rng.random() < 0.7
    level = rng.choice(["schema", "component"])
    space.write(P, {})
    if exists:
        space.write(P + "." + X, {"component.xml": _rel_component(tname, 42)})
    if decoy:
        # a top-level package of the same name with another component
        space.write(X, {"component.xml": _rel_component(tname, 999)})
    slot = "<multisection type='%s' name='*' attribute='rx'/>" % tname
    if level == "schema":
        x1 = "<schema prefix='%s'><import package='.%s'/>%s</schema>" % (
            P, X, slot)
        x2 = "<schema><import package='%s.%s'/>%s</schema>" % (P, X, slot)
    else:
        space.write(P, {
            "component.xml": "<component prefix='%s'><import package='.%s'/>"
            "</component>" % (P, X),
            "expanded.xml": "<component><import package='%s.%s'/>"
            "</component>" % (P, X)})
        x1 = "<schema><import package='%s'/>%s</schema>" % (P, slot)
        x2 = "<schema><import package='%s' file='expanded.xml'/>%s</schema>" \
            % (P, slot)
    text = "<%s a>\n</%s>\n<%s b>\n alpha 7\n</%s>\n" % ((tname,) * 4)
    got = []
    for x in (x1, x2):
        sch, err = load_schema_text(x)
        if sch is None:
            got.append(("refused", err[0]))
            continue
        try:
            conf, _ = ZConfig.loadConfigFile(sch, io.StringIO(text))
            got.append(("ok", [v.alpha for v in conf.rx]))
        except ZConfig.ConfigurationError as e:
            got.append(("reject", type(e).__name__))
        except Exception as e:  # noqa
            got.append(("internal", type(e).__name__, str(e)[:100]))
    res.evaluations += 1
    res.count("relative_package_imports")
    res.sig("relpkg|%s|%s|%s" % (level, exists, decoy))
    want = ("ok", [42, 7]) if exists else None
    bad = got[0][0] != got[1][0] or (exists and got[0] != want) or \
        (exists and got[1] != want) or \
        (not exists and got[0][0] != "refused")
    if bad:
        res.violate("relative-package-name-differs-from-written-out-name",
                    {"family": "relpkg", "i": i, "level": level,
                     "exists": exists, "decoy": decoy},
                    {"expanded": list(got[1]), "want": want and list(want)},
                    {"composed": list(got[0])},
                    detail="level=%s P.x exists=%s top-level x=%s "
                    "composed=%r expanded=%r" % (level, exists, decoy,
                                                 got[0], got[1]),
                    vsig="relpkg|%s|%s|%s|%s" % (level, exists, decoy,
                                                 got[0][0]))


def run_shard(ctx):
    n = N[ctx.tier]
    space = packages.PackageSpace(os.path.join(ctx.tmp, "pkgs"),
                                  "c11s%d" % ctx.shard)
    space.split_every = 3
    space.odd_every = 5
    space.lead_every = 3
    # plain packages for the family whose packages hold Python modules
    plain = packages.PackageSpace(os.path.join(ctx.tmp, "pkgs2"),
                                  "c11x%d" % ctx.shard)
    # a directory name with characters that mean something in a URL
    d = os.path.join(ctx.tmp, "sext %41 #1 é")
    try:
        for i in range(n):
            if not ctx.mine(i):
                continue
            run_extends(ctx, i)
            run_prefix(ctx, i)
            run_schema_extends(ctx, i, d)
            run_components(ctx, i, space)
            if i % 3 == 0:
                run_selfschema(ctx, i, plain)
            if i % 2 == 0:
                run_relpkg(ctx, i, plain)
    finally:
        ctx.res.hook("packages_with_two_path_entries",
                     getattr(space, "split_packages", 0))
        space.close()
        plain.close()


def replay(ctx, case):
    fam = case["family"]
    space = packages.PackageSpace(os.path.join(ctx.tmp, "pkgs"), "c11r")
    space.split_every = 1       # harmless for correct code
    try:
        if fam == "relpkg":
            space.split_every = 0
            for i in range(case.get("i", 0), case.get("i", 0) + 40):
                run_relpkg(ctx, i, space)
            return
        if fam == "selfschema":
            for i in range(8):
                run_selfschema(ctx, i, plain)
            return
        if fam == "schema_extends":
            d = os.path.join(ctx.tmp, "sextr")
            os.makedirs(os.path.join(d, "bases"))
            for n, t in case["files"].items():
                with open(os.path.join(d, n), "w") as f:
                    f.write(t)
            s1, e1 = load_schema_path(os.path.join(d, "main.xml"))
        else:
            for n, t in case.get("packages", {}).items():
                space.write(n, {"abstract.xml" if "abstracttype" in t
                                else "component.xml": t})
            s1, e1 = load_schema_text(case["composed"])
        s2, e2 = load_schema_text(case["expanded"])
        if (s1 is None) != (s2 is None):
            ctx.res.violate("one-schema-loads-the-other-does-not", case,
                            e1 or "loads", e2 or "loads")
            return
        if s1 is None or "text" not in case:
            return
        o1 = outcome.load_text(s1, case.get("prefix", "") + case["text"])
        o2 = outcome.load_text(s2, case["text"])
        if key(o1) != key(o2):
            ctx.res.violate("composed-differs-from-expansion", case,
                            list(o2[:6]), list(o1[:6]))
    finally:
        space.close()
