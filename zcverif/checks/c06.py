"""C06 — %include behaves as textual inclusion of a self-contained fragment.

Metamorphic monitor: loadConfig(outer file with %include'd fragments) must
equal loadConfigFile(StringIO(inlined text)); unbalanced fragments must be
rejected.  Both sides are decided by the real loader.
"""

import io
import os
import posixpath
import shutil

from . import c05
from . import conf_common as cc
from ..gen import cuts, family, rewrites, texts
from ..mon import outcome
from ..ref import refparse

ID = "C06"
LEVEL = "exploration"
TECHNIQUE = ("runtime monitoring: metamorphic comparator inlined text vs "
             "the same lines cut into nested %include files placed in "
             "same/sub/parent directories; negative family of unbalanced "
             "fragments")
RULE = ("valid and faulted texts of the C01 family (40% with values moved "
        "into %define'd names) and define/use texts of the C05 kind, each "
        "cut 1..3 times along balanced line ranges (nested cuts allowed) "
        "into files in the same directory, a subdirectory, a deeper "
        "subdirectory or the parent directory, with relative references "
        "from the including file; plus unbalanced cuts of accepted texts "
        "(must be rejected).  Non-trivial = at least one cut; "
        "distinct_nontrivial = distinct (corpus, number of cuts, nesting, "
        "placements, outcome) signatures."
        " Reference styles include definitions holding the whole (absolute) reference or leading segments followed by '..'; some fragment names contain '$'; a third of the generated definitions stand inside sections.")
LEVEL_TEXT = ("Each (inlined, cut) pair is loaded by the real loader on both "
              "sides; value trees or the fact of rejection must agree, so "
              "sharing of the define table, section context, relative URL "
              "resolution and per-resource nesting checks are all observed "
              "end to end.")
ASSUMPTIONS = [
    "balance is computed with the reference line classifier; a text that is "
    "rejected stays rejected under any cut because reading order is "
    "unchanged",
]
FLOORS = {"quick": {"compared": 4000, "compared_ok": 1200,
                    "compared_reject": 800, "unbalanced": 400,
                    "define_texts": 500, "repeated_include": 2000,
                    "repeated_include_ok": 300, "open_ended_fragment": 500,
                    "import_texts": 300, "deep_chain": 300,
                    "fragment_via_symlink": 300},
          "thorough": {"compared": 300000, "compared_ok": 100000,
                       "compared_reject": 100000, "unbalanced": 40000,
                       "define_texts": 40000, "import_texts": 6000}}
HOOK_FLOORS = {"quick": {"reused_loader_aborted_inside_fragment": 40},
               "thorough": {"reused_loader_aborted_inside_fragment": 2000}}
N_MODELS = {"quick": 700, "thorough": 20000}
TEXTS = {"quick": 8, "thorough": 20}
N_DEFINE = {"quick": 1500, "thorough": 80000}


def shards(tier):
    return 16


def key(o):
    return o[:2] if o[0] == "ok" else ("reject",)


def load_path(schema, path):
    import ZConfig
    import zcverif_dt.fam as _fam
    # (the family's section datatypes load this very file once more, from
    # inside the load: see zcverif_dt/fam.py)
    _fam.CURRENT[0] = ("path", schema, path)
    try:
        config, handler = ZConfig.loadConfig(schema, path)
    except Exception as e:  # noqa
        fam, tn, lineno, url = outcome.classify_exception(e)
        _fam.same_load_mismatch(False)
        return ("reject", fam, tn, lineno, url, str(e)[:200])
    finally:
        _fam.CURRENT[0] = None
    msg = _fam.same_load_mismatch(True)
    if msg:
        return ("reject", "internal", "NestedLoadDiffers", None, None, msg)
    return ("ok", outcome.canon_value(config))


ENTRY_WAYS = ["rel-here", "rel-up", "rel-deep", "url", "fobj", "fobj-rel",
              "validator-rel", "validator-up", "fobj-bytes", "fobj-bytes-rel"]


def load_variant(ctx, schema, main, dirpath, how, xml):
    """The cut layout reached another way: by a path relative to the
    current directory (which is the file's directory, its parent, or a
    directory beside it), by file: URL, from an open file (named
    absolutely or relatively), or through the validator script given a
    relative FILE argument.  -> outcome, or ('status', n) for the
    validator."""
    import contextlib
    import io
    import urllib.request
    import ZConfig
    old = os.getcwd()
    here = os.path.dirname(main)
    try:
        if how in ("rel-here", "fobj-rel", "validator-rel", "fobj-bytes-rel"):
            os.chdir(here)
            arg = os.path.basename(main)
        elif how in ("rel-up", "validator-up"):
            os.chdir(dirpath)
            arg = os.path.relpath(main, dirpath)
        elif how == "rel-deep":
            deep = os.path.join(dirpath, "cwd", "deep")
            os.makedirs(deep, exist_ok=True)
            os.chdir(deep)
            arg = os.path.relpath(main, deep)
        elif how == "url":
            arg = "file://" + urllib.request.pathname2url(main)
        else:
            arg = main
        if how.startswith("validator"):
            from ZConfig import validator
            sp = os.path.join(ctx.tmp, "c06-schema.xml")
            with open(sp, "w", encoding="utf-8") as f:
                f.write(xml)
            err = io.StringIO()
            try:
                with contextlib.redirect_stderr(err):
                    rc = validator.main(["-s", sp, arg])
            except BaseException as e:  # noqa
                return ("status", "%s: %s" % (type(e).__name__, e))
            finally:
                import gc
                gc.collect()       # argparse.FileType never closes
            return ("status", rc, err.getvalue()[:200])
        try:
            if how.startswith("fobj"):
                # ("bytes": the file was opened by a bytes path, so its
                # name is bytes; the working directory is elsewhere)
                if how == "fobj-bytes":
                    os.chdir("/")
                with open(os.fsencode(arg) if "bytes" in how else arg,
                          encoding="utf-8", newline="\n") as f:
                    config, handler = ZConfig.loadConfigFile(schema, f)
            else:
                config, handler = ZConfig.loadConfig(schema, arg)
        except Exception as e:  # noqa
            fam, tn, lineno, url = outcome.classify_exception(e)
            return ("reject", fam, tn, lineno, url, str(e)[:200])
        return ("ok", outcome.canon_value(config))
    finally:
        os.chdir(old)


def reused_loader_load(ctx, loader, layout, main, dirpath, rng, poison):
    """Load the layout through a ConfigLoader object that has served every
    earlier case of this shard.  With *poison*, the same loader first reads
    a copy of the layout in which a fragment starts with a section whose
    datatype divides by zero: that error leaves the loader while the
    fragment is being read, and nothing of it may remain afterwards."""
    import ZConfig
    if poison and layout.cuts:
        frag = layout.cuts[0]["file"]
        fp = os.path.join(dirpath, *frag.split("/"))
        with open(fp) as f:
            good = f.read()
        with open(fp, "w") as f:
            f.write("<sec>\nboom 1/0\n</sec>\n" + good)
        try:
            loader.loadURL(main)
            ended = "no error"
        except ZeroDivisionError:
            ended = "ZeroDivisionError"
            ctx.res.hook("reused_loader_aborted_inside_fragment")
        except Exception as e:  # noqa
            ended = type(e).__name__
        ctx.res.count("poison_ended_" + ended)
        with open(fp, "w") as f:
            f.write(good)
    try:
        config, handler = loader.loadURL(main)
    except Exception as e:  # noqa
        fam, tn, lineno, url = outcome.classify_exception(e)
        return ("reject", fam, tn, lineno, url, str(e)[:200])
    return ("ok", outcome.canon_value(config))


def compare(ctx, schema, corpus, text, case_extra, rng, dirpath, tag="",
            loader=None, xml=None):
    res = ctx.res
    special = rng.random() < 0.25
    if special:
        # the whole layout below a directory whose name holds characters
        # that mean something in a URL: an escape, a fragment mark, a query
        dirpath = os.path.join(dirpath, "d %41 #1 ?q=1 &")
        res.count("layouts_below_url_special_directory")
    layout = cuts.cut_text(rng, text, styled="noabs" if special else True)
    if layout is None:
        res.count("uncuttable")
        return
    res.evaluations += 1
    shutil.rmtree(dirpath, ignore_errors=True)
    main = layout.write(dirpath)
    for st in layout.ref_styles.values():
        res.count("reference_" + st)
    if rng.random() < 0.2:
        # big resources: comment lines in front of a fragment (and of the
        # outer file) push it beyond 8, 16 or 64 KiB
        for rel in layout.files:
            if rng.random() < 0.6:
                outcome.pad_file(os.path.join(dirpath, *rel.split("/")),
                                 rng.choice([8100, 8192, 16384, 70000]))
                res.count("files_padded_beyond_8k")
    # decoys: files named like the fragments in every other directory of
    # the layout (and in the working directory); a reference names one
    # file, and these are not it
    dirs = set(os.path.dirname(os.path.join(dirpath, *rel.split("/")))
               for rel in layout.files)
    dirs.add(dirpath)
    dirs.add(os.getcwd() if os.getcwd().startswith(ctx.tmp) else dirpath)
    for rel in layout.files:
        if rel == "b/main.conf":
            continue
        for dd in dirs:
            fp = os.path.join(dd, posixpath.basename(rel))
            if not os.path.lexists(fp):
                with open(fp, "w") as f:
                    f.write("zcv-decoy (\n")
                res.count("decoys")
    if loader is not None:
        poison = rng.random() < 0.4
        o_re = reused_loader_load(ctx, loader, layout, main, dirpath, rng,
                                  poison)
        o_ref = outcome.load_text(schema, text)
        res.count("reused_loader_compared")
        if key(o_ref) != key(o_re):
            res.violate("reused-loader-differs-from-inlined",
                        dict(case_extra, text=text, files=layout.texts(),
                             corpus=corpus, poison=poison),
                        list(o_ref[:2]) if o_ref[0] == "ok"
                        else list(o_ref[:6]),
                        list(o_re[:2]) if o_re[0] == "ok"
                        else list(o_re[:6]),
                        detail="one ConfigLoader object for every case%s; "
                        "files=%r" % (" (after a load that a datatype "
                                      "aborted inside a fragment)"
                                      if poison else "", layout.texts()),
                        vsig="reuse|%s|%s|%s" % (poison, o_ref[0], o_re[0]))
    if layout.cuts and rng.random() < 0.15:
        # a fragment that is a symbolic link to a file kept in another
        # directory: it is the resource its name says, references inside it
        # resolve beside the link
        frag = rng.choice(layout.cuts)["file"]
        fp = os.path.join(dirpath, *frag.split("/"))
        kept = os.path.join(dirpath, "kept elsewhere")
        os.makedirs(kept, exist_ok=True)
        if os.path.isfile(fp) and not os.path.islink(fp):
            os.rename(fp, os.path.join(kept, "real-fragment.conf"))
            os.symlink(os.path.join(kept, "real-fragment.conf"), fp)
            res.count("fragment_via_symlink")
    linked = rng.random() < 0.15
    if linked:
        # the outer file really lives elsewhere; references in it are
        # relative to the URL it was *named* by (the link), not to where
        # the link points
        real = os.path.join(dirpath, "elsewhere", "deep")
        os.makedirs(real)
        os.rename(main, os.path.join(real, "real-main.conf"))
        os.symlink(os.path.join(real, "real-main.conf"), main)
        res.count("compared_via_symlink")
    o_in = outcome.load_text(schema, text)
    o_cut = load_path(schema, main)
    res.count("compared")
    res.count("compared_" + o_in[0])
    nested = sum(1 for c in layout.cuts if c["from"] != "b/main.conf")
    res.sig("%s|%s|%d|%d|%s|%s" % (corpus, tag, len(layout.cuts), nested,
                                "".join(sorted(c["place"][0] + c["place"][-1]
                                               for c in layout.cuts)),
                                o_in[0]))
    case = dict(case_extra, text=text, files=layout.texts(), corpus=corpus)
    res.sample("%s-%s" % (corpus, o_in[0]), case, 1)
    if key(o_in) != key(o_cut):
        res.violate("include-differs-from-inlined", case,
                    list(o_in[:2]) if o_in[0] == "ok" else list(o_in[:6]),
                    list(o_cut[:2]) if o_cut[0] == "ok" else list(o_cut[:6]),
                    detail="files=%r" % (layout.texts(),),
                    vsig="inc|%s|%s|%s" % (corpus, o_in[0], o_cut[0]))
    # the same files reached the other ways a resource can be named
    if rng.random() < 0.5:
        how = rng.choice(ENTRY_WAYS)
        if how.startswith("validator") and (xml is None or (
                o_in[0] != "ok" and o_in[1] != "config")):
            how = "rel-here"
        res.evaluations += 1
        o_alt = load_variant(ctx, schema, main, dirpath, how, xml)
        res.count("entry_" + how)
        if o_alt[0] == "status":
            bad = o_alt[1] != (0 if o_in[0] == "ok" else 1)
        else:
            bad = key(o_in) != key(o_alt)
        if bad:
            res.violate("include-differs-from-inlined",
                        dict(case, entry=how, xml=xml),
                        list(o_in[:2]) if o_in[0] == "ok" else list(o_in[:6]),
                        list(o_alt[:2]) if o_alt[0] == "ok"
                        else list(o_alt[:6]),
                        detail="reached as %s: files=%r"
                        % (how, layout.texts()),
                        vsig="entry|%s|%s|%s|%s" % (corpus, how, o_in[0],
                                                    o_alt[0]))
    # the whole text at the end of a long chain of includes ("to any
    # include depth")
    if rng.random() < 0.08:
        n = rng.choice([rng.randint(9, 16), rng.randint(17, 40)])
        lay = cuts.Layout()
        names = []
        for k in range(n):
            names.append(lay.new_path(rng)[0])
        lay.files["b/main.conf"] = [("inc", names[0], "")]
        for k in range(n - 1):
            lay.files[names[k]] = [("inc", names[k + 1],
                                    rng.choice(["", "  "]))]
        lay.files[names[-1]] = refparse.split_lines(text)
        res.evaluations += 1
        shutil.rmtree(dirpath, ignore_errors=True)
        o_deep = load_path(schema, lay.write(dirpath))
        res.count("deep_chain")
        res.sig("%s|deep-chain|%s" % (corpus, o_in[0]))
        if key(o_in) != key(o_deep):
            res.violate("include-differs-from-inlined",
                        dict(case_extra, text=text, files=lay.texts(),
                             corpus=corpus),
                        list(o_in[:2]) if o_in[0] == "ok" else list(o_in[:6]),
                        list(o_deep[:2]) if o_deep[0] == "ok"
                        else list(o_deep[:6]),
                        detail="text at include depth %d: files=%r"
                        % (n, lay.texts()),
                        vsig="deep|%s|%s|%s" % (corpus, o_in[0], o_deep[0]))
    # the same fragment included twice (not recursively): equals the text
    # with those lines written out twice
    lines = refparse.split_lines(text)
    ranges = cuts.balanced_ranges(lines, 60)
    if ranges and rng.random() < 0.5:
        i, j = rng.choice(ranges)
        doubled = lines[:j] + lines[i:j] + lines[j:]
        lay = cuts.Layout()
        fp, place = lay.new_path(rng)
        lay.files[fp] = list(lines[i:j])
        lay.files["b/main.conf"] = lines[:i] + [("inc", fp, ""),
                                                ("inc", fp, "  ")] + \
            lines[j:]
        if rng.random() < 0.4:
            # diamond: two different fragments both include the common one
            l2, _ = lay.new_path(rng)
            r2, _ = lay.new_path(rng)
            lay.files[l2] = [("inc", fp, "")]
            lay.files[r2] = [("inc", fp, "\t")]
            lay.files["b/main.conf"] = lines[:i] + [("inc", l2, ""),
                                                    ("inc", r2, "")] + \
                lines[j:]
        res.evaluations += 1
        shutil.rmtree(dirpath, ignore_errors=True)
        main = lay.write(dirpath)
        dtext = "".join(l + "\n" for l in doubled)
        o_a = outcome.load_text(schema, dtext)
        o_b = load_path(schema, main)
        res.count("repeated_include")
        res.count("repeated_include_" + o_a[0])
        res.sig("%s|repeated|%s|%s" % (corpus, place, o_a[0]))
        if key(o_a) != key(o_b):
            res.violate("repeated-include-differs-from-inlined",
                        dict(case_extra, text=dtext, files=lay.texts(),
                             corpus=corpus),
                        list(o_a[:2]) if o_a[0] == "ok" else list(o_a[:6]),
                        list(o_b[:2]) if o_b[0] == "ok" else list(o_b[:6]),
                        detail="files=%r" % (lay.texts(),),
                        vsig="rep|%s|%s|%s" % (corpus, o_a[0], o_b[0]))
    # a fragment that opens a section and never closes it, in a text that
    # does not close it either: must be rejected (the inlined text is)
    if o_in[0] == "ok":
        d = cuts.depths(lines)
        closers = [n for n in range(len(lines))
                   if cuts.classify(lines[n]) == "close" and d[n + 1] == 0]
        if closers:
            n = closers[-1]
            openers = [m for m in range(n) if d[m] == 0 and
                       cuts.classify(lines[m]) == "open"]
            if openers:
                m = openers[-1]
                body = lines[m:n]            # opener .. last inner line
                lay = cuts.Layout()
                fp, place = lay.new_path(rng)
                lay.files[fp] = list(body)
                lay.files["b/main.conf"] = lines[:m] + [("inc", fp, "")] + \
                    lines[n + 1:]
                res.evaluations += 1
                shutil.rmtree(dirpath, ignore_errors=True)
                main = lay.write(dirpath)
                o = load_path(schema, main)
                res.count("open_ended_fragment")
                res.sig("%s|open-ended|%s" % (corpus, place))
                if o[0] == "ok":
                    res.violate("fragment-leaving-section-open-accepted",
                                dict(case_extra, files=lay.texts(),
                                     corpus=corpus, unbalanced=True,
                                     text=text),
                                "rejected", "accepted",
                                detail="files=%r" % (lay.texts(),))
    # a fragment that refers to a file which is not where the reference
    # says, while a file of that name lies beside the outer file: refused
    if o_in[0] == "ok" and ranges and rng.random() < 0.3:
        i, j = rng.choice(ranges)
        lay = cuts.Layout()
        lay.files["b/sub/deep/outer.conf"] = [("inc", "b/sub/deep/in.conf",
                                               "")]
        lay.files["b/sub/deep/in.conf"] = list(lines[i:j])
        lay.files["b/main.conf"] = lines[:i] + \
            [("inc", "b/sub/deep/outer.conf", "")] + lines[j:]
        res.evaluations += 1
        shutil.rmtree(dirpath, ignore_errors=True)
        main = lay.write(dirpath)
        real = os.path.join(dirpath, "b", "sub", "deep", "in.conf")
        for beside in (os.path.join(dirpath, "b", "in.conf"),
                       os.path.join(dirpath, "in.conf")):
            shutil.copy(real, beside)
        os.remove(real)
        o = load_path(schema, main)
        res.count("missing_target_with_namesake_elsewhere")
        res.sig("%s|missing-target|%s" % (corpus, o[0]))
        if o[0] == "ok" or o[1] != "config":
            res.violate("reference-resolved-somewhere-else",
                        dict(case_extra, text=text, files=lay.texts(),
                             corpus=corpus, missing="b/sub/deep/in.conf"),
                        "rejected with a configuration error (the file "
                        "referred to does not exist)",
                        list(o[:2]) if o[0] == "ok" else list(o[:6]),
                        detail="files=%r, b/sub/deep/in.conf moved to "
                        "b/in.conf and in.conf" % (lay.texts(),),
                        vsig="missing-target|%s" % o[0])
    # negative family
    if o_in[0] == "ok":
        bad = cuts.cut_text(rng, text, unbalanced=True)
        if bad is not None:
            res.evaluations += 1
            shutil.rmtree(dirpath, ignore_errors=True)
            main = bad.write(dirpath)
            o = load_path(schema, main)
            res.count("unbalanced")
            res.sig("%s|unbalanced|%s" % (corpus, bad.cuts[0]["place"]))
            if o[0] == "ok":
                res.violate("unbalanced-fragment-accepted",
                            dict(case_extra, text=text, files=bad.texts(),
                                 corpus=corpus, unbalanced=True),
                            "rejected", "accepted",
                            detail="files=%r" % (bad.texts(),))
            else:
                res.sample("unbalanced-rejected",
                           {"files": bad.texts(), "error": o[5]}, 1)


N_IMPORT_WORLDS = {"quick": 160, "thorough": 3200}


def define_text(rng):
    steps = [rng.choice(c05.STEPS) for _ in range(rng.randint(2, 8))]
    lines = []
    depth = 0
    for s in steps:
        if rng.random() < 0.06:
            # U+FEFF is an ordinary (non-blank) character wherever it
            # stands - also as the first character of a fragment
            lines.append(rng.choice(["\ufeffk v", "\ufeff# c", "\ufeff",
                                     "\ufeff<sec/>", "\ufeff%define z 1"]))
        lines.append("  " * depth + c05.step_line(s))
        r = rng.random()
        if r < 0.2 and depth < 2:
            lines.append("  " * depth + "<sec>")
            depth += 1
        elif r < 0.35 and depth > 0:
            depth -= 1
            lines.append("  " * depth + "</sec>")
    while depth:
        depth -= 1
        lines.append("  " * depth + "</sec>")
    return "".join(l + "\n" for l in lines)


DEFINE_SCHEMA = """<schema>
  <sectiontype name='sec'>
    <key name='boom' datatype='zcverif_dt.boom_div'/>
    <multikey name='k' attribute='k'/>
    <multisection type='sec' name='*' attribute='subs'/>
  </sectiontype>
  <multikey name='k' attribute='k'/>
  <multisection type='sec' name='*' attribute='subs'/>
</schema>"""


def run_shard(ctx):
    rng = ctx.rng("cuts")
    dirpath = os.path.join(ctx.tmp, "c06")
    for p in cc.pairs(ctx, N_MODELS[ctx.tier], TEXTS[ctx.tier]):
        text = p.text
        if rng.random() < 0.4:
            root = p.tree
            if rewrites.definify(rng, root):
                text = texts.render(root)
        if rng.random() < 0.08:
            ls = text.split("\n")
            i = rng.randrange(len(ls))
            ls[i] = "\ufeff" + ls[i].lstrip()
            text = "\n".join(ls)
            ctx.res.count("texts_with_u_feff_line")
        compare(ctx, p.schema, "family", text, {"model": p.model}, rng,
                dirpath, ",".join(sorted(f["kind"] for f in p.faults)),
                xml=p.xml)
    # texts with %import lines (C12's generated component packages): a
    # vocabulary extension made inside a fragment stays in force after the
    # fragment, one made before it holds inside it
    from . import c12
    from ..gen import packages
    space = packages.PackageSpace(os.path.join(ctx.tmp, "pkgs"),
                                  "c06s%d" % ctx.shard)
    try:
        for wi in range(N_IMPORT_WORLDS[ctx.tier] // ctx.nshards):
            wrng = ctx.rng("world", wi)
            try:
                w = c12.World(wrng, space)
            except Exception:  # noqa
                ctx.res.count("world_failed")
                continue
            if not w.components:
                continue
            for _ in range(12):
                text, _k = c12.gen_text(wrng, w)
                if "%import" not in text:
                    continue
                ctx.res.count("import_texts")
                compare(ctx, w.schema, "imports", text,
                        {"xml": w.xml, "model": w.model,
                         "components": [[n, ts] for n, ts in w.components],
                         "imports": dict(w.imports),
                         "schema_level": list(w.schema_level)
                         if w.schema_level else None}, rng, dirpath)
    finally:
        space.close()
    dschema = cc.load_schema(DEFINE_SCHEMA)
    from ZConfig.loader import ConfigLoader
    long_lived = ConfigLoader(dschema)
    for i in range(N_DEFINE[ctx.tier] // ctx.nshards):
        ctx.res.count("define_texts")
        compare(ctx, dschema, "defines", define_text(rng),
                {"schema": "defines"}, rng, dirpath, loader=long_lived,
                xml=DEFINE_SCHEMA)


def replay_imports(ctx, case):
    import io
    import re
    import ZConfig
    from ..gen import packages
    space = packages.PackageSpace(os.path.join(ctx.tmp, "pkgs"), "c06r")
    try:
        base = re.search(r"<import package=\"([^\"]+)\" file=\"abstract",
                         case["xml"])
        if base:
            space.write(base.group(1), {"abstract.xml":
                                        packages.abstract_xml(case["model"])})
        comps = list(case["components"])
        if case.get("schema_level"):
            comps.append(case["schema_level"])
        for n, ts in comps:
            space.write(n, {"component.xml": packages.component_xml(
                ts, base.group(1) if base else None,
                case.get("imports", {}).get(n, ()))})
        schema = ZConfig.loadSchemaFile(io.StringIO(case["xml"]))
        d = os.path.join(ctx.tmp, "c06r")
        for rel, text in case["files"].items():
            p = os.path.join(d, *rel.split("/"))
            os.makedirs(os.path.dirname(p), exist_ok=True)
            with open(p, "w") as f:
                f.write(cuts.materialise(text, d))
        o_cut = load_path(schema, os.path.join(d, "b", "main.conf"))
        if case.get("unbalanced"):
            if o_cut[0] == "ok":
                ctx.res.violate("unbalanced-fragment-accepted", case,
                                "rejected", "accepted")
            return
        o_in = outcome.load_text(schema, case["text"])
        if key(o_in) != key(o_cut):
            ctx.res.violate("include-differs-from-inlined", case,
                            list(o_in[:6]), list(o_cut[:6]))
    finally:
        space.close()


def replay(ctx, case):
    if case.get("corpus") == "imports":
        return replay_imports(ctx, case)
    if "model" in case:
        schema = cc.load_schema(family.render_xml(case["model"]))
    else:
        schema = cc.load_schema(DEFINE_SCHEMA)
    d = os.path.join(ctx.tmp, "c06r")
    for rel, text in case["files"].items():
        p = os.path.join(d, *rel.split("/"))
        os.makedirs(os.path.dirname(p), exist_ok=True)
        with open(p, "w") as f:
            f.write(cuts.materialise(text, d))
    o_cut = load_path(schema, os.path.join(d, "b", "main.conf"))
    if case.get("unbalanced"):
        if o_cut[0] == "ok":
            ctx.res.violate("unbalanced-fragment-accepted", case,
                            "rejected", "accepted")
        return
    o_in = outcome.load_text(schema, case["text"])
    if case.get("entry"):
        o_cut = load_variant(ctx, schema, os.path.join(d, "b", "main.conf"),
                             d, case["entry"], case.get("xml"))
        if o_cut[0] == "status":
            if o_cut[1] != (0 if o_in[0] == "ok" else 1):
                ctx.res.violate("include-differs-from-inlined", case,
                                list(o_in[:6]), list(o_cut))
            return
    if key(o_in) != key(o_cut):
        ctx.res.violate("include-differs-from-inlined", case,
                        list(o_in[:6]), list(o_cut[:6]))
