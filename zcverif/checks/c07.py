"""C07 — user input can only produce configuration errors.

Exception-class monitor at the loading entry points (loadConfig,
loadConfigFile with and without overrides, addOption) and exit-status monitor
on ZConfig.validator.main, under mutation fuzzing of texts, override lists
and include graphs.
"""

import contextlib
import io
import os
import shutil
import sys
import traceback

from . import c06
from . import conf_common as cc
from ..gen import family, overrides, texts

ID = "C07"
LEVEL = "exploration"
TECHNIQUE = ("runtime monitoring: exception-family classifier at every "
             "loading entry point and exit-status monitor on the validator, "
             "under character/token/line mutation fuzzing, override "
             "mutation and hostile include graphs")
RULE = ("(1) valid family texts mutated 1..4 times at character, token and "
        "line level (delete, duplicate, transpose, insert each of "
        "< > / % # ( ) $ { } = and whitespace kinds); (2) valid override "
        "lists (incl. unconvertible values at every depth) mutated the same "
        "way; (3) include graphs over 3 files with random edges including "
        "self- and mutual inclusion, and hostile %include arguments "
        "(directory, missing file, package: URLs, malformed and unknown "
        "schemes, control characters, fragments); (4) validator runs over "
        "1..3 valid/invalid files.  Every case is judged: the only allowed "
        "escapes are ConfigurationError subclasses and ValueError raised "
        "inside a datatype function.  distinct_nontrivial = distinct "
        "(family, mutation kinds, outcome class) signatures.")
LEVEL_TEXT = ("Each generated hostile input is pushed through the real entry "
              "point and the class of whatever escapes is checked; the "
              "validator's exit status and message count are checked "
              "against the files known to be invalid.")
ASSUMPTIONS = [
    "an exception counts as 'raised by a datatype function' when it is a "
    "ValueError whose innermost traceback frame lies in a datatype module "
    "(ZConfig/datatypes.py, zcverif_dt)",
    "RecursionError is caught at the entry point like any other escape; "
    "the recursion limit is left at its default",
]
FLOORS = {"quick": {"text_cases": 8000, "override_cases": 3000,
                    "include_cases": 1000, "validator_runs": 150,
                    "extreme_size_cases": 39},
          "thorough": {"text_cases": 600000, "override_cases": 120000,
                       "include_cases": 60000, "validator_runs": 8000,
                       "extreme_size_cases": 39}}
N_MODELS = {"quick": 1000, "thorough": 40000}
TEXTS = {"quick": 10, "thorough": 20}
N_INCLUDE = {"quick": 1600, "thorough": 96000}
N_VALIDATOR = {"quick": 200, "thorough": 12000}
META = list("<>/%#()${}=") + [" ", "\t", " ", "\n"]


def shards(tier):
    return 16


# ---------------------------------------------------------------------------

def classify(e):
    """'config' | 'datatype' | 'internal'"""
    import ZConfig
    if isinstance(e, ZConfig.ConfigurationError):
        return "config"
    # (Until round 11 a bare ValueError whose innermost frame lies in
    # ZConfig/datatypes.py counted as "raised by a datatype function
    # itself".  ZConfig turns every ValueError of a datatype into a
    # configuration error - that is how a datatype says no - so a bare one
    # that escapes was never passed through on purpose; since fix 7903072
    # the repaired tree has no such place left, and the allowance hid a
    # seeded change.  What does pass through unchanged - other exception
    # classes - is checked by the family 'passthrough'.)
    return "internal"


def mechanism(e, arg=None):
    """Known-finding mechanisms (by mechanism, never by input hash)."""
    return None


DEGENERATE = ["</>", "</ >", "</\t>", "<>", "< >", "</", "<", "<//>", "</ />",
              "%", "% ", "%define", "%define ", "%include", "%import  ", "()",
              ")", "(", "$", "=", "</ a>", "</a b>", "</a/>", "<a", "a>",
              "<a b c>", "<a  >", "< a>", "<a/ b>", "<a b/c/>",
              # arguments that expand to nothing, pieces of directive names
              "%define zcve\n%define $zcve", "%define zcve\n%define ${zcve} x",
              "%define zcve\n%include $zcve", "%define zcve\n%import $zcve",
              "%define $(ZCV_EMPTY)", "%include $(ZCV_EMPTY)", "%inc f",
              "%def a b", "%e x", "%imp p"]


def mutate_string(rng, s, n=None):
    kinds = []
    for _ in range(n or rng.randint(1, 4)):
        if not s:
            s = rng.choice(META)
            kinds.append("ins")
            continue
        level = rng.random()
        if level < 0.6:
            i = rng.randrange(len(s))
            op = rng.random()
            if op < 0.25:
                s = s[:i] + s[i + 1:]
                kinds.append("cdel")
            elif op < 0.45:
                s = s[:i] + s[i] + s[i:]
                kinds.append("cdup")
            elif op < 0.6 and i + 1 < len(s):
                s = s[:i] + s[i + 1] + s[i] + s[i + 2:]
                kinds.append("cswap")
            else:
                s = s[:i] + rng.choice(META) + s[i:]
                kinds.append("cins")
        elif level < 0.8:
            toks = s.split(" ")
            i = rng.randrange(len(toks))
            op = rng.random()
            if op < 0.4:
                del toks[i]
                kinds.append("tdel")
            elif op < 0.7:
                toks.insert(i, toks[i])
                kinds.append("tdup")
            elif len(toks) > 1:
                j = rng.randrange(len(toks))
                toks[i], toks[j] = toks[j], toks[i]
                kinds.append("tswap")
            s = " ".join(toks)
        else:
            lines = s.split("\n")
            i = rng.randrange(len(lines))
            op = rng.random()
            if op < 0.4:
                del lines[i]
                kinds.append("ldel")
            elif op < 0.7:
                lines.insert(i, lines[i])
                kinds.append("ldup")
            elif op < 0.85 and len(lines) > 1:
                j = rng.randrange(len(lines))
                lines[i], lines[j] = lines[j], lines[i]
                kinds.append("lswap")
            else:
                # a degenerate line: what is left of a header, closer,
                # directive or key after its body was deleted
                lines.insert(i, rng.choice(DEGENERATE))
                kinds.append("lshell")
            s = "\n".join(lines)
    return s, kinds


def run_entry(fn):
    try:
        fn()
    except RecursionError as e:
        return "internal", e
    except BaseException as e:  # noqa
        if isinstance(e, (KeyboardInterrupt, SystemExit)):
            raise
        return classify(e), e
    return "ok", None


def report(res, family_, kinds, case, cls, e, arg=None):
    res.count(family_ + "_cases")
    res.count("outcome_" + cls)
    name = type(e).__name__ if e is not None else "ok"
    res.sig("%s|%s|%s" % (family_, "+".join(sorted(set(kinds)))[:40], name))
    res.sample("%s-%s" % (family_, name), case, 1)
    if cls == "internal":
        res.violate(
            "internal-exception-escaped", case,
            "ConfigurationError family (or ValueError from a datatype)",
            "%s: %s" % (name, str(e)[:160]),
            detail="%s: %s | %s" % (name, str(e)[:120],
                                    str(case.get("text", case.get(
                                        "overrides", case.get("files"))))[
                                        :300]),
            mechanism=mechanism(e, arg),
            vsig="%s|%s|%s|%s" % (family_, name, mechanism(e, arg),
                                  "".join(c for c in " ".join(
                                      str(e).split()[:4])
                                      if not c.isdigit())[:40]))


# ---------------------------------------------------------------------------
# (3) include graphs

HOSTILE = ["sub", ".", "nosuchfile.conf", "package:nosuchpkg9:x",
           "package:os:x", "package:", "package::x",
           "package:ZConfig.components.logger:component.xml",
           "package:ZConfig.components.logger:nosuch.xml",
           "http://[::1", "bar:baz", "file:///nonexistent/zz9",
           "a\x00b", "a b.conf", "#frag", "b.conf#frag", "mailto:x",
           "http://127.0.0.1:1/x", "file://remotehost/x", "c:", "a:b.conf",
           "file:b.conf", "http:///x", "//host/x", "\\\\host\\x", "?q",
           "%41.conf", "b.conf?x=1", "http://127.0.0.1:abc/x",
           "http://127.0.0.1:99999/x", "latin1.conf", "binary.conf",
           "utf16.conf", "http://[::1]:x/", "ftp://127.0.0.1:1/x",
           "file:///dev/null", "data:,k%20v", "http://[::1/x#frag",
           "http://[::1#f", "//[::1/x", "http://a b/#", "x#", "#",
           "file:#f", "http://[v1.x]/#a",
           # package names no import statement could hold
           "package:.foo:x.conf", "package:.:x", "package:..os:x",
           "package:os.path:x", "package:a..b:x", "package: os:x",
           "package:zcverif_dt.:x", "package:-:x", "package:1a:x",
           "package:os:", "package:os:../x", "package:ZConfig:/etc/passwd",
           "package:ZConfig.components.logger:", "package:__main__:x"]


def include_case(rng, root):
    names = ["a.conf", "b.conf", "c.conf"]
    files = {}
    here = os.path.basename(root.rstrip("/")) or "x"

    def spelled(n):
        # the same file by another relative spelling: an include cycle is
        # a cycle however its edges are written
        r = rng.random()
        if r < 0.7:
            return n
        return rng.choice(["./@", "sub/../@", "../" + here + "/@",
                           "././@", "sub/./../@", ".//@"]).replace("@", n)
    for n in names:
        lines = []
        for _ in range(rng.randint(0, 4)):
            r = rng.random()
            if r < 0.45:
                lines.append("%include " + spelled(rng.choice(names)))
            elif r < 0.6:
                lines.append("%include " + rng.choice(HOSTILE))
            elif r < 0.8:
                lines.append("k v")
            elif r < 0.9:
                lines.append("<sec>\n%include " + rng.choice(names) +
                             "\n</sec>")
            else:
                lines.append("%define n " + rng.choice(["x", "$n", "y"]))
        files[n] = "".join(l + "\n" for l in lines)
    return files


def do_include(ctx, schema, rng, dirpath, files=None):
    import ZConfig
    files = files or include_case(rng, dirpath)
    shutil.rmtree(dirpath, ignore_errors=True)
    os.makedirs(os.path.join(dirpath, "sub"))
    for n, t in files.items():
        with open(os.path.join(dirpath, n), "w") as f:
            f.write(t)
    # resources that are not UTF-8 text
    with open(os.path.join(dirpath, "latin1.conf"), "wb") as f:
        f.write("k caf\xe9\n".encode("latin-1"))
    with open(os.path.join(dirpath, "binary.conf"), "wb") as f:
        f.write(bytes(range(256)))
    with open(os.path.join(dirpath, "utf16.conf"), "wb") as f:
        f.write("k v\n".encode("utf-16"))
    ctx.res.evaluations += 1
    cls, e = run_entry(lambda: ZConfig.loadConfig(
        schema, os.path.join(dirpath, "a.conf")))
    hostile = sorted(set(h for h in HOSTILE
                         if any(("%include " + h + "\n") in t
                                for t in files.values())))
    report(ctx.res, "include", [h[:12] for h in hostile][:3],
           {"files": files, "family": "include"}, cls, e)
    # the same graph entered through a resource that has no URL (an open
    # stream without a name): its references to the three files are written
    # as absolute paths, everything below is unchanged
    top = files.get("a.conf", "")
    for n in ("a.conf", "b.conf", "c.conf"):
        top = top.replace("%include " + n + "\n",
                          "%include " + os.path.join(dirpath, n) + "\n")
    ctx.res.evaluations += 1
    ctx.res.count("include_cases_without_url")
    cls, e = run_entry(lambda: ZConfig.loadConfigFile(
        schema, io.StringIO(top)))
    report(ctx.res, "include", ["nourl"] + [h[:12] for h in hostile][:2],
           {"files": files, "family": "include", "entry": "nourl"}, cls, e)
    # and through the validator: the three files on the command line, then
    # the first one on standard input
    if rng.random() < 0.3:
        include_validator(ctx, schema, dirpath, files, top)


def do_include_own_names(ctx, schema, rng, dirpath):
    """The same kind of include graph read through a loader subclass whose
    normalizeURL() gives the application's own resource names a meaning
    ('site:a' is the file a.conf of the site directory): includes are
    written with those names, cycles included."""
    import ZConfig
    import ZConfig.loader
    files = include_case(rng, dirpath)
    shutil.rmtree(dirpath, ignore_errors=True)
    os.makedirs(os.path.join(dirpath, "sub"))
    for n in list(files):
        t = files[n]
        for m in ("a", "b", "c"):
            t = t.replace("%%include %s.conf\n" % m, "%%include site:%s\n" % m)
        files[n] = t
        with open(os.path.join(dirpath, n), "w") as f:
            f.write(t)

    class SiteLoader(ZConfig.loader.ConfigLoader):
        def normalizeURL(self, url):
            if url.startswith("site:"):
                url = os.path.join(dirpath, url[5:] + ".conf")
            return ZConfig.loader.ConfigLoader.normalizeURL(self, url)
    ctx.res.evaluations += 1
    ctx.res.count("include_cases_by_own_resource_names")
    cls, e = run_entry(lambda: SiteLoader(schema).loadURL("site:a"))
    report(ctx.res, "include", ["own-names"],
           {"files": files, "family": "include", "entry": "own-names"},
           cls, e)


class PipeStdin(io.StringIO):
    def isatty(self):
        return False


def include_validator(ctx, schema, dirpath, files, top):
    import ZConfig
    from ZConfig import validator
    from . import c06
    sp = os.path.join(dirpath, "schema.xml")
    with open(sp, "w") as f:
        f.write(c06.DEFINE_SCHEMA)
    names = sorted(n for n in files if n.endswith(".conf"))
    for mode in ("files", "stdin"):
        invalid = 0
        escaped = False
        if mode == "files":
            for n in names:
                cls, _ = run_entry(lambda: ZConfig.loadConfig(
                    schema, os.path.join(dirpath, n)))
                invalid += cls != "ok"
                escaped = escaped or cls not in ("ok", "config")
            argv = ["-s", sp] + [os.path.join(dirpath, n) for n in names]
        else:
            cls, _ = run_entry(lambda: ZConfig.loadConfigFile(
                schema, io.StringIO(top)))
            invalid += cls != "ok"
            escaped = cls not in ("ok", "config")
            argv = ["-s", sp]
        if escaped:
            ctx.res.count("validator_skipped_internal")
            continue
        err = CountingStderr()
        ctx.res.evaluations += 1
        ctx.res.count("validator_runs")
        ctx.res.count("validator_runs_" + mode)
        saved = sys.stdin
        sys.stdin = PipeStdin(top)
        try:
            with contextlib.redirect_stderr(err):
                status = validator.main(argv)
        except SystemExit as e:
            status = "SystemExit(%s)" % e.code
        except Exception as e:  # noqa
            status = "raised %s: %s" % (type(e).__name__, str(e)[:80])
        finally:
            sys.stdin = saved
        want = 1 if invalid else 0
        ctx.res.sig("validator-%s|%d|%s" % (mode, invalid, status))
        if status != want or err.prints != invalid:
            ctx.res.violate("validator-status-or-messages",
                            {"files": files, "family": "validator",
                             "mode": mode},
                            {"status": want, "messages": invalid},
                            {"status": status, "messages": err.prints},
                            detail="mode=%s stderr=%r"
                            % (mode, err.getvalue()[:200]),
                            vsig="validator|%s|%s" % (mode, status))


# ---------------------------------------------------------------------------
# (4) validator

class CountingStderr(io.StringIO):
    def __init__(self):
        super().__init__()
        self.prints = 0

    def write(self, s):
        if s == "\n":
            self.prints += 1
        return super().write(s)


def do_validator(ctx, rng, dirpath, pairs_pool):
    import ZConfig
    from ZConfig import validator
    p = rng.choice(pairs_pool)
    shutil.rmtree(dirpath, ignore_errors=True)
    os.makedirs(dirpath)
    sp = os.path.join(dirpath, "schema.xml")
    with open(sp, "w") as f:
        f.write(p.xml)
    paths = []
    texts_ = []
    for i in range(rng.randint(1, 3)):
        q = rng.choice(pairs_pool[:])
        t = p.text if rng.random() < 0.5 else \
            mutate_string(rng, p.text)[0]
        fp = os.path.join(dirpath, "c%d.conf" % i)
        with open(fp, "w") as f:
            f.write(t)
        paths.append(fp)
        texts_.append(t)
    # which files are invalid, decided by loading them directly
    invalid = 0
    internal = False
    for t in texts_:
        cls, e = run_entry(lambda: ZConfig.loadConfigFile(
            p.schema, io.StringIO(t)))
        if cls != "ok":
            invalid += 1
        if cls not in ("ok", "config"):
            internal = True
    err = CountingStderr()
    ctx.res.evaluations += 1
    ctx.res.count("validator_runs")
    status = None
    exc = None
    try:
        with contextlib.redirect_stderr(err):
            status = validator.main(["-s", sp] + paths)
    except SystemExit as e:
        status = "SystemExit(%s)" % e.code
    except Exception as e:  # noqa
        exc = e
        status = "raised %s" % type(e).__name__
    want = 1 if invalid else 0
    case = {"schema": p.xml, "texts": texts_, "family": "validator"}
    ctx.res.sig("validator|%d|%s" % (invalid, status))
    if internal and classify(exc) == "datatype" if exc else False:
        return
    if status != want or err.prints != invalid:
        if internal:
            # the direct load already escaped with a non-configuration
            # error; that is reported by the text family, not again here
            ctx.res.count("validator_skipped_internal")
            return
        ctx.res.violate("validator-status-or-messages", case,
                        {"status": want, "messages": invalid},
                        {"status": status, "messages": err.prints},
                        detail="stderr=%r" % err.getvalue()[:200])


# ---------------------------------------------------------------------------

def size_texts():
    return [("blank-run", "\n" * 1500 + "k v\n"),
             ("comment-run", "# c\n" * 5000 + "k v\n"),
             ("blank-and-comment-run", "\n  # c\n\t\n" * 2000 + "k v\n"),
             ("blank-run-inside", "<sec>\n" + "\n" * 3000 + "k v\n</sec>\n"),
             ("blank-run-at-end", "k v\n" + "\n" * 4000),
             ("deep-nesting", "<sec>\n" * 1500 + "k v\n" + "</sec>\n" * 1500),
             ("deeper-nesting", "<sec>\n" * 4000 + "</sec>\n" * 4000),
             ("many-siblings", "<sec/>\n" * 20000),
             ("many-keys", "k v\n" * 50000),
             ("long-value", "k " + "x" * 500000 + "\n"),
             ("long-key", "k" * 100000 + " v\n"),
             ("many-defines", "".join("%%define n%d v%d\n" % (i, i)
                                      for i in range(5000)) + "k $n4999\n"),
             ("long-define-chain", "%define a0 x\n" + "".join(
                 "%%define a%d $a%d.\n" % (i + 1, i) for i in range(1500))
              + "k $a1500\n")]


def run_shard(ctx):
    import ZConfig
    os.environ["ZCV_EMPTY"] = ""
    rng = ctx.rng("mut")
    pool = []
    for p in cc.pairs(ctx, N_MODELS[ctx.tier], TEXTS[ctx.tier],
                      fault_plan=lambda r: 0 if r.random() < 0.8 else 1):
        if len(pool) < 40 and p.obs[0] == "ok":
            pool.append(p)
        # (1) text mutation
        text, kinds = mutate_string(rng, p.text)
        ctx.res.evaluations += 1
        import zcverif_dt.fam as _fam
        _fam.CURRENT[0] = ("text", p.schema, text)
        try:
            cls, e = run_entry(lambda: ZConfig.loadConfigFile(
                p.schema, io.StringIO(text)))
        finally:
            _fam.CURRENT[0] = None
            _fam.same_load_mismatch(False)
        report(ctx.res, "text", kinds, {"model": p.model, "text": text,
                                        "family": "text"}, cls, e)
        # (2) override mutation
        if p.obs[0] == "ok" and rng.random() < 0.5:
            specs, infos = overrides.gen_specs(rng, p.res, p.tree)
            kinds = ["clean"]
            if rng.random() < 0.6:
                i = rng.randrange(len(specs))
                specs[i], kinds = mutate_string(rng, specs[i],
                                                rng.randint(1, 2))
                specs[i] = specs[i].replace("\n", " ")
            ctx.res.evaluations += 1
            cls, e = run_entry(lambda: ZConfig.loadConfigFile(
                p.schema, io.StringIO(p.text), overrides=specs))
            report(ctx.res, "override", kinds,
                   {"model": p.model, "text": p.text, "overrides": specs,
                    "family": "override"}, cls, e)
            if rng.random() < 0.3:
                # the same specifiers handed to a loader object one by one,
                # each with a source position of the caller's own (a list
                # or a tuple: "a sequence of three values")
                from ZConfig import cmdline

                def via_loader():
                    ld = cmdline.ExtendedConfigLoader(p.schema)
                    for n_, s_ in enumerate(specs):
                        pos_ = ["zcv options.txt", n_ + 1, 2]
                        ld.addOption(s_, pos_ if n_ % 2 == 0
                                     else tuple(pos_))
                    return ld.loadFile(io.StringIO(p.text))
                ctx.res.evaluations += 1
                ctx.res.count("override_loader_objects")
                cls, e = run_entry(via_loader)
                report(ctx.res, "override", kinds + ["own-position"],
                       {"model": p.model, "text": p.text, "overrides": specs,
                        "family": "override", "own_position": True}, cls, e)
            if rng.random() < 0.15:
                # a long list (9-40 specifiers), one of them mangled
                many = list(specs)
                while len(many) < rng.randint(9, 40):
                    many.extend(overrides.gen_specs(rng, p.res, p.tree)[0])
                i = rng.randrange(len(many))
                many[i], kinds = mutate_string(rng, many[i],
                                               rng.randint(1, 2))
                many[i] = many[i].replace("\n", " ")
                if rng.random() < 0.5:
                    many[i] = rng.choice(["b ad/k=7", "a b/c/d=1", "(x)/k=v",
                                          "1x/k=v", "é/k=v", "-/k=v",
                                          "a//b=v", "/k=v", "a.b:c/k=v"])
                ctx.res.evaluations += 1
                ctx.res.count("long_override_lists")
                cls, e = run_entry(lambda: ZConfig.loadConfigFile(
                    p.schema, io.StringIO(p.text), overrides=many))
                report(ctx.res, "override", kinds + ["long-list"],
                       {"model": p.model, "text": p.text, "overrides": many,
                        "family": "override"}, cls, e)
    dschema = cc.load_schema(c06.DEFINE_SCHEMA)
    d = os.path.join(ctx.tmp, "c07 incl é%41+x")
    # every hostile argument on its own, at top level and inside a section
    for hi, h in enumerate(HOSTILE):
        if ctx.mine(hi):
            for tmpl in ("%%include %s\n", "<sec>\n  %%include %s\n</sec>\n",
                         "%%define t %s\n%%include $t\n"):
                do_include(ctx, dschema, rng, d,
                           {"a.conf": tmpl % h, "b.conf": "k v\n",
                            "c.conf": ""})
    for i in range(N_INCLUDE[ctx.tier] // ctx.nshards):
        do_include(ctx, dschema, rng, d)
        if i % 3 == 0:
            do_include_own_names(ctx, dschema, rng, d)
    # (5) extreme sizes: what a generator or a careless merge produces.
    # Nothing here is malformed, so each text loads - in particular without
    # RecursionError or MemoryError (the recursion limit is the default)
    sizes = size_texts()
    for si, (name, text) in enumerate(sizes):
        if not ctx.mine(si):
            continue
        for via in ("fileobj", "path", "include"):
            ctx.res.evaluations += 1
            ctx.res.count("extreme_size_cases")
            if via == "fileobj":
                fn = lambda: ZConfig.loadConfigFile(dschema, io.StringIO(text))  # noqa
            else:
                os.makedirs(d, exist_ok=True)
                fp = os.path.join(d, "big.conf")
                with open(fp, "w") as f:
                    f.write(text)
                if via == "path":
                    fn = lambda: ZConfig.loadConfig(dschema, fp)  # noqa
                else:
                    top = os.path.join(d, "top.conf")
                    with open(top, "w") as f:
                        f.write("%include big.conf\n")
                    fn = lambda: ZConfig.loadConfig(dschema, top)  # noqa
            cls, e = run_entry(fn)
            ctx.res.sig("size|%s|%s|%s" % (name, via, cls))
            if cls == "internal" or (cls != "ok" and name != "long-key"):
                ctx.res.violate(
                    "internal-exception-escaped" if cls == "internal"
                    else "well-formed-text-refused",
                    {"family": "size", "shape": name, "via": via},
                    "a configuration", "%s: %s" % (type(e).__name__,
                                                    str(e)[:120]),
                    detail="%s via %s: %s" % (name, via,
                                              type(e).__name__),
                    vsig="size|%s|%s" % (name, type(e).__name__))
    gone_cwd_cases(ctx, dschema)
    passthrough_cases(ctx)
    if ctx.shard % 2 == 0:
        big_type_churn(ctx)
    if pool:
        for i in range(N_VALIDATOR[ctx.tier] // ctx.nshards):
            do_validator(ctx, rng, os.path.join(ctx.tmp, "c07v"), pool)


PASS_SCHEMA = """<schema>
  <sectiontype name="sec" datatype="zcverif_dt.raiser_sect">
    <key name="marker"/>
    <key name="v" datatype="zcverif_dt.raiser"/>
    <multikey name="m" datatype="zcverif_dt.raiser"/>
    <key name="t" datatype="timedelta"/>
  </sectiontype>
  <sectiontype name="odd" keytype="zcverif_dt.raiser_key">
    <key name="+" attribute="w"/>
  </sectiontype>
  <key name="v" datatype="zcverif_dt.raiser"/>
  <multikey name="m" datatype="zcverif_dt.raiser"/>
  <key name="+" attribute="w" datatype="zcverif_dt.raiser"/>
  <key name="t" datatype="timedelta"/>
  <multisection type="sec" name="*" attribute="secs"/>
  <multisection type="odd" name="*" attribute="odds"/>
</schema>"""
PASS_SITES = [
    ("top key", "v %s\n"), ("top multikey", "m ok\nm %s\nm later\n"),
    ("top wildcard key", "anything %s\n"),
    ("section key", "<sec>\n  v %s\n</sec>\n"),
    ("section multikey", "<sec a>\n  m %s\n</sec>\n<sec b/>\n"),
    ("section datatype", "<sec>\n  marker %s\n</sec>\n"),
    ("section datatype, empty form never reached",
     "<sec/>\n<sec x>\n  marker %s\n</sec>\n"),
    ("key type", "<odd>\n  %s v\n</odd>\n"),
]


def passthrough_cases(ctx, only=None):
    """An error raised by a datatype function itself passes through
    unchanged: the very exception object the function raised leaves the
    entry point (ValueError alone is turned into a conversion error that
    carries it)."""
    import ZConfig
    import zcverif_dt
    res = ctx.res
    schema = cc.load_schema(PASS_SCHEMA)
    d = os.path.join(ctx.tmp, "c07 pass")
    os.makedirs(d, exist_ok=True)
    names = sorted(zcverif_dt._RAISABLE)
    idx = 0
    for site, tmpl in PASS_SITES:
        for name in names:
            for via in ("text", "path", "include", "override"):
                idx += 1
                label = "%s|%s|%s" % (site, name, via)
                if only is not None and label != only:
                    continue
                if only is None and not ctx.mine(idx):
                    continue
                word = "raise:" + name
                text = tmpl % word
                fn = None
                if via == "text":
                    fn = lambda: ZConfig.loadConfigFile(  # noqa
                        schema, io.StringIO(text))
                elif via == "path":
                    fp = os.path.join(d, "main.conf")
                    with open(fp, "w") as f:
                        f.write(text)
                    fn = lambda: ZConfig.loadConfig(schema, fp)  # noqa
                elif via == "include":
                    with open(os.path.join(d, "inc.conf"), "w") as f:
                        f.write(text)
                    fp = os.path.join(d, "main.conf")
                    with open(fp, "w") as f:
                        f.write("%include inc.conf\n")
                    fn = lambda: ZConfig.loadConfig(schema, fp)  # noqa
                else:
                    if site not in ("top key", "section key"):
                        continue
                    spec = ("v=" if site == "top key" else "sec/v=") + word
                    base = "" if site == "top key" else "<sec>\n</sec>\n"
                    fn = lambda: ZConfig.loadConfigFile(  # noqa
                        schema, io.StringIO(base), overrides=[spec])
                zcverif_dt.LAST_RAISED[0] = None
                try:
                    fn()
                    got = None
                except BaseException as e:  # noqa
                    got = e
                raised = zcverif_dt.LAST_RAISED[0]
                raised_args = zcverif_dt.LAST_RAISED_ARGS[0]
                res.evaluations += 1
                res.count("passthrough_cases")
                res.sig("pass|%s|%s|%s" % (site, name, via))
                if raised is None:
                    problem = "the datatype was never asked"
                elif issubclass(zcverif_dt._RAISABLE[name], ValueError):
                    # ValueError (and its subclasses) is how a datatype
                    # says no: reported as a configuration error
                    problem = None
                    if not isinstance(got, ZConfig.ConfigurationError):
                        problem = "ValueError not reported as a " \
                            "configuration error"
                    elif isinstance(got, ZConfig.DataConversionError) and \
                            got.exception is not raised:
                        problem = "conversion error does not carry the " \
                            "datatype's exception"
                elif got is not raised:
                    problem = "the datatype's %s did not pass through " \
                        "unchanged" % name
                elif (got.args, str(got)) != raised_args:
                    problem = "the datatype's %s came out with other " \
                        "arguments: %r, was %r" % (name, got.args,
                                                   raised_args[0])
                else:
                    problem = None
                if problem:
                    res.violate(
                        "datatype-error-not-passed-through",
                        {"family": "passthrough", "label": label,
                         "text": text},
                        "%s raised by the datatype" % name,
                        "%s: %s" % (type(got).__name__, str(got)[:160]),
                        detail="%s via %s: %s; got %s: %s" % (
                            site, via, problem, type(got).__name__,
                            str(got)[:100]),
                        vsig="pass|%s|%s" % (site, name if name in (
                            "ValueError", "TypeError") else "other"))
    # the stock datatype that reports with TypeError
    for li, text in enumerate(("t 1y\n", "<sec>\n  t 3d 5x\n</sec>\n")):
        if only is not None or not ctx.mine(li):
            continue
        res.evaluations += 1
        res.count("passthrough_cases")
        try:
            ZConfig.loadConfigFile(schema, io.StringIO(text))
            got = None
        except BaseException as e:  # noqa
            got = e
        if type(got) is not TypeError:
            res.violate("datatype-error-not-passed-through",
                        {"family": "passthrough", "label": "timedelta",
                         "text": text}, "TypeError raised by timedelta",
                        "%s: %s" % (type(got).__name__, str(got)[:160]),
                        detail="timedelta unit letter: got %s"
                        % type(got).__name__, vsig="pass|timedelta")


def big_type_churn(ctx, rounds=14):
    """Schemas with a large section type (20-30 keys) are created, used for
    one load and dropped in turn; two variants whose types have different
    key names alternate, so that a later type object sits where an earlier
    one sat.  Every text names only keys of its own schema: it loads, with
    its own values."""
    import gc
    import ZConfig
    res = ctx.res
    for k in range(rounds):
        for tag in ("a", "b"):
            n = 20 + (k % 3) * 5
            keys = ["%s%s%02d" % ("k", tag, i) for i in range(n)]
            xml = ("<schema><sectiontype name='big'>%s</sectiontype>"
                   "<multisection type='big' name='*' attribute='bigs'/>"
                   "%s</schema>") % (
                "".join("<key name='%s' datatype='integer' default='0'/>"
                        % x for x in keys),
                "".join("<key name='top%s' default='d'/>" % x
                        for x in keys[:18]))
            text = "<big one>\n%s</big>\ntop%s v\n" % (
                "".join("  %s %d\n" % (x, i) for i, x in enumerate(keys)),
                keys[3])
            res.evaluations += 1
            res.count("big_type_churn_loads")
            try:
                schema = ZConfig.loadSchemaFile(io.StringIO(xml))
                cfg, _ = ZConfig.loadConfigFile(schema, io.StringIO(text))
                got = [getattr(cfg.bigs[0], x) for x in keys]
                ok = got == list(range(n)) and \
                    getattr(cfg, "top" + keys[3]) == "v"
                why = "values %r" % (got[:6],)
            except Exception as e:  # noqa
                ok = False
                why = "%s: %s" % (type(e).__name__, str(e)[:120])
            if not ok:
                res.violate("internal-exception-escaped"
                            if "Error" in why and "Configuration" not in why
                            else "well-formed-text-refused",
                            {"family": "big-type-churn", "round": k,
                             "variant": tag},
                            "loads with its own values", why,
                            detail="round %d variant %s (schema objects "
                            "created and dropped in turn): %s" % (k, tag, why),
                            vsig="churn|%s" % why.split(":")[0])
                return
            del schema, cfg
            gc.collect()


def gone_cwd_entries(base):
    """(label, callable) pairs: loads that name everything absolutely, to
    be run in a process whose working directory has been removed (a
    daemon started from a directory that a deployment later replaced)."""
    import ZConfig
    schema = cc.load_schema(c06.DEFINE_SCHEMA)
    os.makedirs(base, exist_ok=True)
    files = {
        "ok.conf": "k v\n",
        "inc-missing.conf": "%include nosuchfile.conf\n",
        "inc-abs-missing.conf": "%%include %s\n"
        % os.path.join(base, "nosuch", "x.conf"),
        "inc-ok.conf": "%include ok.conf\n<sec>\n  %include ok.conf\n"
                       "</sec>\n",
        "inc-bad.conf": "%include bad.conf\n",
        "bad.conf": "<sec>\n",
        "inc-dir.conf": "%include .\n",
        "inc-pkg.conf": "%include package:nosuchpkg9:x\n",
        "imp.conf": "%import nosuchpkg9\n",
    }
    for n, t in files.items():
        with open(os.path.join(base, n), "w") as f:
            f.write(t)
    out = []
    for n in sorted(files):
        fp = os.path.join(base, n)
        out.append(("path " + n,
                    lambda fp=fp: ZConfig.loadConfig(schema, fp)))
        out.append(("url " + n, lambda fp=fp: ZConfig.loadConfig(
            schema, "file://" + fp)))

        def fobj(fp=fp):
            with open(fp) as f:
                return ZConfig.loadConfigFile(schema, f)
        out.append(("fobj " + n, fobj))
    missing = os.path.join(base, "missing.conf")
    out.append(("path missing", lambda: ZConfig.loadConfig(schema, missing)))
    out.append(("url missing", lambda: ZConfig.loadConfig(
        schema, "file://" + missing)))
    out.append(("schema missing", lambda: ZConfig.loadSchema(
        os.path.join(base, "missing.xml"))))
    out.append(("text abs include missing", lambda: ZConfig.loadConfigFile(
        schema, io.StringIO("%%include %s\n" % missing))))
    out.append(("text abs include", lambda: ZConfig.loadConfigFile(
        schema, io.StringIO("%%include %s\n"
                            % os.path.join(base, "inc-missing.conf")))))
    return out


def gone_cwd_cases(ctx, dschema, only=None):
    import tempfile
    base = os.path.join(ctx.tmp, "c07 gone")
    entries = gone_cwd_entries(base)
    old = os.getcwd()
    for i, (label, fn) in enumerate(entries):
        if only is None and not ctx.mine(i):
            continue
        if only is not None and label != only:
            continue
        doomed = tempfile.mkdtemp(dir=ctx.tmp, prefix="doomed")
        try:
            os.chdir(doomed)
            os.rmdir(doomed)
            # the control: the same entry with the working directory in
            # place says what the outcome is
            cls, e = run_entry(fn)
        finally:
            os.chdir(old)
        ccls, ce = run_entry(fn)
        ctx.res.evaluations += 1
        ctx.res.count("gone_cwd_cases")
        ctx.res.sig("gonecwd|%s|%s" % (label, cls))
        if cls == "internal" or cls != ccls:
            ctx.res.violate(
                "internal-exception-escaped" if cls == "internal"
                else "outcome-depends-on-working-directory",
                {"family": "gone-cwd", "entry": label},
                "%s (as with the working directory in place)" % ccls,
                "%s: %s" % (type(e).__name__, str(e)[:160]),
                detail="working directory removed; %s -> %s: %s"
                % (label, type(e).__name__, str(e)[:120]),
                vsig="gonecwd|%s|%s" % (label.split()[0],
                                        type(e).__name__))


def replay(ctx, case):
    os.environ["ZCV_EMPTY"] = ""
    import ZConfig
    fam = case.get("family")
    if fam == "gone-cwd":
        return gone_cwd_cases(ctx, None, only=case["entry"])
    if fam == "passthrough":
        return passthrough_cases(ctx, only=case["label"])
    if fam == "big-type-churn":
        return big_type_churn(ctx)
    if fam == "include":
        d = os.path.join(ctx.tmp, "c07r")
        os.makedirs(os.path.join(d, "sub"))
        for n, t in case["files"].items():
            with open(os.path.join(d, n), "w") as f:
                f.write(t)
        schema = cc.load_schema(c06.DEFINE_SCHEMA)
        if case.get("entry") == "nourl":
            top = case["files"].get("a.conf", "")
            for n in ("a.conf", "b.conf", "c.conf"):
                top = top.replace("%include " + n + "\n",
                                  "%include " + os.path.join(d, n) + "\n")
            cls, e = run_entry(lambda: ZConfig.loadConfigFile(
                schema, io.StringIO(top)))
        elif case.get("entry") == "own-names":
            import ZConfig.loader

            class SiteLoader(ZConfig.loader.ConfigLoader):
                def normalizeURL(self, url):
                    if url.startswith("site:"):
                        url = os.path.join(d, url[5:] + ".conf")
                    return ZConfig.loader.ConfigLoader.normalizeURL(self, url)
            cls, e = run_entry(lambda: SiteLoader(schema).loadURL("site:a"))
        else:
            cls, e = run_entry(lambda: ZConfig.loadConfig(
                schema, os.path.join(d, "a.conf")))
    elif fam == "size":
        text = dict(size_texts())[case["shape"]]
        schema = cc.load_schema(c06.DEFINE_SCHEMA)
        d = os.path.join(ctx.tmp, "c07r")
        os.makedirs(d, exist_ok=True)
        with open(os.path.join(d, "big.conf"), "w") as f:
            f.write(text)
        with open(os.path.join(d, "top.conf"), "w") as f:
            f.write("%include big.conf\n")
        fn = {"fileobj": lambda: ZConfig.loadConfigFile(
                  schema, io.StringIO(text)),
              "path": lambda: ZConfig.loadConfig(
                  schema, os.path.join(d, "big.conf")),
              "include": lambda: ZConfig.loadConfig(
                  schema, os.path.join(d, "top.conf"))}[case["via"]]
        cls, e = run_entry(fn)
        if cls != "ok" and case["shape"] != "long-key":
            cls = "internal"
    elif fam == "validator":
        return
    else:
        schema = cc.load_schema(family.render_xml(case["model"]))
        cls, e = run_entry(lambda: ZConfig.loadConfigFile(
            schema, io.StringIO(case["text"]),
            overrides=case.get("overrides", ())))
    if cls == "internal":
        ctx.res.violate("internal-exception-escaped", case, "config",
                        "%s: %s" % (type(e).__name__, e))
