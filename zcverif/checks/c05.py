"""C05 — %define names: one case-insensitive, define-before-use, write-once
namespace per load.

Oracle: ref.refparse (define table shared across included resources) vs the
values of a multikey 'k' (every use is a line 'k $name') returned by
ZConfig.loadConfig on generated files; leak probes after every successful
load; hook on ZConfigParser.__init__ (top-level parser must start empty).
"""

import itertools
import os

from ..ref import refparse

ID = "C05"
LEVEL = "exploration"
TECHNIQUE = ("runtime monitoring: reference %define-namespace model vs "
             "observed key values on exhaustively enumerated directive "
             "histories, with leak probes between loads and a state hook on "
             "the parser's define table")
RULE = ("directive sequences over steps {define n v | use n} with names "
        "a/A/b (+ never-defined c) and values {x, y, '', $b, $a, $$b, "
        "${b}x, padded x}: every flat sequence up to length 2 (quick) / 3 "
        "(thorough), each in every arrangement of its steps into 0..2 "
        "levels of %include files, each loaded twice against one schema "
        "object - through ZConfig.loadConfig and through one long-lived "
        "ConfigLoader object reused for every load - and followed, whether "
        "the load succeeded or failed half-way, by leak probes; plus random "
        "sequences of "
        "length 3..6 with random (also repeated) includes.  Non-trivial = "
        "contains a define; distinct_nontrivial = distinct (step kinds and "
        "value classes, include depth, outcome) signatures."
        ' Also: the definitions table handed to the top parser as a UserDict / ChainMap / own mapping / OrderedDict; kept ExtendedConfigLoader objects (with and without an option); name positions that expand to nothing; path-like values.')
LEVEL_TEXT = ("All directive histories within the bound are executed "
              "through loadConfig and compared with the reference "
              "namespace model, including how definitions flow into and "
              "out of included resources and that nothing survives a load.")
ASSUMPTIONS = [
    "zcverif/ref/refparse.py models the namespace as the statement says: "
    "expand when read, redefinition accepted iff expanded values are equal",
    "a redefinition whose new value cannot be expanded must be rejected, "
    "but the statement does not pin which error class; any configuration "
    "error is accepted there",
]
FLOORS = {"quick": {"judged": 8000, "probes": 5000,
                    "probes_after_failed_load": 1500},
          "thorough": {"judged": 400000, "probes": 200000,
                       "probes_after_failed_load": 50000}}
HOOK_FLOORS = {"quick": {"parser_init": 10000, "nested_parser_init": 1000},
               "thorough": {"parser_init": 500000,
                            "nested_parser_init": 100000}}

SCHEMA = ("<schema><sectiontype name='s' datatype='zcverif_dt.fam.reenter_sect'>"
          "<multikey name='k' attribute='k' "
          "datatype='zcverif_dt.fam.reenter_str'/>"
          "<multisection type='s' name='*' attribute='ss'/></sectiontype>"
          "<multikey name='k' attribute='k'/><key name='o'/>"
          "<multisection type='s' name='*' attribute='ss'/></schema>")
# a load with a command-line override that has nothing to do with the
# definitions: the namespace rules are the same
OVERRIDE = "with-override"
# a loader whose top-level definitions table is a mapping that is not a
# dict (the table is an argument of the parser and of includeConfiguration;
# the namespace rules do not depend on its class)
MAPTABLE = "mapping-table"
DEF_NAMES = ["a", "A", "b"]
USE_NAMES = ["a", "A", "b", "c", "{A}", "{b}"]
VALUES = ["x", "y", "", "$b", "$a", "$$b", "${B}x", "  x "]
STEPS = [("d", n, v) for n in DEF_NAMES for v in VALUES] + \
        [("u", n) for n in USE_NAMES]
# more steps, used in the length<=2 enumeration and in random histories
# only (the length-3 enumeration would grow too much): a '$' construct in
# the name position, values that start with a reference
EXTRA_STEPS = [("d", "$b", "x"), ("d", "${a}", "y"), ("d", "$$a", "x"),
               ("d", "a", "$b y"), ("d", "b", "${a}  z"), ("d", "c", ""),
               ("d", "A", "$c"), ("d", "c", "$c tail"), ("u", "{c}x"),
               # a name position that expands to nothing (c is defined
               # empty, ZCV_EMPTY is set and empty): no legal name
               ("d", "$c", ""), ("d", "${c}", ""), ("d", "$c$c", ""),
               ("d", "$(ZCV_EMPTY)", ""), ("d", "$c", "x"),
               # values that name the same file differently are different
               # values
               ("d", "c", "/srv/app"), ("d", "c", "/srv/app/"),
               ("d", "c", "/srv//app"), ("d", "C", "/srv/./app"),
               ("d", "c", "/srv/x/../app"), ("d", "c", "\\srv\\app"),
               ("d", "c", "/SRV/app"),
               # non-ASCII letters next to / inside names: U+212A, U+017F,
               # U+0130 and U+0131 case-fold into ASCII letters, the rest
               # are letters for Unicode-aware patterns only; none of them
               # is a name character
               ("d", "a\u212a", "x"), ("d", "\u017f", "x"),
               ("d", "b\u0130", "y"), ("d", "a\xe9", "x"),
               ("u", "a\u212a"), ("u", "{a\u017f}"), ("u", "b\u0131 t"),
               ("u", "a\xe9"), ("u", "\u212a"), ("d", "a", "$b\u017f"),
               ("d", "\u212a", "x"), ("u", "k"),
               # ASCII neighbours of the letter ranges are no name characters
               ("d", "^a", "x"), ("d", "[b", "y"), ("d", "a^", "x"),
               ("d", "`a", "x"), ("d", "b]", "y"), ("d", "a\\b", "x"),
               ("u", "{^a}"), ("u", "{a^}"), ("u", "{[b}"), ("u", "a[0]"),
               ("d", "@a", "x"),
               # an environment reference before a reference to a definition
               ("u", "(ZCV_SET)/$a"), ("u", "a $(ZCV_SET) ${b}"),
               ("d", "c", "$(ZCV_SET)$a"), ("u", "a$(ZCV_SET)"),
               # a definition whose expansion begins / ends with a blank
               # (the reference in it expands to nothing)
               ("d", "b", "$(ZCV_EMPTY) x"), ("d", "b", "x $(ZCV_EMPTY)"),
               ("d", "b", "x"), ("u", "{b}|"), ("u", "b|$b"),
               # names of 32, 40 and 70 characters (one a prefix of the other)
               ("d", "n" + "m" * 39, "x"), ("u", "n" + "m" * 39),
               ("d", "n" + "m" * 31, "p"), ("u", "{n" + "m" * 69 + "}"),
               ("d", "N" + "M" * 69, "y"), ("u", "n" + "m" * 31)]
BOUND = {"quick": 2, "thorough": 3}
RANDOM = {"quick": 4000, "thorough": 100000}


def shards(tier):
    return 8 if tier == "quick" else 16


# white space between the directive, the name and the value: any run of
# blanks and tabs
SEPS = [" ", " ", "\t", " ", "  ", " \t", "\t\t", " "]
_SEP_N = [0]


def step_line(st):
    if st[0] == "d":
        _SEP_N[0] += 1
        a = SEPS[_SEP_N[0] % len(SEPS)]
        b = SEPS[(_SEP_N[0] // len(SEPS) + _SEP_N[0]) % len(SEPS)]
        return ("%define" + a + st[1] + b + st[2]).rstrip() if st[2] == "" \
            else "%define" + a + st[1] + b + st[2]
    if st[0] == "u":
        return "k $" + st[1]
    if st[0] == "i":
        return "%include " + st[1]
    if st[0] == "is":
        # the include stands inside a section: one namespace all the same
        return "<s>\n  %include " + st[1] + "\n</s>"
    raise ValueError(st)


def arrangements(n):
    """All ways to move a contiguous run of steps into an include file,
    optionally with a nested run inside it.  Yields tuples
    (i, j, i2, j2) with None for absent levels."""
    yield (None, None, None, None)
    for i in range(n):
        for j in range(i + 1, n + 1):
            yield (i, j, None, None)
            for i2 in range(i, j):
                for j2 in range(i2 + 1, j + 1):
                    yield (i, j, i2, j2)


def in_sections(files, which=(True, True)):
    """The same files with their %include lines put inside a section."""
    out = {}
    for name, sts in files.items():
        wrap = which[0] if name == "main.conf" else which[1]
        out[name] = [("is", s[1]) if (s[0] == "i" and wrap) else s
                     for s in sts]
    return out


def build_files(steps, arr):
    """files: name -> list of step tuples (with ('i', file) steps)."""
    i, j, i2, j2 = arr
    if i is None:
        return {"main.conf": list(steps)}
    inner = list(steps[i:j])
    files = {}
    if i2 is not None:
        a, b = i2 - i, j2 - i
        files["inc2.conf"] = inner[a:b]
        inner = inner[:a] + [("i", "inc2.conf")] + inner[b:]
    files["inc1.conf"] = inner
    files["main.conf"] = list(steps[:i]) + [("i", "inc1.conf")] + \
        list(steps[j:])
    return files


def render(files):
    return {name: "".join(step_line(s) + "\n" for s in sts)
            for name, sts in files.items()}


def expected(texts):
    st = refparse.State(env={"ZCV_SET": "zcv-env-value", "ZCV_EMPTY": ""})

    def inc(parser, section, target, lineno):
        if target not in texts:
            raise refparse.Stop(("unjudged", "include of unknown file"))
        sub = refparse.RefParser(st, include=inc)
        sub.parse(texts[target], section)

    p = refparse.RefParser(st, include=inc)
    try:
        p.parse(texts["main.conf"])
    except refparse.Stop as stop:
        return stop.outcome, None, st.defines
    # values in a canonical order: a section's own keys, then its
    # sub-sections one after the other (the top level counts as section 0)
    keys, kids = {0: []}, {0: []}
    for e in st.events:
        if e[0] == "open":
            keys[e[1]], kids[e[1]] = [], []
            kids[e[2]].append(e[1])
        elif e[0] == "key":
            keys[e[1]].append(e[3])

    def flat(n):
        out = list(keys[n])
        for c in kids[n]:
            out.extend(flat(c))
        return out
    return ("ok",), flat(0), st.defines


class Hook:
    """Counts parser constructions; the first parser of a load must start
    with an empty define table."""

    def __init__(self, res):
        self.res = res
        self.depth_marks = []
        self.in_load = False
        self.first = True
        self.bad = None

    def install(self):
        from ZConfig import cfgparser
        self.cls = cfgparser.ZConfigParser
        self.orig = self.cls.__init__
        hook = self

        def __init__(self, resource, context, defines=None):
            hook.orig(self, resource, context, defines)
            hook.res.hook("parser_init")
            if hook.first:
                hook.first = False
                if len(self.defines) != 0:
                    hook.bad = dict(self.defines)
            else:
                hook.res.hook("nested_parser_init")
        self.cls.__init__ = __init__

    def remove(self):
        self.cls.__init__ = self.orig

    def begin(self):
        self.first = True
        self.bad = None


class _Table:
    """A mutable mapping that is neither a dict nor registered as one."""

    def __init__(self):
        self._d = []

    def __len__(self):
        return len(self._d)

    def __contains__(self, k):
        return any(k == a for a, _ in self._d)

    def __getitem__(self, k):
        for a, b in self._d:
            if a == k:
                return b
        raise KeyError(k)

    def __setitem__(self, k, v):
        for i, (a, _) in enumerate(self._d):
            if a == k:
                self._d[i] = (k, v)
                return
        self._d.append((k, v))

    def get(self, k, default=None):
        try:
            return self[k]
        except KeyError:
            return default

    def __iter__(self):
        return iter([a for a, _ in self._d])

    def keys(self):
        return [a for a, _ in self._d]

    def items(self):
        return list(self._d)


_TABLE_NO = [0]


def _table_loader(schema, res):
    """A ConfigLoader that hands the top parser of a load a definitions
    table of its own choosing; None when this tree's loader has no
    _parse_resource to extend (the variant is skipped then)."""
    import collections
    from ZConfig.loader import ConfigLoader
    if not hasattr(ConfigLoader, "_parse_resource"):
        return None
    kinds = [collections.UserDict, collections.ChainMap, _Table,
             collections.OrderedDict]

    class TableLoader(ConfigLoader):
        def _parse_resource(self, matcher, resource, defines=None):
            if defines is None:
                _TABLE_NO[0] += 1
                defines = kinds[_TABLE_NO[0] % len(kinds)]()
                res.hook("mapping_tables")
            return ConfigLoader._parse_resource(self, matcher, resource,
                                                defines)
    return TableLoader(schema)


def observe(schema, path, hook, loader=None):
    """Load through ZConfig.loadConfig, or through a long-lived
    ConfigLoader object (*loader*) that is reused for every load."""
    import ZConfig
    hook.begin()
    try:
        if loader is MAPTABLE:
            tl = _table_loader(schema, hook.res)
            if tl is None:
                cfg, _ = ZConfig.loadConfig(schema, path)
            else:
                cfg, _ = tl.loadURL(path)
        elif loader is OVERRIDE:
            cfg, _ = ZConfig.loadConfig(schema, path, overrides=["o=1"])
        elif loader is not None:
            cfg, _ = loader.loadURL(path)
        else:
            cfg, _ = ZConfig.loadConfig(schema, path)
    except ZConfig.SubstitutionReplacementError as e:
        return ("subst-missing", getattr(e, "name", None)), None
    except ZConfig.SubstitutionSyntaxError:
        return ("subst-syntax",), None
    except ZConfig.ConfigurationSyntaxError:
        return ("syntax",), None
    except ZConfig.ConfigurationError as e:
        return ("config-error", type(e).__name__), None
    except Exception as e:  # noqa
        return ("internal", type(e).__name__, str(e)[:100]), None
    def flat(sec):
        out = list(sec.k)
        for sub in sec.ss:
            out.extend(flat(sub))
        return out
    return ("ok",), flat(cfg)


def agrees(exp_out, exp_vals, obs_out, obs_vals):
    k = exp_out[0]
    if k == "ok":
        return obs_out == ("ok",) and obs_vals == exp_vals
    if k == "syntax":
        return obs_out == ("syntax",)
    if k == "subst-syntax":
        return obs_out == ("subst-syntax",)
    if k == "subst-missing":
        return (obs_out[0] == "subst-missing" and
                isinstance(obs_out[1], str) and
                obs_out[1].lower() == exp_out[1].lower())
    if k == "reject-any":
        return obs_out[0] in ("syntax", "subst-syntax", "subst-missing",
                              "config-error")
    return False


def signature(files, exp_out, defines):
    kinds = []
    seen = set()

    def walk(name, depth):
        for s in files[name]:
            if s[0] == "d":
                n = s[1].lower()
                kinds.append("D%d%s" % (VALUES.index(s[2]) if s[2] in VALUES
                                        else 9, "r" if n in seen else ""))
                seen.add(n)
            elif s[0] == "u":
                kinds.append("U" + ("+" if s[1].strip("{}").lower() in seen else "-"))
            else:
                kinds.append("I%d[" % (depth + 1))
                walk(s[1], depth + 1)
                kinds.append("]")
    walk("main.conf", 0)
    return "".join(kinds[:14]) + ">" + exp_out[0]


def run_case(ctx, schema, hook, steps_files, family, dirpath, loader=None):
    res = ctx.res
    via = OVERRIDE if loader is OVERRIDE else \
        MAPTABLE if loader is MAPTABLE else \
        "loader-object" if loader is not None else "loadConfig"
    res.count("via_" + via)
    texts = render(steps_files)
    for name, text in texts.items():
        with open(os.path.join(dirpath, name), "w") as f:
            f.write(text)
    path = os.path.join(dirpath, "main.conf")
    exp_out, exp_vals, defines = expected(texts)
    res.evaluations += 1
    case = {"files": texts, "family": family}
    if exp_out[0] == "unjudged":
        res.count("unjudged")
        return
    res.count("judged")
    res.count("expect_" + exp_out[0])
    nontrivial = any(s[0] == "d" for sts in steps_files.values() for s in sts)
    if nontrivial:
        res.sig(signature(steps_files, exp_out, defines))
        res.sample("%s-%s" % (family, exp_out[0]),
                   dict(case, expected=[list(exp_out), exp_vals]), 1)
    for run in (1, 2):
        obs_out, obs_vals = observe(schema, path, hook, loader)
        if hook.bad is not None:
            res.violate("top-parser-starts-with-definitions", case, {},
                        hook.bad, detail="run %d" % run)
        if not agrees(exp_out, exp_vals, obs_out, obs_vals):
            mech = None
            res.violate(
                "namespace-disagrees", dict(case, run=run, via=via),
                [list(exp_out), exp_vals], [list(obs_out), obs_vals],
                detail="run %d via %s main=%r" % (run, via,
                                                  texts["main.conf"]),
                mechanism=mech,
                vsig="ns|%s|%s|%s|run%d|%s" % (exp_out[0], obs_out[0], mech,
                                               run, via))
            break
    # leak probes: nothing defined by this load - whether it succeeded or
    # failed half-way - may be visible to the next
    if exp_out[0] != "unjudged" and defines:
        for name in sorted(defines)[:2]:
            for probe, want in (("k $%s\n" % name, "missing"),
                                ("%%define %s zz9\nk $%s\n" % (name, name),
                                 "zz9")):
                with open(path, "w") as f:
                    f.write(probe)
                res.count("probes")
                if exp_out[0] != "ok":
                    res.count("probes_after_failed_load")
                obs_out, obs_vals = observe(schema, path, hook, loader)
                if want == "missing":
                    ok = obs_out[0] == "subst-missing"
                else:
                    ok = obs_out == ("ok",) and obs_vals == ["zz9"]
                if not ok:
                    res.violate("definition-leaked-into-next-load",
                                dict(case, probe=probe, via=via), want,
                                [list(obs_out), obs_vals],
                                detail="via %s after main=%r (%s) probe=%r"
                                % (via, texts["main.conf"], exp_out[0],
                                   probe),
                                vsig="leak|%s|%s" % (via, exp_out[0]))


def random_case(rng):
    n = rng.randint(3, 6)
    steps = [rng.choice(STEPS + EXTRA_STEPS) if rng.random() < 0.8 else
             ("d", rng.choice(DEF_NAMES), rng.choice(VALUES))
             for _ in range(n)]
    arrs = list(arrangements(n))
    files = build_files(steps, rng.choice(arrs))
    # sometimes include a fragment a second time
    if "inc1.conf" in files and rng.random() < 0.3:
        files["main.conf"].insert(rng.randint(0, len(files["main.conf"])),
                                  ("i", "inc1.conf"))
    if "inc2.conf" in files and rng.random() < 0.2:
        files["main.conf"].append(("i", "inc2.conf"))
    return files


def run_shard(ctx):
    import io
    import ZConfig
    # '$name' must never be resolved from the process environment
    for n in ("a", "A", "b", "B", "c", "C"):
        os.environ[n] = "FROM-ENVIRONMENT"
    os.environ["ZCV_SET"] = "zcv-env-value"
    os.environ["ZCV_EMPTY"] = ""
    schema = ZConfig.loadSchemaFile(io.StringIO(SCHEMA))
    hook = Hook(ctx.res)
    hook.install()
    dirpath = os.path.join(ctx.tmp, "c05")
    os.makedirs(dirpath, exist_ok=True)
    try:
        from ZConfig.loader import ConfigLoader
        shared = ConfigLoader(schema)      # reused for every load
        # the command-line loader, kept for every load too: one without
        # any option, one with an option that has nothing to do with the
        # definitions
        from ZConfig.cmdline import ExtendedConfigLoader
        ext_plain = ExtendedConfigLoader(schema)
        ext_opt = ExtendedConfigLoader(schema)
        ext_opt.addOption("o=1")
        idx = 0
        for n in range(1, BOUND[ctx.tier] + 1):
            arrs = list(arrangements(n))
            alphabet = STEPS + EXTRA_STEPS if n <= 2 else STEPS
            for steps in itertools.product(alphabet, repeat=n):
                idx += 1
                if not ctx.mine(idx):
                    continue
                for ai, arr in enumerate(arrs):
                    files = build_files(steps, arr)
                    run_case(ctx, schema, hook, files, "enum", dirpath)
                    if ai % 3 == 0:
                        run_case(ctx, schema, hook, files, "enum-loader",
                                 dirpath, [shared, ext_plain, ext_opt,
                                           shared][ai // 3 % 4])
                    elif ai % 3 == 1:
                        run_case(ctx, schema, hook, files, "enum-override",
                                 dirpath, OVERRIDE)
                    elif len(files) > 1:
                        run_case(ctx, schema, hook, in_sections(
                            files, [(True, True), (True, False),
                                    (False, True)][ai // 3 % 3]),
                                 "enum-in-section", dirpath)
                        if ai % 2 == 0:
                            run_case(ctx, schema, hook, files,
                                     "enum-mapping-table", dirpath, MAPTABLE)
        rng = ctx.rng("random")
        for i in range(RANDOM[ctx.tier] // ctx.nshards):
            files = random_case(rng)
            run_case(ctx, schema, hook, files, "random", dirpath)
            run_case(ctx, schema, hook, files, "random-loader", dirpath,
                     [shared, ext_plain, ext_opt][i % 3])
            run_case(ctx, schema, hook, files, "random-override", dirpath,
                     OVERRIDE)
            if len(files) > 1:
                run_case(ctx, schema, hook, in_sections(files),
                         "random-in-section", dirpath)
                run_case(ctx, schema, hook, files, "random-mapping-table",
                         dirpath, MAPTABLE)
    finally:
        hook.remove()
    ctx.res.info["bounds"] = {"steps": len(STEPS),
                              "max_flat_len": BOUND[ctx.tier],
                              "random": RANDOM[ctx.tier]}


def finalize(m, tier):
    return {"exhaustive": True,
            "exhaustive_scope": "all flat sequences up to length %d over the "
            "28-step alphabet x all 0..2-level include arrangements; random "
            "longer sequences are a sample" % BOUND[tier]}


def replay(ctx, case):
    import io
    import ZConfig
    os.environ["ZCV_SET"] = "zcv-env-value"
    os.environ["ZCV_EMPTY"] = ""
    schema = ZConfig.loadSchemaFile(io.StringIO(SCHEMA))
    hook = Hook(ctx.res)
    hook.install()
    d = os.path.join(ctx.tmp, "c05r")
    os.makedirs(d, exist_ok=True)
    try:
        texts = case["files"]
        for name, text in texts.items():
            with open(os.path.join(d, name), "w") as f:
                f.write(text)
        exp_out, exp_vals, defines = expected(texts)
        loader = None
        if case.get("via") == OVERRIDE:
            loader = OVERRIDE
        elif case.get("via") == MAPTABLE:
            loader = MAPTABLE
        elif case.get("via") == "loader-object":
            from ZConfig.loader import ConfigLoader
            loader = ConfigLoader(schema)
        obs_out, obs_vals = observe(schema, os.path.join(d, "main.conf"),
                                    hook, loader)
        if exp_out[0] != "unjudged" and not agrees(exp_out, exp_vals,
                                                    obs_out, obs_vals):
            ctx.res.violate("namespace-disagrees", case,
                            [list(exp_out), exp_vals],
                            [list(obs_out), obs_vals])
    finally:
        hook.remove()
