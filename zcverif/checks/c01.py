"""C01 — a configuration is accepted if and only if it conforms to the schema.

Oracle: ref.refmatch.conform (independent whole-tree conformance model) vs
accept/reject of ZConfig.loadConfigFile on (schema, text) pairs of the
generated family.
"""

from . import conf_common as cc

ID = "C01"
LEVEL = "exploration"
TECHNIQUE = ("runtime monitoring: independent reference conformance model "
             "vs accept/reject of loadConfigFile over a generated schema "
             "family x generated texts with injected faults")
RULE = ("schemas: every multiset of <=2 child kinds (key/multikey/+key/"
        "+multikey x optional/default/required; section/multisection slots "
        "x fixed/*/+ x concrete/abstract x optional/required) at top level "
        "under two key types, plus seeded random models (depth <=3, 0..2 "
        "abstract types, derived and implementing types, self-references, "
        "three key types, wrapping datatypes); texts: generated instance "
        "plus 0..4 faults from a 17-kind catalogue (unknown/invalid/"
        "repeated keys, unknown/abstract/non-admitted types, name-rule "
        "faults, reused names, surplus and missing items, bad values, "
        "syntax junk).  Judged = the reference decides accept or reject; "
        "ambiguous schema/header shapes are unjudged.  distinct_nontrivial "
        "= distinct (model features, expected outcome, reason, fault kinds) "
        "signatures.")
LEVEL_TEXT = ("Every generated (schema, text) pair is executed through "
              "loadConfigFile and compared with an independent conformance "
              "model: a wrong accept, a wrong reject, or a rejection outside "
              "the configuration-error family is observed directly.")
ASSUMPTIONS = [
    "zcverif/ref/refmatch.py (Appendix B) is what 'conforms' means; values "
    "are drawn from a table-driven vocabulary per datatype",
    "schemas/headers where two slots fit (which one wins is not in the "
    "statement) are executed but unjudged",
]
FLOORS = {"quick": {"judged": 25000, "expect_accept": 10000,
                    "expect_reject": 8000},
          "thorough": {"judged": 900000, "expect_accept": 400000,
                       "expect_reject": 300000}}
N_MODELS = {"quick": 1500, "thorough": 50000}
TEXTS = {"quick": 20, "thorough": 36}


def shards(tier):
    return 16


def judge(ctx, p, rng=None):
    judge_one(ctx, p, p.exp, p.obs, "")
    if rng is None or rng.random() >= 0.12:
        return
    # the same pair through the other ways in: a path, a file beyond
    # 64 KiB, a real open file, a load with command-line overrides
    want = [rng.choice(["path", "padded", "fobj", "fobj-bytes"]), "override"]
    for label, exp, obs in cc.entry_variants(ctx, p, rng, want):
        ctx.res.count("entry_" + label.split()[0])
        judge_one(ctx, p, exp, obs, label)


def judge_one(ctx, p, exp, obs, entry):
    res = ctx.res
    res.evaluations += 1
    if exp[0] == "unjudged":
        res.count("unjudged")
        res.count("unjudged:" + cc.why_slug(exp[1]))
        res.sample("unjudged", dict(p.case(), why=exp[1]), 1)
        return
    res.count("judged")
    res.count("expect_" + exp[0])
    why = cc.why_slug(exp[2]) if exp[0] == "reject" else ""
    res.sig("%s|%s|%s|%s" % (cc.model_features(p.model), exp[0], why,
                             ",".join(sorted(f["kind"] for f in p.faults))))
    res.sample(exp[0] + ("-" + exp[1] if exp[0] == "reject" else ""),
               {"schema": p.xml, "text": p.text,
                "expected": list(exp[:1]) + ([exp[1], exp[2]]
                                             if exp[0] == "reject" else [])},
               1)
    if entry:
        case = dict(p.case(), entry=entry)
        p = _Shim(p, case)
    if exp[0] == "accept":
        if obs[0] != "ok":
            res.violate("rejected-although-conforming", p.case(), "accept",
                        list(obs[:6]), detail="text=%r error=%s"
                        % (p.text, obs[5]),
                        vsig="fr|%s|%s" % (obs[2], cc.why_slug(obs[5])))
    else:
        if obs[0] == "ok":
            res.violate("accepted-although-not-conforming", p.case(),
                        list(exp), "accepted", detail="text=%r why=%s"
                        % (p.text, exp[2]),
                        vsig="fa|%s" % why)
        elif obs[1] != "config":
            res.violate("rejected-with-non-configuration-error", p.case(),
                        list(exp), list(obs[:6]),
                        detail="text=%r raised %s: %s" % (p.text, obs[2],
                                                           obs[5]),
                        vsig="nc|%s|%s" % (obs[2], why))


class _Shim:
    def __init__(self, p, case):
        self.__dict__.update(p.__dict__)
        self._case = case

    def case(self):
        return self._case


def run_shard(ctx):
    try:
        _run_shard(ctx)
    finally:
        # the wrapping section datatypes of the family load a schema and a
        # configuration of their own while the outer load is in progress
        import zcverif_dt.fam
        ctx.res.hook("nested_loads_from_datatypes",
                     zcverif_dt.fam.REENTRIES[0])


def _run_shard(ctx):
    rng = ctx.rng("entries")
    for p in cc.pairs(ctx, N_MODELS[ctx.tier], TEXTS[ctx.tier]):
        judge(ctx, p, rng)


def replay(ctx, case):
    p = cc.replay_pair(case)
    if case.get("entry"):
        exp, obs = cc.replay_entry(ctx, p, case)
        judge_one(ctx, p, exp, obs, case["entry"])
    else:
        judge(ctx, p)
