"""C20 — logger sections produce exactly the configured logging setup, once.

Oracle: ref.reflog (level table, logfile option table, format rendering from
the record's __dict__ per style) against what the factories of a loaded
configuration really build, observed through the logging objects themselves
and through mon.logmon (hook on logging.Logger.addHandler, own weak-reference
registry of the component's file handlers, hooks on their close / reopen).

Families of cases
  levels     every level spelling (three casings) and integer -2..52 as the
             level of a logger, of an eventlog and of a handler (+ the
             datatype called directly)
  handlers   the logfile option table: {STDOUT, STDERR, file} x rotation
             variants x delay x encoding, then random configurations with
             0..3 handlers per logger, several loggers, eventlog, also through
             ZConfig.configureLoggers
  formats    format strings per style x arbitrary-fields: full product of
             field x conversion x flags x width x precision (classic),
             field x conversion x spec (format), both reference forms
             (templates) in rotating literal/escape contexts, field-less and
             malformed strings, random compositions
  sequences  op sequences <= 6 over {call factory k, reopenFiles, closeFiles,
             drop logger k's handlers}, with and without a collection forced
             inside reopenFiles
"""

import copy
import gc
import io
import itertools
import logging
import logging.handlers
import os
import re
import shutil
import sys
import traceback

from ..mon import logmon
from ..ref import reflog

ID = "C20"
LEVEL = "exploration"
RULE = ("levels: all 11 documented names in 3 casings + integers -2..52 at "
        "3 positions; handlers: the full 3x8x3x4 logfile option table plus "
        "seeded random configurations (0..3 handlers, 1..3 loggers, "
        "eventlog, configureLoggers); formats: enumerated per style over "
        "fields x conversions x flags x escapes with arbitrary-fields off "
        "and on (quick: core list + strided sample of the product + random "
        "compositions; thorough: the full product); sequences: seeded random "
        "op sequences <= 6 plus a final reopen probe. A case is non-trivial "
        "when a configuration was loaded and judged; distinct_nontrivial "
        "counts distinct (family, option/format shape, expectation, outcome) "
        "signatures."
        " Formatter classes without a style parameter, nameless <logger> sections, negative sizes / counts on standard streams, quoted formats, reopenFiles() meeting a missing directory and being called while a failed factory call's exception is held.")
LEVEL_TEXT = ("Every generated configuration is loaded for real, its "
              "factories are called and the resulting logging objects, "
              "rendered records, emitted bytes and reopen/close effects are "
              "compared with an independent option-table model; bounded "
              "enumeration plus seeded sampling, no proof beyond the bounds.")
LEVEL_NOTE = ("Trusts the stdlib primitives (%, str.format, string.Template, "
              "time.strftime) used by the reference rendering, and the "
              "monitor's own weak-reference registry as the definition of "
              "'file handlers still alive'.")
TECHNIQUE = "runtime monitoring of logging state against a reference option table"
ASSUMPTIONS = [
    "reference model zcverif/ref/reflog.py encodes the documented level "
    "table, logfile option table and the per-style rendering",
    "an 'ordinary record' is a LogRecord built by the LogRecord constructor "
    "with string msg, tuple args, no exc_info and a function name",
    "acceptance of a format is demanded only for well-formed formats over "
    "LogRecord attributes (or arbitrary fields used type-neutrally); "
    "refusal only for unknown fields with arbitrary-fields off (not for "
    "safe-template, where docs and code disagree); everything else may go "
    "either way at load but, once accepted, must build and format",
    "unjudged: options given with zero/false/empty value on STDOUT/STDERR, "
    "interval on a standard stream, old-files/interval without "
    "max-size/when, max-size together with when, the text rendered by "
    "classic formats with a positional conversion (they display the whole "
    "record mapping), level spellings that are "
    "neither a documented name nor a plain integer, %c / :c conversions "
    "whose argument range depends on the platform (thread, process ids), "
    "records lacking an arbitrary field",
    "reopenFiles must reopen every registered, unclosed handler that holds "
    "an open stream and survives the call, and nothing that is closed, "
    "dead or foreign; handlers with a delayed, still unopened stream may "
    "or may not be touched",
]
FLOORS = {"quick": {"judged": 5500, "judged_levels": 380,
                    "judged_handlers": 1400, "judged_formats": 2800,
                    "judged_sequences": 1200, "second_calls": 4500,
                    "reopen_checked": 1500, "close_checked": 400,
                    "factory_reopen_checked": 100,
                    "foreign_handlers_checked": 300,
                    "latedir_checked": 18, "samepath_checked": 12},
          "thorough": {"judged": 60000, "judged_levels": 380,
                       "judged_handlers": 15000, "judged_formats": 35000,
                       "judged_sequences": 14000, "second_calls": 50000,
                       "reopen_checked": 20000, "close_checked": 4500,
                       "factory_reopen_checked": 1200,
                       "foreign_handlers_checked": 3000,
                       "latedir_checked": 18, "samepath_checked": 12}}
HOOK_FLOORS = {"quick": {"addHandler": 7000, "handler_init": 3000,
                         "handler_close": 3000, "handler_reopen": 1500},
               "thorough": {"addHandler": 80000, "handler_init": 35000,
                            "handler_close": 35000, "handler_reopen": 15000}}

SCHEMA = """<schema>
  <import package='ZConfig.components.logger'/>
  <section type='eventlog' name='*' attribute='eventlog'/>
  <multisection type='logger' name='*' attribute='loggers'/>
</schema>
"""

N_RANDOM_HANDLERS = {"quick": 2000, "thorough": 25000}
N_FORMAT_SAMPLE = {"quick": 5000, "thorough": None}       # None = all
N_FORMAT_RANDOM = {"quick": 1500, "thorough": 80000}
N_SEQUENCES = {"quick": 1500, "thorough": 20000}

HKEYS = ("path", "level", "style", "arbitrary-fields", "format",
         "dateformat", "max-size", "old-files", "when", "interval", "delay",
         "encoding", "formatter")
# formatter classes / factories that render exactly as the default does:
# naming one changes nothing the statement talks about
FORMATTERS = ["logging.Formatter", "zcverif_dt.fmt.PlainFormatter",
              "zcverif_dt.fmt.make",
              # ... and two without a 'style' parameter
              "zcverif_dt.fmt.OldStyle", "zcverif_dt.fmt.make_old"]

# handler sections other than <logfile> (no file, no connection made when
# the handler is built): they count for "one handler per handler section,
# in order", level and formatter
FOREIGN_KEYS = ("facility", "method", "url", "from", "to", "subject")
FOREIGN = {
    "syslog": ("SysLogHandler", "%(name)s %(message)s"),
    "http-logger": ("HTTPHandler",
                    "%(asctime)s %(levelname)s %(name)s %(message)s"),
    "email-notifier": ("SMTPHandler",
                       "%(asctime)s %(levelname)s %(name)s %(message)s"),
}

RECORDS = [
    {"name": "zcv.app", "level": 30, "pathname": "/srv/app/mod.py",
     "lineno": 77, "msg": "disk %s at %d%%", "args": ["sda", 91],
     "func": "check_disk"},
    {"name": "other", "level": 15, "pathname": "x.py", "lineno": 1,
     "msg": "héllo wörld {} $ %", "args": [], "func": "f"},
]
EXTRA_RECORD = {"name": "zcv.extra", "level": 40, "pathname": "/e.py",
                "lineno": 3, "msg": "with extras", "args": [], "func": "g",
                "extra": {"foo": 7, "user_id": "u17"}}
ASCII_RECORD = RECORDS[0]


def shards(tier):
    return 16


# --------------------------------------------------------------------------
# environment

class Env:
    def __init__(self, ctx):
        import ZConfig
        from ZConfig.components.logger import datatypes
        from ZConfig.components.logger import loghandler
        from ZConfig.loader import loadConfigFile
        from ZConfig.loader import loadSchemaFile
        self.ZConfig = ZConfig
        self.loghandler = loghandler
        self.datatypes = datatypes
        self.loadConfigFile = loadConfigFile
        self.schema = loadSchemaFile(io.StringIO(SCHEMA))
        self.ctx = ctx
        self.mon = logmon.LogMonitor(loghandler, ctx.res.hook)
        self.mon.install()
        self.ndirs = 0

    def newdir(self):
        self.ndirs += 1
        d = os.path.join(self.ctx.tmp, "case%d" % self.ndirs)
        os.makedirs(d)
        return d

    def close(self):
        self.mon.uninstall()


def make_record(spec):
    rec = logging.LogRecord(spec["name"], spec["level"], spec["pathname"],
                            spec["lineno"], spec["msg"], tuple(spec["args"]),
                            None, spec["func"])
    rec.__dict__.update(spec.get("extra", {}))
    return rec


def real_path(path, casedir):
    """STDOUT / STDERR stay symbolic; everything else (whatever its
    spelling) becomes an absolute path inside the case's scratch directory."""
    if path in reflog.STD:
        return path
    if path.startswith("FILE:"):
        path = path[5:]
    if path.startswith("late/"):
        # a directory that the late-directory scenario creates in time
        return os.path.join(casedir, "late", os.path.basename(path) or "log")
    return os.path.join(casedir, os.path.basename(path) or "log")


def render_text(case, casedir):
    """The configuration text a case denotes ('$' doubled: values undergo
    substitution)."""
    lines = []
    for lg in case["loggers"]:
        lines.append("<%s>" % lg["type"])
        for key in ("name", "level", "propagate"):
            if key in lg:
                lines.append("  %s %s" % (key, lg[key].replace("$", "$$")))
        for h in lg["handlers"]:
            sect = h.get("kind", "logfile")
            lines.append("  <%s>" % sect)
            for key in HKEYS + FOREIGN_KEYS:
                if key in h:
                    v = h[key]
                    if key == "path":
                        if sect != "logfile":
                            continue
                        v = real_path(v, casedir)
                    for one in (v if isinstance(v, list) else [v]):
                        lines.append("    %s %s" % (key,
                                                    one.replace("$", "$$")))
            lines.append("  </%s>" % sect)
        lines.append("</%s>" % lg["type"])
    return "\n".join(lines) + "\n"


# --------------------------------------------------------------------------
# expectation

def handler_expect(h):
    """-> dict(verdict in accept/reject/either/unjudged, plan, level, ...)"""
    e = {"why": []}
    verdicts = []
    if "level" in h:
        lv = reflog.level(h["level"])
        if lv[0] == "ok":
            e["level"] = lv[1]
        else:
            verdicts.append("reject" if lv[0] == "reject" else "unjudged")
            e["why"].append("level " + lv[0])
    else:
        e["level"] = reflog.HANDLER_LEVEL_DEFAULT
    foreign = h.get("kind", "logfile") != "logfile"
    if foreign:
        e["plan"] = {"cls": "foreign", "kind": h["kind"]}
    else:
        plan = reflog.handler_plan(h)
        if plan[0] == "accept":
            e["plan"] = plan[1]
        else:
            verdicts.append(plan[0])
            e["why"].append(plan[1])
    style = h.get("style", reflog.STYLE_DEFAULT).lower()
    arb = reflog.boolean(h["arbitrary-fields"]) \
        if "arbitrary-fields" in h else False
    fmt = h.get("format", FOREIGN[h["kind"]][1] if foreign
                else reflog.LOGFILE_FORMAT_DEFAULT)
    e["style"], e["arbitrary"], e["format"] = style, arb, fmt
    e["dateformat"] = h.get("dateformat", reflog.DATEFORMAT_DEFAULT)
    if style not in reflog.STYLES or arb is None:
        verdicts.append("unjudged")
        e["why"].append("style/arbitrary spelling")
    else:
        fe = reflog.format_expect(style, fmt, arb)
        e["format_expect"] = fe
        if fe[0] == "reject":
            verdicts.append("reject")
            e["why"].append(fe[1])
        elif fe[0] == "either":
            verdicts.append("either")
            e["why"].append(fe[1])
    for v in ("reject", "unjudged", "either"):
        if v in verdicts:
            e["verdict"] = v
            break
    else:
        e["verdict"] = "accept"
    return e


def config_expect(case):
    out = {"loggers": [], "why": []}
    verdicts = []
    for lg in case["loggers"]:
        e = {"handlers": []}
        if "level" in lg:
            lv = reflog.level(lg["level"])
            if lv[0] == "ok":
                e["level"] = lv[1]
            else:
                verdicts.append("reject" if lv[0] == "reject" else "unjudged")
                out["why"].append("logger level " + lv[0])
        else:
            e["level"] = reflog.LOGGER_LEVEL_DEFAULT
        if "propagate" in lg:
            p = reflog.boolean(lg["propagate"])
            if p is None:
                verdicts.append("unjudged")
            e["propagate"] = p
        else:
            e["propagate"] = reflog.PROPAGATE_DEFAULT
        for h in lg["handlers"]:
            he = handler_expect(h)
            e["handlers"].append(he)
            if he["verdict"] != "accept":
                verdicts.append(he["verdict"])
                out["why"].extend(he["why"])
        out["loggers"].append(e)
    # a refusal that is demanded dominates; otherwise anything unpinned
    # makes the load outcome unpinned
    if "reject" in verdicts:
        out["verdict"] = "reject"
    elif "unjudged" in verdicts:
        out["verdict"] = "unjudged"
    elif "either" in verdicts:
        out["verdict"] = "either"
    else:
        out["verdict"] = "accept"
    return out


# --------------------------------------------------------------------------
# signatures

_CLS = {}
for _n in ("name levelname pathname filename module funcName message asctime"
           .split()):
    _CLS[_n] = "S"
for _n in "levelno lineno thread process".split():
    _CLS[_n] = "I"
for _n in "created msecs relativeCreated".split():
    _CLS[_n] = "F"
for _n in "threadName processName msg args taskName exc_info".split():
    _CLS[_n] = "L"


def shape(style, fmt):
    s = fmt
    names = sorted(set(reflog.fields(style, reflog.unescape(fmt))),
                   key=lambda n: (-len(n), n))
    for n in names:
        s = s.replace(n, _CLS.get(n, "U"))
    s = re.sub(r"[a-z]{2,}", "a", s)
    s = re.sub(r"\d+", "9", s)
    return s[:40]


def exc_brief(e):
    return "%s: %s" % (type(e).__name__, str(e)[:120])


def in_logging_validate(tb):
    for fs in traceback.extract_tb(tb):
        if fs.name == "validate" and \
                os.path.basename(os.path.dirname(fs.filename)) == "logging":
            return True
    return False


# --------------------------------------------------------------------------
# one configuration case

class Abort(Exception):
    pass


def run_config_case(env, case, res, attribute=True):
    """Load the configuration the case denotes, call its factories and
    compare with the reference.  Violations go to *res*."""
    res.evaluations += 1
    family = case.get("family", "config")
    exp = config_expect(case)
    needs_dir = any(h["path"].startswith("FILE:")
                    for lg in case["loggers"] for h in lg["handlers"])
    casedir = env.newdir() if needs_dir else env.ctx.tmp
    text = render_text(case, casedir)
    via = case.get("via", "schema")
    mon = env.mon
    fake_out, fake_err = io.StringIO(), io.StringIO()
    try:
        with logmon.Sandbox(env.loghandler):
            mon.clear()
            _config_body(env, case, res, exp, text, via, casedir, family,
                         fake_out, fake_err, attribute)
    except Abort:
        pass
    finally:
        mon.forget_all()
        if needs_dir:
            shutil.rmtree(casedir, ignore_errors=True)


def _config_body(env, case, res, exp, text, via, casedir, family, fake_out,
                 fake_err, attribute):
    mon = env.mon
    verdict = exp["verdict"]
    # ---- load -------------------------------------------------------------
    cfg = None
    load_exc = None
    sys.stdout, sys.stderr = fake_out, fake_err
    try:
        if via == "configureLoggers":
            env.ZConfig.configureLoggers(text)
        else:
            cfg, _ = env.loadConfigFile(env.schema, io.StringIO(text))
    except Exception as e:  # noqa - any refusal counts, C07 judges its class
        load_exc = e
    finally:
        sys.stdout, sys.stderr = _real_std
    accepted = load_exc is None
    res.count("accepted" if accepted else "rejected")
    sigbase = "%s|%s|%s" % (family, verdict, "acc" if accepted else
                            "rej:" + type(load_exc).__name__)

    if verdict == "unjudged":
        res.count("unjudged")
        res.sig(sigbase + "|" + case_shape(case))
        res.sample("unjudged", {"case": case, "why": exp["why"][:2],
                                "accepted": accepted}, 1)
        return
    if verdict == "reject":
        res.count("judged")
        res.count("judged_" + family)
        res.count("expect_reject")
        res.sig(sigbase + "|" + case_shape(case))
        res.sample("rejected", {"case": case, "why": exp["why"][:2]}, 1)
        if accepted:
            res.violate("accepted-but-must-refuse", case, "refused at load: "
                        + "; ".join(exp["why"][:3]), "accepted",
                        detail=text, vsig="must-refuse|" + case_shape(case))
        return
    if not accepted:
        if verdict == "either":
            res.count("unjudged")
            res.count("either_rejected")
            res.sig(sigbase + "|" + case_shape(case))
            res.sample("either-rejected", {"case": case,
                                           "why": exp["why"][:2],
                                           "load": exc_brief(load_exc)}, 1)
            return
        res.count("judged")
        res.count("judged_" + family)
        res.violate("refused-but-must-accept", case, "accepted",
                    exc_brief(load_exc), detail=text,
                    vsig="must-accept|" + case_shape(case))
        return

    # ---- accepted: the setup must be exactly the configured one -----------
    res.count("judged")
    res.count("judged_" + family)
    if verdict == "either":
        res.count("either_accepted")
    res.sample("accepted", {"case": case}, 1)
    if via == "configureLoggers":
        res.count("via_configureLoggers")
        inits = mon.serials("init")
        seen = []
        for spec, e in zip(case["loggers"], exp["loggers"]):
            lg = logging.getLogger(spec.get("name"))
            seen += check_logger(env, case, res, spec, e, lg, [],
                                 mon.added(lg), casedir, fake_out, fake_err)
        check_init_hook(res, case, seen, inits)
        res.sig(sigbase + "|cl|" + case_shape(case))
        return

    factories = []
    specs = []
    loggers_iter = iter(cfg.loggers)
    for spec, e in zip(case["loggers"], exp["loggers"]):
        if spec["type"] == "eventlog":
            factories.append(cfg.eventlog)
        else:
            factories.append(next(loggers_iter))
        specs.append((spec, e))
    outcome = "ok"
    for f, (spec, e) in zip(factories, specs):
        name = spec.get("name") if spec["type"] == "logger" else None
        existing = logging.getLogger() if name is None else \
            logging.Logger.manager.loggerDict.get(name)
        before = list(existing.handlers) \
            if isinstance(existing, logging.Logger) else []
        mon.clear()
        sys.stdout, sys.stderr = fake_out, fake_err
        try:
            lg = f()
        except Exception as exc:  # noqa
            sys.stdout, sys.stderr = _real_std
            outcome = "factory-raised"
            factory_failed(env, case, res, spec, exc, attribute)
            break
        finally:
            sys.stdout, sys.stderr = _real_std
        res.count("factory_calls")
        hook_added = mon.added(lg) if isinstance(lg, logging.Logger) else []
        inits = mon.serials("init")
        seen = check_logger(env, case, res, spec, e, lg, before, hook_added,
                            casedir, fake_out, fake_err)
        check_init_hook(res, case, seen, inits)
        # second call: same object, nothing added
        handlers_now = list(lg.handlers)
        mon.clear()
        try:
            lg2 = f()
        except Exception as exc:  # noqa
            res.violate("second-call-raised", case, "same logger",
                        exc_brief(exc), vsig="second-call-raised")
            break
        res.count("second_calls")
        if lg2 is not lg or mon.added(lg) or mon.serials("init") or \
                len(lg.handlers) != len(handlers_now) or \
                any(a is not b for a, b in zip(lg.handlers, handlers_now)):
            res.violate("second-call-not-idempotent", case,
                        "same logger object, no handler added",
                        {"same_object": lg2 is lg,
                         "handlers_before": len(handlers_now),
                         "handlers_after": len(lg.handlers),
                         "addHandler_calls": len(mon.added(lg))},
                        detail=text, vsig="second-call")
    res.sig("%s|%s|%s" % (sigbase, outcome, case_shape(case)))


_real_std = (sys.stdout, sys.stderr)


def case_shape(case):
    parts = []
    for lg in case["loggers"][:3]:
        hs = []
        for h in lg["handlers"][:3]:
            if case.get("family") == "formats":
                st = h.get("style", "classic")
                hs.append("%s/%s/%s" % (st[:2], h.get("arbitrary-fields",
                                                      "-")[:1],
                                        shape(st, h.get("format", ""))))
            else:
                p = h["path"]
                if h.get("kind", "logfile") != "logfile":
                    hs.append("X" + h["kind"][:1])
                    continue
                hs.append("%s%s%s%s%s%s" % (
                    p if p in reflog.STD else "F",
                    "s" if "max-size" in h else "",
                    "w" if "when" in h else "",
                    "o" + h["old-files"][:1] if "old-files" in h else "",
                    "d" + h["delay"][:2].lower() if "delay" in h else "",
                    "e" + h["encoding"][-2:] if "encoding" in h else ""))
        lv = ""
        if case.get("family") == "levels":
            lv = "L=" + lg.get("level", "-").lower() + "/" + ",".join(
                h.get("level", "-") for h in lg["handlers"]).lower()
            lv += "/" + casing(lg.get("level", "") + "".join(
                h.get("level", "") for h in lg["handlers"]))
        parts.append("%s[%s]%s" % (lg["type"][0], ",".join(hs), lv))
    return ";".join(parts)


def casing(s):
    if s.islower():
        return "lower"
    if s.isupper():
        return "upper"
    if any(c.isalpha() for c in s):
        return "mixed"
    return "num"


def factory_failed(env, case, res, spec, exc, attribute):
    """The factory of an accepted configuration raised."""
    mech = None
    if attribute:
        mech = classify_factory_failure(env, case, spec, exc)
    kinds = sorted({shape(h.get("style", "classic"), h.get("format", ""))
                    for h in spec["handlers"]})
    res.count("factory_raised")
    if mech:
        res.count("known_" + mech)
        res.sample("defect-" + mech, {"case": case, "raised": exc_brief(exc)},
                   1)
    res.violate("accepted-config-factory-raises", case,
                "factory returns the configured logger", exc_brief(exc),
                detail="".join(traceback.format_exception_only(type(exc),
                                                               exc))[:300],
                mechanism=mech,
                vsig=("factory-raises|%s|%s" % (mech, ",".join(sorted(
                    {h.get("style", "classic") for h in spec["handlers"]})))
                      if mech else
                      "factory-raises|%s" % ",".join(kinds)[:80]))


def fieldless(h):
    style = h.get("style", "classic").lower()
    fmt = reflog.unescape(h.get("format", reflog.LOGFILE_FORMAT_DEFAULT))
    return style != "safe-template" and not reflog.fields(style, fmt)


_STDLIB_STYLE = {"classic": "%", "format": "{", "template": "$"}
_PLAIN = {"classic": "%(message)s", "format": "{message}",
          "template": "${message}"}


def refused_by_stdlib(h):
    """Does logging.Formatter itself refuse this handler's format?"""
    style = h.get("style", "classic").lower()
    if style not in _STDLIB_STYLE:
        return False
    fmt = reflog.unescape(h.get("format", reflog.LOGFILE_FORMAT_DEFAULT))
    try:
        logging.Formatter(fmt, None, style=_STDLIB_STYLE[style])
    except ValueError:
        return True
    return False


def classify_factory_failure(env, case, spec, exc):
    """Mechanism slug of a known defect, from features of the input and of
    the failure (never from a hash or seed), confirmed by a neutraliser.

    Predicate: the configuration was accepted at load; the factory raised
    ValueError out of logging's own format validation; the failing logger
    has a handler whose format logging.Formatter refuses when given it
    directly.  format-without-named-field: every such format contains,
    after removing escapes, no named field reference of its style.
    Neutraliser: replace exactly those formats by the style's plain message
    reference; the case must then pass every check."""
    if not isinstance(exc, ValueError) or \
            not in_logging_validate(exc.__traceback__):
        return None
    culprits = [h for h in spec["handlers"] if refused_by_stdlib(h)]
    if not culprits:
        return None
    fixed = copy.deepcopy(case)
    for lg in fixed["loggers"]:
        for h in lg["handlers"]:
            if refused_by_stdlib(h):
                h["format"] = _PLAIN[h.get("style", "classic").lower()]
    from ..core.shard import Result
    scratch = Result(ID)
    try:
        run_config_case(env, fixed, scratch, attribute=False)
    except Exception:  # noqa
        return None
    if scratch.violations:
        return None
    if all(fieldless(h) for h in culprits):
        return "format-without-named-field"
    return "format-refused-by-logging-validator"


# -- the logger and its handlers ---------------------------------------------

def check_init_hook(res, case, seen_serials, file_serials):
    if seen_serials != file_serials:
        res.violate("file-handlers-vs-init-hook", case, seen_serials,
                    file_serials, detail="file handlers attached to the "
                    "logger(s), in order, against the constructor hook",
                    vsig="init-hook")


def check_logger(env, case, res, spec, e, lg, before, hook_added, casedir,
                 fake_out, fake_err, emit=True):
    """-> serial numbers of the component file handlers found attached."""
    bad = {}
    if spec["type"] == "eventlog":
        want = logging.getLogger()
        want_name = "root"
    elif spec.get("name") is None:
        want = logging.getLogger()
        want_name = "root"
    else:
        want = logging.getLogger(spec["name"])
        want_name = spec["name"]
    if lg is not want or not isinstance(lg, logging.Logger):
        res.violate("wrong-logger-object", case, "logger %r" % want_name,
                    repr(lg), vsig="wrong-logger")
        raise Abort()
    if lg.name != want_name:
        bad["name"] = (want_name, lg.name)
    if lg.level != e["level"] or type(lg.level) is not int:
        bad["level"] = (e["level"], lg.level)
    if spec["type"] == "logger" and lg.propagate != e["propagate"]:
        bad["propagate"] = (e["propagate"], lg.propagate)
    if bad:
        res.violate("logger-attributes", case,
                    {k: v[0] for k, v in bad.items()},
                    {k: v[1] for k, v in bad.items()},
                    vsig="logger-attrs|" + ",".join(sorted(bad)))
    # handlers added by the call: difference of the list, and the hook
    now = list(lg.handlers)
    if len(now) < len(before) or any(a is not b
                                     for a, b in zip(now, before)):
        res.violate("existing-handlers-disturbed", case, len(before),
                    len(now), vsig="handlers-disturbed")
        raise Abort()
    added = now[len(before):]
    if len(added) != len(hook_added) or any(a is not b for a, b in
                                            zip(added, hook_added)):
        res.violate("handler-list-vs-addHandler-hook", case,
                    [type(h).__name__ for h in hook_added],
                    [type(h).__name__ for h in added],
                    vsig="list-vs-hook")
    hexp = e["handlers"]
    if not hexp:
        ok = added == [] or (len(added) == 1 and
                             isinstance(added[0], logging.NullHandler))
        if not ok:
            res.violate("handlers-without-sections", case,
                        "no handler (or the NullHandler placeholder)",
                        [type(h).__name__ for h in added],
                        vsig="no-sections")
        return []
    if len(added) != len(hexp):
        res.violate("handler-count", case, len(hexp),
                    [type(h).__name__ for h in added],
                    detail="one handler per handler section",
                    vsig="handler-count|%d|%d" % (len(hexp), len(added)))
        raise Abort()
    if len(set(map(id, added))) != len(added):
        res.violate("handler-count", case, "distinct handlers",
                    "same handler twice", vsig="handler-dup")
        raise Abort()
    seen_serials = []
    for idx, (h, hspec, he) in enumerate(zip(added, spec["handlers"], hexp)):
        check_handler(env, case, res, idx, h, hspec, he, casedir, fake_out,
                      fake_err, seen_serials, emit)
    return seen_serials


def check_handler(env, case, res, idx, h, hspec, he, casedir, fake_out,
                  fake_err, seen_serials, emit=True):
    plan = he["plan"]
    bad = {}
    if h.level != he["level"]:
        bad["level"] = (he["level"], h.level)
    cls = plan["cls"]
    if cls == "foreign":
        emit = False
        want_name = FOREIGN[plan["kind"]][0]
        if type(h).__name__ != want_name:
            bad["class"] = (want_name, type(h).__module__ + "." +
                            type(h).__name__)
        elif plan["kind"] == "syslog":
            import logging.handlers as lh
            fac = hspec.get("facility", "user").lower()
            if h.facility != lh.SysLogHandler.facility_names.get(fac) and \
                    h.facility != fac:
                bad["facility"] = (fac, h.facility)
        elif plan["kind"] == "http-logger":
            if h.method != hspec.get("method", "GET").upper():
                bad["method"] = (hspec.get("method", "GET").upper(),
                                 h.method)
            if (h.host, h.url) != ("localhost", "/"):
                bad["url"] = (("localhost", "/"), (h.host, h.url))
        else:
            got = (h.fromaddr, list(h.toaddrs), h.subject)
            want = (hspec["from"], list(hspec["to"]),
                    hspec.get("subject", "Message from Zope"))
            if got != want:
                bad["mail"] = (want, got)
        res.count("foreign_handlers_checked")
    elif cls == "stream":
        fake = fake_out if plan["stream"] == "stdout" else fake_err
        if not isinstance(h, logging.StreamHandler) or \
                isinstance(h, logging.FileHandler):
            bad["class"] = ("StreamHandler", type(h).__name__)
        elif h.stream is not fake:
            bad["stream"] = ("sys." + plan["stream"], "another stream")
    else:
        path = real_path(hspec["path"], casedir)
        want_cls = {"file": logging.FileHandler,
                    "rotating": logging.handlers.RotatingFileHandler,
                    "timed": logging.handlers.TimedRotatingFileHandler}[cls]
        serial = env.mon.serial_of(h)
        if serial is not None:
            seen_serials.append(serial)
        if not isinstance(h, want_cls) or (
                cls == "file" and
                isinstance(h, logging.handlers.BaseRotatingHandler)):
            bad["class"] = (want_cls.__name__, type(h).__name__)
        else:
            if serial is None:
                bad["registered"] = ("constructed through the component's "
                                     "reopenable handler classes",
                                     type(h).__module__ + "." +
                                     type(h).__name__)
            if os.path.abspath(h.baseFilename) != os.path.abspath(path):
                bad["path"] = (path, h.baseFilename)
            if h.encoding != plan["encoding"] and not (
                    plan["encoding"] is None and h.encoding is not None):
                # no encoding configured: the platform default may be
                # filled in by the library
                bad["encoding"] = (plan["encoding"], h.encoding)
            if plan["delay"]:
                if h.stream is not None or os.path.exists(path):
                    bad["delay"] = ("file not opened before the first "
                                    "record", "stream=%r exists=%s" %
                                    (h.stream, os.path.exists(path)))
            elif h.stream is None:
                bad["delay"] = ("opened", "no stream")
            if cls == "rotating":
                if (h.maxBytes, h.backupCount) != (plan["maxBytes"],
                                                   plan["backupCount"]):
                    bad["rotation"] = ((plan["maxBytes"],
                                        plan["backupCount"]),
                                       (h.maxBytes, h.backupCount))
            elif cls == "timed":
                ref = logging.handlers.TimedRotatingFileHandler(
                    os.path.join(casedir, "ref-not-opened.log"),
                    when=plan["when"], interval=plan["interval"],
                    backupCount=plan["backupCount"], delay=True)
                got = (h.when, h.interval, h.backupCount)
                want = (ref.when, ref.interval, ref.backupCount)
                ref.close()
                if got != want:
                    bad["rotation"] = (want, got)
    if bad:
        res.violate("handler-attributes", case,
                    {k: v[0] for k, v in bad.items()},
                    {k: v[1] for k, v in bad.items()},
                    detail="handler #%d" % idx,
                    vsig="handler-attrs|" + ",".join(sorted(bad)))
        if "class" in bad:
            return
    # ---- formatting --------------------------------------------------------
    style, fmt = he["style"], reflog.unescape(he["format"])
    if reflog.has_positional(style, fmt):
        # shows the whole record mapping; only "does not raise" is pinned
        emit = False
    specs = list(RECORDS)
    if he["arbitrary"]:
        specs.append(EXTRA_RECORD)
    for rspec in specs:
        rec = make_record(rspec)
        want = reflog.render(style, fmt, reflog.record_dict(
            rec, he["dateformat"]))
        try:
            got = ("ok", h.format(rec))
        except Exception as exc:  # noqa
            got = ("raise", type(exc).__name__, str(exc)[:100])
        res.count("formats_rendered")
        compare_rendering(res, case, idx, he, rspec, want, got)
    # ---- emission ----------------------------------------------------------
    if not emit:
        return
    rspec = ASCII_RECORD if (cls == "stream" or not plan["encoding"]) \
        else RECORDS[1]
    rec = make_record(rspec)
    want = reflog.render(style, fmt, reflog.record_dict(rec,
                                                        he["dateformat"]))
    if want[0] != "ok":
        return
    try:
        want[1].encode("ascii" if cls == "stream" or not plan["encoding"]
                       else plan["encoding"])
    except UnicodeError:
        res.count("emission_skipped_unencodable")
        return
    if cls == "stream":
        start = len(fake.getvalue())
        old = logging.raiseExceptions
        try:
            h.handle(rec)
        except Exception as exc:  # noqa
            res.violate("emit-raised", case, want[1], exc_brief(exc),
                        vsig="emit-raised")
            return
        finally:
            logging.raiseExceptions = old
        got = fake.getvalue()[start:]
        res.count("emitted_stream")
        if got != want[1] + "\n":
            res.violate("emitted-text", case, want[1] + "\n", got,
                        detail="handler #%d wrote to its stream" % idx,
                        vsig="emitted-stream")
    else:
        path = real_path(hspec["path"], casedir)
        try:
            h.handle(rec)
            h.flush()
            with open(path, "rb") as f:
                data = f.read()
        except Exception as exc:  # noqa
            res.violate("emit-raised", case, want[1], exc_brief(exc),
                        vsig="emit-raised")
            return
        res.count("emitted_file")
        enc = plan["encoding"] or "ascii"
        try:
            got = data.decode(enc)
        except UnicodeDecodeError:
            got = repr(data)
        if got.lstrip("﻿") != want[1] + "\n":
            res.violate("emitted-text", case, want[1] + "\n", got,
                        detail="handler #%d wrote to %s (encoding %s)"
                        % (idx, hspec["path"], enc), vsig="emitted-file")


def compare_rendering(res, case, idx, he, rspec, want, got):
    arb = he["arbitrary"]
    if want[0] == "ok" and got[0] == "ok" and reflog.has_positional(
            he["style"], reflog.unescape(he["format"])):
        res.count("unjudged_renderings")
        return
    if want[0] == "ok":
        if got[0] == "ok" and got[1] == want[1]:
            res.count("renderings_agree")
            return
        kind = "format-rendering" if got[0] == "ok" else \
            "accepted-format-raises-on-record"
        res.violate(kind, case, want[1], got[1:] if got[0] != "ok"
                    else got[1],
                    detail="handler #%d style=%s format=%r record=%r"
                    % (idx, he["style"], he["format"], rspec["name"]),
                    vsig="%s|%s|%s" % (kind, he["style"],
                                       shape(he["style"], he["format"])))
        return
    # the reference itself cannot render this record
    if want[2] == "missing-field" and arb:
        res.count("unjudged_renderings")        # record lacks the extra field
        return
    if arb or got[0] == "ok":
        res.count("unjudged_renderings")
        return
    # arbitrary-fields off, accepted at load, and an ordinary record raises
    res.violate("accepted-format-raises-on-record", case,
                "an ordinary record is formatted without raising",
                list(got[1:]),
                detail="handler #%d style=%s format=%r; the reference "
                "rendering fails too: %s" % (idx, he["style"], he["format"],
                                             want[1:]),
                vsig="raises-on-record|%s|%s" % (he["style"],
                                                 shape(he["style"],
                                                       he["format"])))


# --------------------------------------------------------------------------
# level datatype called directly

def run_level_direct(env, case, res):
    res.evaluations += 1
    sp = case["spelling"]
    if isinstance(sp, int):
        # a level given as a number (a default computed by the application,
        # logging.DEBUG ...): the same range, the same answer
        want = reflog.level(str(sp))
        arg = sp
        sp = str(sp)
        res.count("levels_given_as_int")
    else:
        want = reflog.level(sp)
        arg = sp
    try:
        got = ("ok", env.datatypes.logging_level(arg))
    except ValueError as exc:
        got = ("reject", exc_brief(exc))
    except Exception as exc:  # noqa
        got = ("raise", exc_brief(exc))
    if want[0] == "unjudged":
        res.count("unjudged")
        res.count("unjudged_direct")
        return
    res.count("judged")
    res.count("judged_levels")
    res.sig("direct|%s|%s" % (sp.lower(), casing(sp)))
    if want[0] != got[0] or (want[0] == "ok" and (
            want[1] != got[1] or type(got[1]) is not int)):
        res.violate("level-table", case, list(want), list(got),
                    detail="logging_level(%r)" % sp,
                    vsig="level-direct|%s" % sp.lower())


# --------------------------------------------------------------------------
# operation sequences

def run_seq_case(env, case, res):
    res.evaluations += 1
    mon = env.mon
    casedir = env.newdir()
    text = render_text(case, casedir)
    gc_inside = bool(case.get("gc_inside"))
    gc_was = gc.isenabled()
    try:
        with logmon.Sandbox(env.loghandler):
            mon.clear()
            if gc_inside:
                gc.collect()
                gc.disable()
            try:
                ok = _seq_body(env, case, res, text, casedir, gc_inside)
            except Abort:
                ok = False
            finally:
                mon.gc_inside_reopen = False
                mon.clear()
        if ok:
            res.count("judged")
            res.count("judged_sequences")
    finally:
        if gc_was:
            gc.enable()
        mon.forget_all()
        gc.collect()
        shutil.rmtree(casedir, ignore_errors=True)


def run_latedir_case(env, case, res):
    """A logger whose later handler cannot be built at the first call (its
    directory does not exist yet).  The call fails; the directory appears;
    the next call succeeds.  From then on the logger has exactly one handler
    per section, all alive and registered: reopenFiles() reopens every one,
    closeFiles() closes every one."""
    res.evaluations += 1
    mon = env.mon
    casedir = env.newdir()
    text = render_text(case, casedir)
    spec = case["loggers"][0]
    late = os.path.join(casedir, "late")
    try:
        with logmon.Sandbox(env.loghandler):
            mon.clear()
            try:
                cfg, _ = env.loadConfigFile(env.schema, io.StringIO(text))
            except Exception as exc:  # noqa
                res.violate("refused-but-must-accept", case, "accepted",
                            exc_brief(exc), detail=text, vsig="late-load")
                return
            f = cfg.loggers[0]
            kept = None
            try:
                f()
                first = "returned"
            except Exception as exc:  # noqa
                first = type(exc).__name__
                kept = exc
            # while the application still holds that exception (it is
            # reporting it, say) the log files are reopened: only handlers
            # that exist are touched - a handler whose file could not be
            # opened is not one of them
            mon.clear()
            try:
                env.loghandler.reopenFiles()
            except OSError:
                pass
            except Exception as exc2:  # noqa
                res.violate("reopenFiles-raises", case,
                            "reopens the handlers that exist",
                            exc_brief(exc2),
                            detail="called while the exception of a failed "
                            "factory call (%s) was still held" % first,
                            vsig="late-held|%s" % type(exc2).__name__)
                return
            del kept
            mon.clear()
            res.sig("latedir|%s|%s" % (first, "".join(
                seq_handler_letter(h) for h in spec["handlers"])))
            os.makedirs(late)
            try:
                lg = f()
            except Exception as exc:  # noqa
                res.violate("accepted-config-factory-raises", case,
                            "the configured logger once the directory "
                            "exists", exc_brief(exc), vsig="late-second")
                return
            hs = list(lg.handlers)
            serials = [mon.serial_of(h) for h in hs]
            paths = [os.path.basename(getattr(h, "baseFilename", "?"))
                     for h in hs]
            want = [os.path.basename(real_path(h["path"], casedir))
                    for h in spec["handlers"]]
            if paths != want or None in serials or \
                    len(set(serials)) != len(serials):
                res.violate("handler-count", case, want, paths,
                            detail="after a first call that failed with %s "
                            "and a second that succeeded" % first,
                            vsig="late-handlers")
                return
            pre = {s_: mon.get(s_).stream for s_ in serials}
            mon.clear()
            env.loghandler.reopenFiles()
            touched = mon.serials("reopen")
            mon.clear()
            if sorted(touched) != sorted(serials):
                res.violate("reopenFiles-wrong-handler-set", case,
                            {"must_reopen": sorted(serials)},
                            {"reopened": touched},
                            detail="all %d file handlers are attached and "
                            "alive (first call failed with %s)"
                            % (len(serials), first), vsig="late-reopen")
                return
            for h in hs:
                h.handle(make_record(ASCII_RECORD))
            env.loghandler.closeFiles()
            left = [os.path.basename(h.baseFilename) for h in hs
                    if h.stream is not None and not h.stream.closed]
            if left:
                res.violate("closeFiles-stream-left-open", case,
                            "every attached file handler closed", left,
                            detail="first call failed with %s" % first,
                            vsig="late-close")
                return
            del pre
            res.count("judged")
            res.count("latedir_checked")
    finally:
        mon.forget_all()
        gc.collect()
        shutil.rmtree(casedir, ignore_errors=True)


def run_obstacle_case(env, case, res):
    """All handlers are built.  The directory of some of them is moved away;
    reopenFiles() runs into it (whatever it raises); the directory comes
    back; from then on reopenFiles() reopens and closeFiles() closes every
    handler that is alive - none of them was forgotten on the way."""
    res.evaluations += 1
    mon = env.mon
    casedir = env.newdir()
    text = render_text(case, casedir)
    spec = case["loggers"][0]
    late = os.path.join(casedir, "late")
    os.makedirs(late)
    try:
        with logmon.Sandbox(env.loghandler):
            mon.clear()
            try:
                cfg, _ = env.loadConfigFile(env.schema, io.StringIO(text))
                lg = cfg.loggers[0]()
            except Exception as exc:  # noqa
                res.violate("refused-but-must-accept", case, "accepted",
                            exc_brief(exc), detail=text, vsig="obst-load")
                return
            hs = list(lg.handlers)
            serials = [mon.serial_of(h) for h in hs]
            for h in hs:
                h.handle(make_record(ASCII_RECORD))
            away = late + ".away"
            os.rename(late, away)
            try:
                env.loghandler.reopenFiles()
                first = "returned"
            except Exception as exc:  # noqa
                first = type(exc).__name__
            res.sig("obstacle|%s|%s" % (first, "".join(
                seq_handler_letter(h) for h in spec["handlers"])))
            os.rename(away, late)
            mon.clear()
            try:
                env.loghandler.reopenFiles()
            except Exception as exc:  # noqa
                res.violate("reopenFiles-raises", case,
                            "every live handler reopened (the directory is "
                            "back)", exc_brief(exc), vsig="obst-second")
                return
            touched = mon.serials("reopen")
            mon.clear()
            if sorted(touched) != sorted(serials):
                res.violate("reopenFiles-wrong-handler-set", case,
                            {"must_reopen": sorted(serials)},
                            {"reopened": touched},
                            detail="all %d file handlers are attached and "
                            "alive; an earlier reopenFiles() met a missing "
                            "directory (%s)" % (len(serials), first),
                            vsig="obst-reopen")
                return
            for h in hs:
                h.handle(make_record(ASCII_RECORD))
            env.loghandler.closeFiles()
            left = [os.path.basename(h.baseFilename) for h in hs
                    if h.stream is not None and not h.stream.closed]
            if left:
                res.violate("closeFiles-stream-left-open", case,
                            "every attached file handler closed", left,
                            detail="an earlier reopenFiles() met a missing "
                            "directory (%s)" % first, vsig="obst-close")
                return
            res.count("judged")
            res.count("obstacle_checked")
    finally:
        mon.forget_all()
        gc.collect()
        shutil.rmtree(casedir, ignore_errors=True)


def run_samepath_case(env, case, res):
    """Several handler sections (of one logger or of several) name the same
    file: each is a handler of its own, alive and registered; reopenFiles()
    reopens every one of them, closeFiles() closes every one."""
    res.evaluations += 1
    mon = env.mon
    casedir = env.newdir()
    text = render_text(case, casedir)
    try:
        with logmon.Sandbox(env.loghandler):
            mon.clear()
            try:
                cfg, _ = env.loadConfigFile(env.schema, io.StringIO(text))
                loggers = [f() for f in cfg.loggers]
            except Exception as exc:  # noqa
                res.violate("refused-but-must-accept", case, "accepted",
                            exc_brief(exc), detail=text, vsig="same-load")
                return
            hs = [h for lg in loggers for h in lg.handlers]
            want = sum(len(lg["handlers"]) for lg in case["loggers"])
            serials = [mon.serial_of(h) for h in hs]
            if len(hs) != want or None in serials or \
                    len(set(serials)) != len(serials):
                res.violate("handler-count", case, want,
                            [type(h).__name__ for h in hs],
                            detail="handler sections naming one file",
                            vsig="same-handlers")
                return
            for h in hs:
                h.handle(make_record(ASCII_RECORD))     # opens delayed ones
            pre = {s_: mon.get(s_).stream for s_ in serials}
            mon.clear()
            env.loghandler.reopenFiles()
            touched = mon.serials("reopen")
            mon.clear()
            if sorted(touched) != sorted(serials):
                res.violate("reopenFiles-wrong-handler-set", case,
                            {"must_reopen": sorted(serials)},
                            {"reopened": touched},
                            detail="%d live handlers write to one file"
                            % len(serials), vsig="same-reopen")
                return
            stale = [s_ for s_ in serials if pre[s_] is not None and
                     (not pre[s_].closed or mon.get(s_).stream is pre[s_])]
            if stale:
                res.violate("reopenFiles-old-stream-open", case,
                            "every handler on a fresh stream", stale,
                            vsig="same-stale")
                return
            env.loghandler.closeFiles()
            left = [s_ for s_, h in zip(serials, hs)
                    if h.stream is not None and not h.stream.closed]
            if left:
                res.violate("closeFiles-stream-left-open", case,
                            "every handler closed", left, vsig="same-close")
                return
            res.count("judged")
            res.count("samepath_checked")
    finally:
        mon.forget_all()
        gc.collect()
        shutil.rmtree(casedir, ignore_errors=True)


def run_reentry_case(env, case, res):
    """While the factory of one logger section builds its handlers, the
    formatter class of one of them calls the factory of another logger
    section.  Both loggers end up with exactly their own handlers, one per
    section and in order."""
    import zcverif_dt.fmt as zfmt
    res.evaluations += 1
    mon = env.mon
    casedir = env.newdir()
    text = render_text(case, casedir)
    try:
        with logmon.Sandbox(env.loghandler):
            mon.clear()
            try:
                zfmt.HookFormatter.HOOK[0] = None
                cfg, _ = env.loadConfigFile(env.schema, io.StringIO(text))
            except Exception as exc:  # noqa
                res.violate("refused-but-must-accept", case, "accepted",
                            exc_brief(exc), detail=text, vsig="reentry-load")
                return
            fa, fb = cfg.loggers[0], cfg.loggers[1]
            inner = []

            def hook():
                inner.append(fb())
            zfmt.HookFormatter.HOOK[0] = hook
            try:
                la = fa()
                lb = fb()
            except Exception as exc:  # noqa
                res.violate("factory-raised", case, "two loggers",
                            exc_brief(exc), vsig="reentry-raise")
                return
            finally:
                zfmt.HookFormatter.HOOK[0] = None
            res.sig("reentry|%d|%d" % (len(case["loggers"][0]["handlers"]),
                                       len(inner)))
            for lg, spec in ((la, case["loggers"][0]),
                             (lb, case["loggers"][1])):
                want = [real_path(h["path"], casedir)
                        for h in spec["handlers"]]
                got = []
                for h in lg.handlers:
                    st = getattr(h, "stream", None)
                    got.append(getattr(h, "baseFilename", None) or
                               {id(sys.stdout): "STDOUT",
                                id(sys.stderr): "STDERR"}.get(id(st), "?"))
                if len(got) != len(want) or any(
                        w not in ("STDOUT", "STDERR") and g != w
                        for g, w in zip(got, want)):
                    res.violate("handlers-differ-from-sections", case,
                                want, got,
                                detail="logger %s after a factory call "
                                "nested in another factory call"
                                % spec["name"],
                                vsig="reentry|%s" % (len(got) - len(want)))
                    return
            if inner and inner[0] is not lb:
                res.violate("second-call-other-logger", case, "same logger",
                            "another object", vsig="reentry-same")
                return
            env.loghandler.closeFiles()
            res.count("judged")
            res.count("reentry_checked")
    finally:
        zfmt.HookFormatter.HOOK[0] = None
        mon.forget_all()
        gc.collect()
        shutil.rmtree(casedir, ignore_errors=True)


def reentry_cases():
    n = 0
    fmt = {"style": "classic", "format": "%(levelname)s %(message)s"}
    for na in (1, 2, 3, 4):
        for pos in range(na):
            for nb in (1, 2):
                n += 1
                ha = []
                for j in range(na):
                    h = dict(fmt, path="FILE:a%d.log" % j)
                    if j == pos:
                        h["formatter"] = "zcverif_dt.fmt.HookFormatter"
                    ha.append(h)
                hb = [dict(fmt, path="FILE:b%d.log" % j) for j in range(nb)]
                yield {"kind": "reentry", "loggers": [
                    {"type": "logger", "name": "zcvr%d.a" % n,
                     "handlers": ha},
                    {"type": "logger", "name": "zcvr%d.b" % n,
                     "handlers": hb}]}


def samepath_cases():
    n = 0
    fmt = {"style": "classic", "format": "%(levelname)s %(message)s"}
    for kinds in (("f", "f"), ("f", "s"), ("s", "t"), ("f", "F"),
                  ("f", "f", "f"), ("t", "f", "s")):
        for split in (False, True):
            n += 1
            hs = []
            for kd in kinds:
                opts = dict([x for x in SEQ_HANDLERS if x[0] == kd][0][1])
                hs.append(dict(fmt, path="FILE:shared.log", **opts))
            if split:
                loggers = [{"type": "logger", "name": "zcvp%d_%d" % (n, j),
                            "handlers": [h]} for j, h in enumerate(hs)]
            else:
                loggers = [{"type": "logger", "name": "zcvp%d" % n,
                            "handlers": hs}]
            yield {"kind": "samepath", "loggers": loggers}


def latedir_cases():
    n = 0
    fmt = {"style": "classic", "format": "%(levelname)s %(message)s"}
    for kinds in itertools.product("fst", repeat=2):
        for extra in (0, 1):
            n += 1
            hs = []
            for j, kd in enumerate(kinds + (("f",) if extra else ())):
                opts = dict([x for x in SEQ_HANDLERS if x[0] == kd][0][1])
                # the first handler is fine, the later ones live in a
                # directory that does not exist at the first call
                path = "FILE:l%d.log" % j if j == 0 else \
                    "FILE:late/l%d.log" % j
                hs.append(dict(fmt, path=path, **opts))
            yield {"kind": "latedir", "loggers": [
                {"type": "logger", "name": "zcvl%d" % n, "handlers": hs}]}


class SeqState:
    def __init__(self, case, factories):
        self.case = case
        self.factories = factories
        self.created = [False] * len(factories)
        self.closed = set()
        self.trace = []


def _seq_body(env, case, res, text, casedir, gc_inside):
    exp = config_expect(case)
    if exp["verdict"] != "accept":
        res.count("unjudged")
        return False
    try:
        cfg, _ = env.loadConfigFile(env.schema, io.StringIO(text))
    except Exception as exc:  # noqa
        res.violate("refused-but-must-accept", case, "accepted",
                    exc_brief(exc), detail=text, vsig="seq-load")
        return False
    st = SeqState(case, list(cfg.loggers))
    st.exp = exp
    del cfg
    ops = [tuple(op) for op in case["ops"]] + [("reopen", "final-probe")]
    for step, op in enumerate(ops):
        res.count("seq_ops")
        if op[0] == "call":
            seq_call(env, res, st, op[1], casedir, step)
        elif op[0] == "reopen":
            seq_reopen(env, res, st, casedir, step, gc_inside)
        elif op[0] == "close":
            seq_close(env, res, st, step, gc_inside)
        elif op[0] == "drop":
            seq_drop(env, res, st, op[1], step, gc_inside,
                     bool(case.get("cyclic")))
        elif op[0] == "freopen":
            seq_factory_reopen(env, res, st, op[1], casedir, step)
    res.sig("seq|%s|%s%s|%s" % ("".join(seq_letter(o) for o in case["ops"]),
                                "gcin" if gc_inside else "gc",
                                case.get("drop_mode", "forget")[:7]
                                if any(o[0] == "drop" for o in case["ops"])
                                else "",
                              "".join(seq_handler_letter(h)
                                      for lg in case["loggers"]
                                      for h in lg["handlers"])))
    res.sample("sequence", {"case": case, "trace": st.trace}, 1)
    return True


def seq_letter(op):
    return {"call": "C", "reopen": "R", "close": "X", "drop": "D",
            "freopen": "F"}[op[0]] + \
        (str(op[1]) if len(op) > 1 else "")


def seq_handler_letter(h):
    if h["path"] in reflog.STD:
        return "o"
    c = "s" if "max-size" in h else "t" if "when" in h else "f"
    return c.upper() if "delay" in h else c


def seq_call(env, res, st, k, casedir, step):
    mon = env.mon
    case = st.case
    f = st.factories[k]
    if f is None:
        res.count("seq_noop")
        st.trace.append("call %d: dropped, skipped" % k)
        return
    spec = case["loggers"][k]
    e = st.exp["loggers"][k]
    existing = logging.Logger.manager.loggerDict.get(spec["name"])
    before = list(existing.handlers) \
        if isinstance(existing, logging.Logger) else []
    fake_out, fake_err = io.StringIO(), io.StringIO()
    mon.clear()
    sys.stdout, sys.stderr = fake_out, fake_err
    try:
        lg = f()
    except Exception as exc:  # noqa
        res.violate("accepted-config-factory-raises", case,
                    "factory returns the configured logger", exc_brief(exc),
                    detail="step %d" % step, vsig="seq-factory-raises")
        raise Abort()
    finally:
        sys.stdout, sys.stderr = _real_std
    if not st.created[k]:
        st.created[k] = True
        inits = mon.serials("init")
        seen = check_logger(env, case, res, spec, e, lg, before,
                            mon.added(lg), casedir, fake_out, fake_err,
                            emit=bool(case.get("emit", True)))
        check_init_hook(res, case, seen, inits)
        st.trace.append("call %d: created %d handler(s), serials %s"
                        % (k, len(lg.handlers) - len(before), inits))
    else:
        res.count("second_calls")
        now = list(lg.handlers)
        if lg is not logging.getLogger(spec["name"]) or mon.added(lg) or \
                mon.serials("init") or len(now) != len(before) or \
                any(a is not b for a, b in zip(now, before)):
            res.violate("second-call-not-idempotent", case,
                        "same logger object, no handler added",
                        {"handlers_before": len(before),
                         "handlers_after": len(now),
                         "addHandler_calls": len(mon.added(lg)),
                         "constructed": len(mon.serials("init"))},
                        detail="step %d" % step, vsig="second-call")
        st.trace.append("call %d: again" % k)
    mon.clear()


def _streams_of_alive(mon, serials):
    pre = {}
    for s in serials:
        h = mon.get(s)
        if h is not None:
            pre[s] = h.stream
        del h
    return pre


def seq_reopen(env, res, st, casedir, step, gc_inside):
    mon = env.mon
    case = st.case
    mon.clear()
    alive_before = mon.alive(collect=not gc_inside)
    pre = _streams_of_alive(mon, alive_before)
    mon.gc_inside_reopen = gc_inside
    try:
        env.loghandler.reopenFiles()
    except Exception as exc:  # noqa
        res.violate("reopenFiles-raised", case, "no exception",
                    exc_brief(exc), detail="step %d" % step,
                    vsig="reopen-raised")
        raise Abort()
    finally:
        mon.gc_inside_reopen = False
    touched = mon.serials("reopen")
    mon.clear()
    alive_after = set(mon.alive(collect=True))
    allowed = {s for s in alive_before if s not in st.closed}
    required = {s for s in allowed if pre.get(s) is not None and
                s in alive_after}
    st.trace.append("reopen: live-open %s, reopened %s" % (sorted(required),
                                                           touched))
    if None in touched or len(set(touched)) != len(touched) or \
            not (required <= set(touched) <= allowed):
        res.violate("reopenFiles-wrong-handler-set", case,
                    {"must_reopen": sorted(required),
                     "may_reopen": sorted(allowed)},
                    {"reopened": touched},
                    detail="step %d: serial numbers in construction order; "
                    "closed so far: %s; trace: %s"
                    % (step, sorted(st.closed), st.trace),
                    vsig="reopen-set")
        raise Abort()
    res.count("reopen_checked")
    for s in sorted(required):
        if not pre[s].closed:
            res.violate("reopenFiles-old-stream-open", case,
                        "old stream closed", "still open",
                        detail="step %d serial %d" % (step, s),
                        vsig="reopen-old-open")
        seq_emit_probe(env, res, st, s, step)


def seq_factory_reopen(env, res, st, k, casedir, step):
    """factory.reopen(): the file handlers attached to this factory's logger
    are reopened, in order, and no others; other handler kinds are left
    alone.  (reopen() instantiates the logger if that has not happened.)"""
    mon = env.mon
    case = st.case
    f = st.factories[k]
    if f is None or st.closed:
        # closed handlers that are still attached: not pinned by the statement
        res.count("seq_noop")
        st.trace.append("factory-reopen %d: skipped" % k)
        return
    if not st.created[k]:
        seq_call(env, res, st, k, casedir, step)
    lg = logging.getLogger(case["loggers"][k]["name"])
    attached = [mon.serial_of(h) for h in lg.handlers
                if mon.serial_of(h) is not None]
    pre = _streams_of_alive(mon, attached)
    lowest_want = None
    mon.clear()
    try:
        f.reopen()
        lowest = f.getLowestHandlerLevel()
    except Exception as exc:  # noqa
        res.violate("factory-reopen-raised", case, "no exception",
                    exc_brief(exc), detail="step %d" % step,
                    vsig="freopen-raised")
        raise Abort()
    touched = mon.serials("reopen")
    added = mon.added(lg)
    mon.clear()
    st.trace.append("factory-reopen %d: attached %s, reopened %s"
                    % (k, attached, touched))
    if touched != attached or added:
        res.violate("factory-reopen-wrong-handler-set", case,
                    {"reopened": attached, "handlers_added": 0},
                    {"reopened": touched, "handlers_added": len(added)},
                    detail="step %d: file handlers attached to logger %d, "
                    "in order; trace: %s" % (step, k, st.trace),
                    vsig="freopen-set")
        raise Abort()
    res.count("factory_reopen_checked")
    # the lowest level any of its handlers (or the logger) lets through
    e = st.exp["loggers"][k]
    levels = [lv for lv in [e["level"]] + [h["level"] for h in e["handlers"]]
              if lv != logging.NOTSET]
    lowest_want = min(levels) if levels else logging.NOTSET
    if lowest != lowest_want:
        res.violate("lowest-handler-level", case, lowest_want, lowest,
                    detail="step %d logger %d" % (step, k),
                    vsig="lowest-level")
    for s_ in attached:
        if pre.get(s_) is not None:
            if not pre[s_].closed:
                res.violate("reopenFiles-old-stream-open", case,
                            "old stream closed", "still open",
                            detail="factory.reopen step %d serial %d"
                            % (step, s_), vsig="freopen-old-open")
            seq_emit_probe(env, res, st, s_, step)


def seq_emit_probe(env, res, st, serial, step):
    """A reopened handler must still deliver records to its base file."""
    h = env.mon.get(serial)
    if h is None:
        return
    hspec = he = None
    n = 0
    # find its section: file handlers are numbered in construction order only
    # per call, so match by path
    for lg, le in zip(st.case["loggers"], st.exp["loggers"]):
        for hs, hx in zip(lg["handlers"], le["handlers"]):
            if hs["path"].startswith("FILE:") and os.path.basename(
                    h.baseFilename) == hs["path"][5:]:
                hspec, he = hs, hx
            n += 1
    if hspec is None:
        return
    rspec = dict(ASCII_RECORD, msg="probe step %d serial %d" % (step, serial),
                 args=[])
    rec = make_record(rspec)
    want = reflog.render(he["style"], reflog.unescape(he["format"]),
                         reflog.record_dict(rec, he["dateformat"]))
    try:
        h.handle(rec)
        h.flush()
        with open(h.baseFilename, "rb") as f:
            data = f.read().decode("ascii", "replace")
    except Exception as exc:  # noqa
        res.violate("emit-after-reopen-raised", st.case, "record written",
                    exc_brief(exc), detail="step %d" % step,
                    vsig="emit-after-reopen")
        return
    res.count("reopen_probes")
    if want[0] == "ok" and not data.endswith(want[1] + "\n"):
        res.violate("emit-after-reopen-lost", st.case, want[1] + "\n",
                    data[-200:], detail="step %d serial %d" % (step, serial),
                    vsig="emit-after-reopen-lost")


def seq_close(env, res, st, step, gc_inside):
    mon = env.mon
    case = st.case
    mon.clear()
    alive_before = mon.alive(collect=not gc_inside)
    pre = _streams_of_alive(mon, alive_before)
    try:
        env.loghandler.closeFiles()
    except Exception as exc:  # noqa
        res.violate("closeFiles-raised", case, "no exception",
                    exc_brief(exc), detail="step %d" % step,
                    vsig="close-raised")
        raise Abort()
    touched = mon.serials("close")
    mon.clear()
    alive_after = set(mon.alive(collect=True))
    allowed = {s for s in alive_before if s not in st.closed}
    required = {s for s in allowed if pre.get(s) is not None and
                s in alive_after}
    st.trace.append("close: live-open %s, closed %s" % (sorted(required),
                                                        touched))
    if None in touched or len(set(touched)) != len(touched) or \
            not (required <= set(touched) <= allowed):
        res.violate("closeFiles-wrong-handler-set", case,
                    {"must_close": sorted(required),
                     "may_close": sorted(allowed)},
                    {"closed": touched},
                    detail="step %d: closed before: %s; trace: %s"
                    % (step, sorted(st.closed), st.trace),
                    vsig="close-set")
        raise Abort()
    res.count("close_checked")
    st.closed.update(touched)
    for s in sorted(required):
        h = mon.get(s)
        if not pre[s].closed or (h is not None and h.stream is not None):
            res.violate("closeFiles-stream-left-open", case,
                        "stream closed and released", "still open",
                        detail="step %d serial %d" % (step, s),
                        vsig="close-left-open")
        del h


def seq_drop(env, res, st, k, step, gc_inside, cyclic):
    """Drop the handlers of logger k.  Modes (case["drop_mode"]):
    forget            remove from the logger, forget every reference without
                      closing (optionally leaving cyclic garbage)
    close-and-forget  the polite form: remove, close(), forget
    close-keep        remove and close(), but the factory (and so the
                      handler object) stays referenced"""
    mon = env.mon
    mode = st.case.get("drop_mode", "forget")
    f = st.factories[k]
    if mode != "close-keep" or not st.created[k]:
        st.factories[k] = None
    streams = []
    if f is not None and st.created[k]:
        lg = logging.getLogger(st.case["loggers"][k]["name"])
        for h in list(lg.handlers):
            lg.removeHandler(h)
            if mode != "forget":
                serial = mon.serial_of(h)
                h.close()
                if serial is not None:
                    st.closed.add(serial)
            elif cyclic:
                h._zcv_cycle = h
            elif getattr(h, "baseFilename", None) and h.stream is not None:
                streams.append(h.stream)
        h = None
        del lg
    del f
    mon.clear()
    if not gc_inside:
        gc.collect()
    for s in streams:
        s.close()
    st.trace.append("drop %d (%s%s)" % (k, mode, ", cyclic garbage"
                                        if cyclic and mode == "forget"
                                        else ""))


# --------------------------------------------------------------------------
# generators

LEVEL_NAMES = sorted(reflog.LEVELS)


def mixed_case(s):
    return "".join(c.upper() if i % 2 else c.lower()
                   for i, c in enumerate(s))


def level_spellings():
    out = []
    for n in LEVEL_NAMES:
        out += [n, n.upper(), mixed_case(n), n.capitalize()]
    out += [str(i) for i in range(-2, 53)]
    out += ["07", "+5", "1e1", "verbose", "5.0", "-0", "050"]
    return out


def std_handler(**kw):
    h = {"path": "STDOUT", "format": "%(levelname)s %(message)s"}
    h.update(kw)
    return h


def gen_levels(caseno):
    """(case, …) for the level family; caseno only makes names unique."""
    n = 0
    for sp in level_spellings():
        for pos in ("logger", "handler", "eventlog"):
            n += 1
            name = "zcvl%d" % n
            if pos == "logger":
                lgs = [{"type": "logger", "name": name, "level": sp,
                        "handlers": [std_handler()]}]
            elif pos == "handler":
                lgs = [{"type": "logger", "name": name,
                        "handlers": [std_handler(level=sp),
                                     std_handler(path="STDERR")]}]
            else:
                lgs = [{"type": "eventlog", "level": sp,
                        "handlers": [std_handler(level="17")]}]
            yield {"kind": "config", "family": "levels", "loggers": lgs}
        yield {"kind": "level-direct", "spelling": sp}
    for n in (0, 1, 5, 10, 15, 20, 25, 30, 40, 50, 51, 52, 100, -1, -2,
              10 ** 30, -10 ** 30):
        yield {"kind": "level-direct", "spelling": n}


ROTATIONS = [
    ("plain", {}),
    ("size", {"max-size": "20kb", "old-files": "3"}),
    ("timed", {"when": "D", "old-files": "2"}),
    ("size-no-old", {"max-size": "10kb"}),
    ("timed-no-old", {"when": "H", "interval": "2"}),
    ("old-only", {"old-files": "4"}),
    ("both", {"max-size": "10kb", "when": "D", "old-files": "2"}),
    ("interval-only", {"interval": "3"}),
    # sizes beyond 31 / 32 bits are sizes like any other
    ("size-huge", {"max-size": "2gb", "old-files": "3"}),
    ("size-huge-no-old", {"max-size": "2147483648"}),
    # negative numbers are numbers: on a standard stream such an option
    # is given and therefore refused (for a file: unjudged)
    ("old-negative", {"old-files": "-1"}),
    ("size-negative", {"max-size": "-1kb"}),
    ("size-and-old-negative", {"max-size": "-5", "old-files": "-2"}),
]
ROT_VARIANTS = {
    "size": [{"max-size": "1mb", "old-files": "1"},
             {"max-size": "65536", "old-files": "12"},
             {"max-size": "3MB", "old-files": "2"},
             {"max-size": "4gb", "old-files": "1"},
             {"max-size": "2147483647", "old-files": "2"},
             {"max-size": "4294967296", "old-files": "2"}],
    "timed": [{"when": "midnight", "old-files": "5"},
              {"when": "h", "old-files": "1", "interval": "6"},
              {"when": "W3", "old-files": "2"},
              {"when": "M", "old-files": "3", "interval": "30"}],
    "size-no-old": [{"max-size": "1mb", "old-files": "0"},
                    {"max-size": "3GB", "old-files": "0"}],
    "timed-no-old": [{"when": "D"}, {"when": "midnight", "old-files": "0"}],
}
DELAYS = [None, "true", "false"]
DELAY_SPELLINGS = {"true": ["true", "yes", "on", "True", "ON"],
                   "false": ["false", "no", "off", "No"]}
ENCODINGS = [None, "utf-8", "latin-1", "utf-16"]
SANE_FORMATS = [
    None,
    ("classic", "%(asctime)s %(levelname)-8s %(name)s: %(message)s"),
    ("classic", r"%(levelno)03d\t%(message)s"),
    ("format", "{levelname:>8} {name} {message}"),
    ("format", r"{asctime}\t{message!r}"),
    ("template", "$levelname ${name}: $message"),
    ("safe-template", "$levelname $$ $message"),
]
DATEFORMATS = [None, "%H:%M:%S", "%Y/%m/%d", "%d %b %Y %H.%M"]


def gen_handler_table():
    n = 0
    for path in ("STDOUT", "STDERR", "FILE:log.txt"):
        for rname, ropts in ROTATIONS:
            for delay in DELAYS:
                for enc in ENCODINGS:
                    n += 1
                    h = {"path": path}
                    sf = SANE_FORMATS[n % len(SANE_FORMATS)]
                    if sf:
                        h["style"], h["format"] = sf
                    h.update(ropts)
                    if delay:
                        sp = DELAY_SPELLINGS[delay]
                        h["delay"] = sp[n % len(sp)]
                    if enc:
                        h["encoding"] = enc
                    if n % 3 == 0:
                        h["level"] = ["warn", "5", "ERROR"][n // 3 % 3]
                    lg = {"type": "logger", "name": "zcvh%d" % n,
                          "handlers": [h]}
                    if n % 5 == 0:
                        lg = {"type": "eventlog", "handlers": [h]}
                    case = {"kind": "config", "family": "handlers",
                            "loggers": [lg]}
                    if n % 4 == 1 and lg["type"] == "logger":
                        case["via"] = "configureLoggers"
                    yield case


def random_handler(rng, fileno, valid_bias=0.85):
    kind = rng.choice(["STDOUT", "STDERR", "FILE", "FILE", "FILE"])
    h = {"path": kind if kind != "FILE" else "FILE:f%d.log" % fileno}
    good = rng.random() < valid_bias
    if kind == "FILE":
        rname = rng.choice(["plain", "plain", "size", "timed"]) if good \
            else rng.choice([r[0] for r in ROTATIONS])
        opts = dict(ROTATIONS[[r[0] for r in ROTATIONS].index(rname)][1])
        if rname in ROT_VARIANTS and rng.random() < 0.6:
            opts = dict(rng.choice(ROT_VARIANTS[rname]))
        h.update(opts)
        d = rng.choice(DELAYS)
        if d:
            h["delay"] = rng.choice(DELAY_SPELLINGS[d])
        enc = rng.choice(ENCODINGS + [None, None])
        if enc:
            h["encoding"] = enc
    elif not good:
        bad = rng.choice(["max-size", "old-files", "when", "delay",
                          "encoding", "delay-false", "interval", "zero",
                          "negative", "negative"])
        h.update({"max-size": {"max-size": rng.choice(["5kb", "3gb",
                                                       "2147483648"])},
                  "old-files": {"old-files": "2"},
                  "when": {"when": "D"},
                  "delay": {"delay": rng.choice(DELAY_SPELLINGS["true"])},
                  "encoding": {"encoding": "utf-8"},
                  "delay-false": {"delay": "no"},
                  "interval": {"interval": "2"},
                  "zero": {"max-size": "0", "old-files": "0"},
                  "negative": rng.choice([{"old-files": "-1"},
                                          {"max-size": "-1kb"},
                                          {"max-size": "-5"},
                                          {"max-size": "-1",
                                           "old-files": "-2"}])}[bad])
    if rng.random() < 0.6:
        h["level"] = random_level(rng)
    sf = rng.choice(SANE_FORMATS)
    if sf:
        h["style"], h["format"] = sf
    if rng.random() < 0.3:
        h["dateformat"] = rng.choice(DATEFORMATS[1:])
    if rng.random() < 0.15:
        h["arbitrary-fields"] = rng.choice(["true", "false", "on"])
    return h


def random_foreign(rng):
    kind = rng.choice(sorted(FOREIGN))
    h = {"kind": kind, "path": "FOREIGN"}
    if kind == "syslog" and rng.random() < 0.5:
        h["facility"] = rng.choice(["daemon", "local3", "MAIL", "User"])
    elif kind == "http-logger" and rng.random() < 0.5:
        h["method"] = rng.choice(["GET", "POST", "post", "get"])
    elif kind == "email-notifier":
        h["from"] = "zcv@example.org"
        h["to"] = ["a@example.org"] + (["b@example.org"]
                                       if rng.random() < 0.5 else [])
        if rng.random() < 0.5:
            h["subject"] = "zcv subject %d" % rng.randint(0, 9)
    if rng.random() < 0.6:
        h["level"] = random_level(rng)
    sf = rng.choice(SANE_FORMATS)
    if sf:
        h["style"], h["format"] = sf
    if rng.random() < 0.3:
        h["dateformat"] = rng.choice(DATEFORMATS[1:])
    return h


def random_level(rng):
    r = rng.random()
    if r < 0.6:
        n = rng.choice(LEVEL_NAMES)
        return rng.choice([n, n.upper(), mixed_case(n)])
    if r < 0.97:
        return str(rng.randint(0, 50))
    return rng.choice(["-1", "51", "99"])


def random_config(rng, i):
    nlog = rng.choice([1, 1, 2, 3])
    loggers = []
    fileno = 0
    for j in range(nlog):
        nh = rng.choice([0, 1, 1, 2, 2, 3])
        hs = []
        for _ in range(nh):
            fileno += 1
            hs.append(random_handler(rng, fileno))
        while rng.random() < 0.3 and len(hs) < 4:
            hs.insert(rng.randrange(len(hs) + 1), random_foreign(rng))
        name = "zcvr%d_%d" % (i, j)
        if rng.random() < 0.3:
            name += ".sub" + rng.choice(["", ".leaf"])
        lg = {"type": "logger", "name": name, "handlers": hs}
        if j == 0 and rng.random() < 0.12:
            # a <logger> section without a name configures the root logger
            del lg["name"]
        if rng.random() < 0.7:
            lg["level"] = random_level(rng)
        if rng.random() < 0.5:
            lg["propagate"] = rng.choice(["true", "false", "yes", "no", "on",
                                          "off", "False", "TRUE"])
        loggers.append(lg)
    case = {"kind": "config", "family": "handlers", "loggers": loggers}
    r = rng.random()
    if r < 0.2:
        ev = {"type": "eventlog", "handlers": []}
        for _ in range(rng.choice([0, 1, 2])):
            fileno += 1
            ev["handlers"].append(random_handler(rng, fileno, 0.95))
        if rng.random() < 0.7:
            ev["level"] = random_level(rng)
        loggers.insert(rng.randrange(len(loggers) + 1), ev)
    elif r < 0.4:
        case["via"] = "configureLoggers"
    return case


# -- format strings ---------------------------------------------------------

STR_FIELDS = ["name", "levelname", "pathname", "filename", "module",
              "funcName", "message", "asctime", "threadName", "processName",
              "msg"]
INT_FIELDS = ["levelno", "lineno", "thread", "process"]
FLT_FIELDS = ["created", "msecs", "relativeCreated"]
UNKNOWN_FIELDS = ["foo", "user_id"]
ALL_FIELDS = STR_FIELDS + INT_FIELDS + FLT_FIELDS + UNKNOWN_FIELDS

CLASSIC_CONV = list("srdioxXeEfgGca") + ["y"]
CLASSIC_FLAGS = ["", "-", "0", "+", " ", "#"]
CLASSIC_WIDTH = ["", "3", "14"]
CLASSIC_PREC = ["", ".2"]
CLASSIC_CTX = [("", ""), ("[", "]"), ("%% ", ""), ("", r"\n"),
               (r"\t", " end"), ("x ", " %%"), (r"\b\f\r", ""),
               ("%(levelname)s ", ""), ("", " %(lineno)d"), ("{} $ ", "")]
FORMAT_CONV = ["", "!r", "!s", "!a", "!x"]
FORMAT_SPEC = ["", ":>12", ":<8", ":^9", ":*^9", ":05d", ":+d", ": d", ":d",
               ":x", ":#x", ":#o", ":b", ":c", ":e", ":E", ":.2f", ":10.3f",
               ":,", ":_d", ":%", ":g", ":n", ":s", ":.3s", ":10", ":z.1f",
               ":{lineno}", ":>{lineno}", ":q"]
FORMAT_CTX = [("", ""), ("{{", "}}"), ("{{}} ", ""), (r"\n", r"\t"),
              ("{levelname} ", ""), ("% ", " $"), ("", " {lineno:d}"),
              (r"a\rb ", " }}")]
TEMPLATE_CTX = [("", ""), ("$$", ""), ("$$$$ ", " x"), (r"\n", ""),
                ("${levelname} ", ""), ("% {} ", ""), ("", r"\t$lineno"),
                ("", "-tail")]
FIELDLESS = {
    "classic": ["hello", "%%", "%% done", "100%%", r"a\nb", "%s", "%d",
                "%s %s", "%", "x", r"\t", "%5s", "%r"],
    "format": ["hello", "{{}}", "{{message}}", "{}", "{0}", "{", "}",
               r"a\tb", "{!r}", "{:>5}", "{0.x}"],
    "template": ["hello", "$$$$", "$$", "$$message", "$", "100$$", r"\n",
                 "${", "${message", "$1", "$message$", "$-", "${}"],
}
FIELDLESS["safe-template"] = FIELDLESS["template"]
MALFORMED = {
    "classic": ["%(message)", "%(message", "%()s", "%(message)s %",
                "%(message)s %s", "%(message)s %(", "%(mess age)s",
                "%(message)*s", "%(message)s%"],
    "format": ["{message", "message}", "{message!}", "{message:{}}",
               "{message} {}", "{args[0]}", "{message[0]}",
               "{message!r!s}", "{ message }"],
    "template": ["$message $", "${message} ${", "$message$", "${message }",
                 "$message ${1}", "$Message"],
}
MALFORMED["safe-template"] = MALFORMED["template"]


def text_safe(fmt):
    """Can be written as a one-line value (no surrounding whitespace; two
    backslashes in a row are outside the documented escape rule)."""
    return (fmt == fmt.strip() and fmt != "" and "\n" not in fmt and
            "\\\\" not in fmt)


def classic_product():
    i = 0
    for f in ALL_FIELDS:
        for conv in CLASSIC_CONV:
            for flag in CLASSIC_FLAGS:
                for w in CLASSIC_WIDTH:
                    for p in CLASSIC_PREC:
                        pre, suf = CLASSIC_CTX[i % len(CLASSIC_CTX)]
                        i += 1
                        yield "%s%%(%s)%s%s%s%s%s" % (pre, f, flag, w, p,
                                                      conv, suf)


def format_product():
    i = 0
    for f in ALL_FIELDS:
        for conv in FORMAT_CONV:
            for spec in FORMAT_SPEC:
                pre, suf = FORMAT_CTX[i % len(FORMAT_CTX)]
                i += 1
                yield "%s{%s%s%s}%s" % (pre, f, conv, spec, suf)


def template_product():
    for f in ALL_FIELDS:
        for pre, suf in TEMPLATE_CTX:
            yield "%s$%s%s" % (pre, f, suf if not suf[:1].isalnum()
                               else " " + suf)
            yield "%s${%s}%s" % (pre, f, suf)


NONASCII_ESCAPED = {
    "classic": [r"» %(message)s\t«", r"é\n%(levelname)s ü", r"%(name)s →\r"],
    "format": [r"» {message}\t«", r"é\n{levelname} ü", r"{name} →\f"],
    "template": [r"» $message\t«", r"é\n${levelname} ü", r"$name →\b"],
}
NONASCII_ESCAPED["safe-template"] = NONASCII_ESCAPED["template"]


def core_formats(style):
    out = list(FIELDLESS[style]) + list(MALFORMED[style]) + \
        list(NONASCII_ESCAPED[style])
    for f in ALL_FIELDS:
        if style == "classic":
            out += ["%%(%s)s" % f, "%%(%s)d" % f, "%%(%s)r end" % f]
        elif style == "format":
            out += ["{%s}" % f, "{%s!r}" % f, "{%s:>10}" % f]
        else:
            out += ["$%s" % f, "${%s}" % f, "$$ $%s." % f]
    # quotes, also around the whole format, are characters of the format
    # (CSV-like layouts)
    m, lv = {"classic": ("%(message)s", "%(levelname)s"),
             "format": ("{message}", "{levelname}")}.get(
                 style, ("${message}", "$levelname"))
    out += ['"%s"' % m, "'%s'" % m, '"%s","%s"' % (lv, m),
            '"%s' % m, '%s"' % m, '""%s""' % m, "'%s' \"%s\"" % (lv, m),
            "= %s" % m, "%s # %s" % (lv, m)]
    return out


def product_formats(style):
    if style == "classic":
        return classic_product()
    if style == "format":
        return format_product()
    return template_product()


def random_format(rng, style):
    atoms = []
    for _ in range(rng.randint(1, 4)):
        r = rng.random()
        f = rng.choice(ALL_FIELDS)
        if r < 0.55:
            if style == "classic":
                atoms.append("%%(%s)%s%s%s%s" % (
                    f, rng.choice(CLASSIC_FLAGS), rng.choice(CLASSIC_WIDTH),
                    rng.choice(CLASSIC_PREC), rng.choice(CLASSIC_CONV)))
            elif style == "format":
                atoms.append("{%s%s%s}" % (f, rng.choice(FORMAT_CONV),
                                           rng.choice(FORMAT_SPEC)))
            else:
                atoms.append(rng.choice(["$%s", "${%s}"]) % f)
        elif r < 0.8:
            atoms.append(rng.choice(
                [r"\n", r"\t", r"\b", r"\f", r"\r", "-", "[", "]", ":",
                 "text", "%%" if style == "classic" else
                 "{{" if style == "format" else "$$",
                 "}}" if style == "format" else "|"]))
        elif r < 0.92:
            atoms.append(rng.choice(FIELDLESS[style]))
        else:
            atoms.append(rng.choice(MALFORMED[style]))
    return rng.choice(["", " ", " "]).join(atoms)


ARB_SPELLINGS = {False: [None, "false", "no", "off"],
                 True: ["true", "yes", "on", "TRUE"]}


def format_case(n, style, arb, fmt):
    h = {"path": "STDOUT" if n % 7 else "FILE:fmt.log",
         "style": style, "format": fmt}
    if n % 13 == 0 and h["path"] != "STDOUT":
        h["encoding"] = "utf-8"
    sp = ARB_SPELLINGS[arb][n % len(ARB_SPELLINGS[arb])]
    if sp is not None:
        h["arbitrary-fields"] = sp
    if n % 3 == 0:
        h["dateformat"] = DATEFORMATS[1 + n // 3 % 3]
    if style == "classic" and n % 5 == 0:
        del h["style"]
    if n % 4 == 1:
        h["formatter"] = FORMATTERS[n // 4 % len(FORMATTERS)]
    lg = {"type": "logger", "name": "zcvf%d" % n, "handlers": [h]}
    if n % 17 == 0:
        lg = {"type": "eventlog", "handlers": [h]}
    return {"kind": "config", "family": "formats", "loggers": [lg]}


def gen_formats(ctx):
    """Yield (global index, case).  Deterministic enumeration; the quick tier
    takes the core list, a seed-shifted stride through the product and a
    seeded random sample."""
    n = 0
    for style in reflog.STYLES:
        for arb in (False, True):
            for fmt in core_formats(style):
                if text_safe(fmt):
                    n += 1
                    yield n, format_case(n, style, arb, fmt)
    want = N_FORMAT_SAMPLE[ctx.tier]
    total = sum(1 for st in reflog.STYLES for _ in product_formats(st)) * 2
    stride = 1 if want is None else max(1, total // want)
    offset = 0 if stride == 1 else ctx.seed % stride
    j = 0
    for style in reflog.STYLES:
        for arb in (False, True):
            for fmt in product_formats(style):
                j += 1
                if j % stride != offset:
                    continue
                if text_safe(fmt):
                    n += 1
                    yield n, format_case(n, style, arb, fmt)


def gen_stateful_pairs():
    """Units of one or two configurations that must run in ONE process, in
    order: state kept between loads / in the logging registry must not make
    a later configuration behave differently.

    (a) the same style+format once with arbitrary-fields on (names a field
        ordinary records lack) and once with it off - as two handlers of
        one configuration and as two consecutive loads, in both orders;
    (b) one logger name configured twice with different propagate / level
        (two logger sections with the same name, and two loads)."""
    n = 0
    unknown = {"classic": ["%(request_id)s %(message)s", "%(zcvx)5s"],
               "format": ["{request_id} {message}", "{zcvx!r}"],
               "template": ["${request_id} $message", "$zcvx."]}
    for style, fmts in sorted(unknown.items()):
        for fmt in fmts:
            for order in ((True, False), (False, True)):
                hs = []
                for arb in order:
                    h = {"path": "STDOUT", "style": style, "format": fmt}
                    if arb:
                        h["arbitrary-fields"] = "true"
                    hs.append(h)
                n += 1
                # one configuration, two handlers
                yield [{"kind": "config", "family": "formats", "loggers": [
                    {"type": "logger", "name": "zcvp%d" % n,
                     "handlers": hs}]}]
                n += 1
                # two consecutive loads
                yield [{"kind": "config", "family": "formats", "loggers": [
                    {"type": "logger", "name": "zcvp%d_%d" % (n, k),
                     "handlers": [h]}]} for k, h in enumerate(hs)]
    for p1, p2 in (("false", "true"), ("no", None), ("true", "false"),
                   (None, "off")):
        for l1, l2 in (("debug", "error"), ("warn", None), (None, "info")):
            n += 1
            lgs = []
            for k, (p, lv) in enumerate(((p1, l1), (p2, l2))):
                lg = {"type": "logger", "name": "zcvq%d" % n,
                      "handlers": [{"path": "STDOUT"}] if k == 0 else []}
                if p is not None:
                    lg["propagate"] = p
                if lv is not None:
                    lg["level"] = lv
                lgs.append(lg)
            yield [{"kind": "config", "family": "handlers", "loggers": lgs}]
            n += 1
            yield [{"kind": "config", "family": "handlers",
                    "loggers": [dict(lg, name="zcvq%d" % n)]}
                   for lg in lgs]


# -- sequences ---------------------------------------------------------------

SEQ_HANDLERS = [
    ("f", {}), ("f", {}), ("f", {}),
    ("F", {"delay": "true"}),
    ("s", {"max-size": "1mb", "old-files": "2"}),
    ("S", {"max-size": "1mb", "old-files": "2", "delay": "yes"}),
    ("t", {"when": "D", "old-files": "2"}),
    ("o", None),
]
SEQ_FORMATS = [("classic", "%(levelname)s %(message)s"),
               ("format", "{name}: {message}"),
               ("template", "${message} [$levelno]")]


def random_sequence(rng, i):
    nlog = rng.choice([2, 3, 3])
    loggers = []
    fileno = 0
    for j in range(nlog):
        hs = []
        for _ in range(rng.choice([0, 1, 1, 2, 2])):
            letter, opts = rng.choice(SEQ_HANDLERS)
            fileno += 1
            st, fm = rng.choice(SEQ_FORMATS)
            if opts is None:
                h = {"path": rng.choice(["STDOUT", "STDERR"])}
            else:
                h = dict({"path": "FILE:s%d.log" % fileno}, **opts)
            h["style"], h["format"] = st, fm
            hs.append(h)
        loggers.append({"type": "logger", "name": "zcvs%d_%d" % (i, j),
                        "handlers": hs})
    ops = []
    dropped = set()
    length = rng.randint(1, 6)
    for step in range(length):
        r = rng.random()
        live = [k for k in range(nlog) if k not in dropped]
        if (step == 0 and r < 0.8) or r < 0.4:
            k = rng.choice(live) if live and rng.random() < 0.9 \
                else rng.randrange(nlog)
            ops.append(["call", k])
        elif r < 0.56:
            ops.append(["reopen"])
        elif r < 0.65:
            ops.append(["freopen", rng.randrange(nlog)])
        elif r < 0.8:
            ops.append(["close"])
        else:
            k = rng.randrange(nlog)
            dropped.add(k)
            ops.append(["drop", k])
    gc_inside = rng.random() < 0.4
    return {"kind": "seq", "loggers": loggers, "ops": ops,
            "gc_inside": gc_inside, "emit": rng.random() < 0.6,
            "cyclic": gc_inside or rng.random() < 0.3,
            "drop_mode": rng.choice(["forget", "forget", "close-and-forget",
                                     "close-keep"])}


def directed_sequences():
    """Shapes worth having in every run: registration order x which logger
    becomes garbage x where the collection happens."""
    n = 0
    file_h = {"path": None, "style": "classic",
              "format": "%(levelname)s %(message)s"}
    for kinds in (("f", "f", "f"), ("f", "s", "t"), ("F", "f", "S"),
                  ("s", "f", "f")):
        for victim in (0, 1, 2):
            for gc_inside in (False, True):
                for tail in (["reopen"], ["close"], ["reopen", "close"],
                             ["close", "reopen"]):
                    n += 1
                    loggers = []
                    for j, kd in enumerate(kinds):
                        opts = dict(o for o in [x for x in SEQ_HANDLERS
                                                if x[0] == kd][0][1].items())
                        h = dict(file_h, path="FILE:d%d.log" % j, **opts)
                        loggers.append({"type": "logger",
                                        "name": "zcvd%d_%d" % (n, j),
                                        "handlers": [h]})
                    ops = [["call", 0], ["call", 1], ["call", 2],
                           ["drop", victim]] + [[t] for t in tail]
                    yield {"kind": "seq", "loggers": loggers, "ops": ops[:6],
                           "gc_inside": gc_inside, "cyclic": gc_inside,
                           "emit": n % 3 != 0,
                           "drop_mode": ["forget", "forget", "close-keep",
                                         "close-and-forget"][n % 4]}


# --------------------------------------------------------------------------
# driver interface

def run_case(env, case, res):
    kind = case.get("kind")
    if kind == "config":
        run_config_case(env, case, res)
    elif kind == "level-direct":
        run_level_direct(env, case, res)
    elif kind == "seq":
        run_seq_case(env, case, res)
    elif kind == "latedir":
        run_latedir_case(env, case, res)
    elif kind == "obstacle":
        run_obstacle_case(env, case, res)
    elif kind == "samepath":
        run_samepath_case(env, case, res)
    elif kind == "reentry":
        run_reentry_case(env, case, res)
    else:
        raise ValueError("unknown case kind %r" % kind)


class InScratchDir:
    """Run with the scratch directory as cwd: whatever a (possibly mutated)
    tree does with a relative path - e.g. treating STDERR as a file name -
    lands under ctx.tmp, never under /verif or /repo."""

    def __init__(self, ctx):
        self.ctx = ctx

    def __enter__(self):
        self.old = os.getcwd()
        os.chdir(self.ctx.tmp)

    def __exit__(self, *exc):
        os.chdir(self.old)
        return False


def run_shard(ctx):
    with InScratchDir(ctx):
        _run_shard(ctx)


def _run_shard(ctx):
    env = Env(ctx)
    res = ctx.res
    old_raise = logging.raiseExceptions
    try:
        i = 0
        for case in gen_levels(0):
            i += 1
            if ctx.mine(i):
                run_case(env, case, res)
        for case in gen_handler_table():
            i += 1
            if ctx.mine(i):
                run_case(env, case, res)
        for k in range(N_RANDOM_HANDLERS[ctx.tier]):
            i += 1
            if ctx.mine(i):
                run_case(env, random_config(ctx.rng("cfg", k), k), res)
        for n, case in gen_formats(ctx):
            if ctx.mine(n):
                run_case(env, case, res)
        for k in range(N_FORMAT_RANDOM[ctx.tier]):
            i += 1
            if not ctx.mine(i):
                continue
            rng = ctx.rng("fmt", k)
            style = rng.choice(reflog.STYLES)
            fmt = random_format(rng, style)
            if not text_safe(fmt):
                res.count("skipped_not_text_safe")
                continue
            run_case(env, format_case(1000000 + k, style,
                                      rng.random() < 0.5, fmt), res)
        for unit in gen_stateful_pairs():
            i += 1
            if ctx.mine(i):
                res.count("stateful_units")
                for case in unit:
                    run_case(env, case, res)
        for case in directed_sequences():
            i += 1
            if ctx.mine(i):
                run_case(env, case, res)
        for case in latedir_cases():
            i += 1
            if ctx.mine(i):
                run_case(env, case, res)
        for case in samepath_cases():
            i += 1
            if ctx.mine(i):
                run_case(env, case, res)
        for case in latedir_cases():
            # the same handler layouts, all built, with the later handlers'
            # directory moved away during one reopenFiles()
            i += 1
            if ctx.mine(i):
                run_case(env, dict(case, kind="obstacle"), res)
        for case in reentry_cases():
            i += 1
            if ctx.mine(i):
                run_case(env, case, res)
        for k in range(N_SEQUENCES[ctx.tier]):
            i += 1
            if ctx.mine(i):
                run_case(env, random_sequence(ctx.rng("seq", k), k), res)
    finally:
        logging.raiseExceptions = old_raise
        env.close()
    leftovers = [k for k in logging.Logger.manager.loggerDict
                 if k.startswith("zcv")]
    if leftovers or env.loghandler._reopenable_handlers or \
            logging.getLogger().handlers:
        res.inconclusive_because("logging state not restored: %r"
                                 % leftovers[:3])
    res.info["bounds"] = {
        "level_spellings": len(level_spellings()),
        "option_table": "3 paths x %d rotation variants x 3 delay x 4 "
                        "encodings" % len(ROTATIONS),
        "random_configurations": N_RANDOM_HANDLERS[ctx.tier],
        "format_product": "classic %d fields x %d conversions x %d flags x "
                          "%d widths x %d precisions; format %d x %d x %d; "
                          "templates %d x 2 forms x %d contexts; x "
                          "arbitrary-fields off/on"
                          % (len(ALL_FIELDS), len(CLASSIC_CONV),
                             len(CLASSIC_FLAGS), len(CLASSIC_WIDTH),
                             len(CLASSIC_PREC), len(ALL_FIELDS),
                             len(FORMAT_CONV), len(FORMAT_SPEC),
                             len(ALL_FIELDS), len(TEMPLATE_CTX)),
        "format_product_sampled": N_FORMAT_SAMPLE[ctx.tier] or "all",
        "random_formats": N_FORMAT_RANDOM[ctx.tier],
        "sequences": N_SEQUENCES[ctx.tier],
        "max_ops": 6,
    }


def finalize(m, tier):
    return {"exhaustive": False,
            "exhaustive_scope": "level table and logfile option table are "
            "enumerated completely; the format product is complete only in "
            "the thorough tier; configurations and op sequences are seeded "
            "samples"}


def replay(ctx, case):
    with InScratchDir(ctx):
        env = Env(ctx)
        try:
            run_case(env, case, ctx.res)
        finally:
            env.close()
