"""C03 — configuration text is read by the documented line grammar only.

Oracle: ref.refparse (hand-written scanner) vs (1) the event trace of the real
ZConfigParser driven with a recording context and (2) the nested mapping
returned by ZConfig.schemaless.loadConfigFile.
"""

import io
import itertools
import os

from ..mon.recctx import FlatContext, RecordingContext
from ..ref import refparse

ID = "C03"
LEVEL = "exploration"
TECHNIQUE = ("runtime monitoring: reference line-grammar parser vs recorded "
             "event trace of ZConfigParser and vs schemaless result, on "
             "bounded-exhaustive and random texts")
RULE = ("(a) every single-line text over the 16-symbol class alphabet "
        "{< > / % # ( ) $ a B 1 - space tab U+2028 e-acute} up to length "
        "5 (quick) / 6 (thorough), and every such string of length <=L-2 "
        "after each of the prefixes '%define ', '%import ', '%include ', "
        "'<a ', '</', 'k ' and inside an open section; (b) every sequence "
        "of <=4 lines (quick <=3) drawn from a pool of representatives and "
        "near-misses of every line class; (c) random texts <=40 lines, "
        "nesting <=6 with character noise.  Each text is observed twice "
        "(recording context, schemaless).  Non-trivial = at least one line "
        "that is neither blank nor comment; distinct_nontrivial = distinct "
        "(line-class sequence, outcome, reason) signatures."
        " Family 'foreign': lines in the syntax of other configuration languages, spaced or truncated directive names, U+001A.")
LEVEL_TEXT = ("Every text of the bounded spaces (a) and (b) is executed "
              "through the real parser and compared with an independent "
              "reference reader: any misreading of a line shape that shows "
              "on texts of those sizes is observed; (c) samples larger "
              "texts.  Exhaustive within the stated bounds, a sample beyond.")
ASSUMPTIONS = [
    "zcverif/ref/refparse.py (DESIGN.md Appendix A) is the documented "
    "grammar; whitespace is str.isspace(); lines end at '\\n' only",
    "re-definition of a %define name is C05's subject and unjudged here",
    "line numbers are C08's subject and not compared here",
]
FLOORS = {"quick": {"judged": 1000000, "schemaless_judged": 1000000},
          "thorough": {"judged": 15000000, "schemaless_judged": 15000000}}

HOOK_FLOORS = {"quick": {"case_preserving_subclass_parsed_first": 10000,
                         "schema_based_load_with_directives": 2},
               "thorough": {"case_preserving_subclass_parsed_first": 100000,
                            "schema_based_load_with_directives": 2}}

ALPHABET = "<>/%#()$aB1- \t é"
BOUND = {"quick": 5, "thorough": 6}
PREFIXES = ["%define ", "%import ", "%include ", "<a ", "</", "k ", "%",
            # any white space separates a directive from its argument
            "%define\t", "%include\t", "%import\x0c", "%define\x0bn "]
POOL_QUICK = ["", "k v", "<a>", "</a>", "<a b/>", "%define n v", "k $n",
              "</b>", "<A B>", "(k) v", "%include f", "# c"]
POOL_QUICK = POOL_QUICK + ["</a b>", "%include $(ZCV_EMPTY)",
                           "%key_value k v", "%directive import p",
                           # a section name is not a value: never expanded
                           "<a $n>", "<b ${n}/>",
                           "%define\tn\tv", "%include\tf"]
POOL_THOROUGH = POOL_QUICK + [
    "</a/>", "</a  >", "k $(ZCV_EMPTY)", "%import $(ZCV_EMPTY)",
    " ", "k", "K  v w ", "k (v)", "k(v", "<a  B >", "< a>", "<a b c>",
    "<a/>", "<a/ >", "</A >", "</ a>", "<a", "</a", "%define N", "%define n",
    "%define n $n", "%Define n v", "%import p", "%import", "%foo x", "k $",
]
RANDOM = {"quick": 3000, "thorough": 200000}
# syntax of other configuration languages that this grammar does not have:
# quoting, assignment signs, INI headers, XML attributes / comments /
# declarations, continuation lines, inline comments - all of it is plain
# key / value text or a malformed header here
FOREIGN = [
    '<a "b c">', "<a 'b c'>", '<a "b">', '<a "b"/>', '<"a" b>', '<a b="c">',
    '<a "b c"/>', '<a " b">', '<a b"c>', "<a b='c d'/>", '<a ""/>',
    'k "v w"', '"k" v', "k 'v'", '"k v" w', 'k "', "k ''", 'k "v" "w"',
    'k "a""b"', "k = v", "k=v", "k: v", "k:v", "k := v", "[a]", "[a b]",
    "k v # c", "k v ; c", "; c", "// c", "/* c */", "k v \\", "k \\",
    "<!-- c -->", "<?xml version='1.0'?>", "<!DOCTYPE a>", "<a></a>",
    "<a>k v</a>", "<a/><b/>", "include f", "@include f", "!include f",
    "%define n = v", "%define n=v", "%define n: v", '%define n "v w"',
    "k ${n:-d}", "k ${n-d}", "k $[n]", "k %(n)s", "k {n}", "k `n`",
    "k $n.x", "k $n-x", "k ${n}}", "k <v>", "k </a>", "k <a/>", "k %define",
    "k\tv", "k\nv", "k v\n", "<a\tb>", "&lt;a&gt;", "k &amp; v",
    # a directive is '%' immediately followed by its name
    "% define n v", "%\tdefine n v", "% include f", "% import p",
    "%  define n v", "%\u3000include f", "%\u00a0import p", "% define",
    "%% define n v", "%define\u00a0n v",
    # ... and its name in full: pieces of the names are no directives
    "%inc f", "%def n v", "%imp p", "%e x", "%port p", "%fine n v",
    "%clude f", "%includes f", "%define_ n v", "%d n v", "%i p", "%de",
    "%import_ p", "%in f", "%include.f",
    # U+001A (the DOS end-of-file mark) is a character like any other
    "\x1a", "\x1a v", "k\x1a v", "k v\x1a w", "\x1ak v", "# c\x1a",
    "<a\x1a>", "<a b\x1a/>", " \x1a", "k \x1a",
]
FOLD_PAIRS = [("straße", "strasse"), ("ς", "σ"), ("ﬁle", "file"),
              ("ſ", "s"), ("maſt", "mast"), ("İx", "i̇x"), ("ǅ", "ǆ"),
              ("ß", "ss"), ("é", "e")]


def shards(tier):
    return 16


# ---------------------------------------------------------------------------
# observation

DECOY_RUNS = [0]


NTH = [0]
NESTED = [0]
_IN_NESTED = [False]
NESTED_TEXTS = [
    # (text, expected outcome class, expected number of events)
    ("<a>\nk v\n</a>\n</a>\n", "syntax", None),
    ("<a>\n<b>\n</b>\n", "syntax", None),
    ("</a>\n", "syntax", None),
    ("%define n w\n<a x>\n  k $n\n  <b/>\n</a>\nk2 $$\n", "ok", 6),
    ("%define n w\n%define n x\n", "syntax", None),
    ("k $n\n", "subst-missing", None),
]


class NestedBroken(Exception):
    pass


def nested_parses():
    """Run from inside a callback of a parse in progress: other texts are
    parsed start to finish by parsers of their own; each must come out as
    it does on its own, and the outer parse must not notice."""
    if _IN_NESTED[0]:
        return
    _IN_NESTED[0] = True
    try:
        NESTED[0] += 1
        text, want, nev = NESTED_TEXTS[NESTED[0] % len(NESTED_TEXTS)]
        ev, out, defs = observe_parser(text, plain=True)
        if out[0] != want or (nev is not None and len(ev) != nev):
            raise NestedBroken("nested parse of %r gave %r with %d events"
                               % (text, out, len(ev)))
    finally:
        _IN_NESTED[0] = False


def observe_parser(text, plain=False, flat=False, raw_newlines=False):
    import ZConfig
    from ZConfig.cfgparser import ZConfigParser
    from ZConfig.schemaless import Resource
    if "<" in text and text != text.lower() and not plain:
        # an application's own parser subclass reading the same text first
        # (case kept, as _normalize_case allows): whatever it leaves behind
        # in the module or the class must not reach the stock parser
        class KeepCase(ZConfigParser):
            def _normalize_case(self, string):
                return string
        dctx = RecordingContext()
        decoy = KeepCase(Resource(io.StringIO(text), None), dctx)
        dctx.parser = decoy
        try:
            decoy.parse(dctx.top)
        except Exception:  # noqa
            pass
        DECOY_RUNS[0] += 1
    ctx = FlatContext() if flat else RecordingContext()
    NTH[0] += 1
    if NTH[0] % 8 == 0 and not flat and not plain:
        ctx.reenter = nested_parses
    parser = ZConfigParser(Resource(
        io.StringIO(text, newline="") if raw_newlines
        else io.StringIO(text), None), ctx)
    ctx.parser = parser
    try:
        parser.parse(ctx.top)
    except ZConfig.SubstitutionReplacementError as e:
        out = ("subst-missing", getattr(e, "name", None))
    except ZConfig.SubstitutionSyntaxError:
        out = ("subst-syntax",)
    except ZConfig.ConfigurationSyntaxError:
        out = ("syntax",)
    except ZConfig.ConfigurationError as e:
        out = ("config-error", type(e).__name__)
    except Exception as e:  # noqa
        out = ("internal", type(e).__name__, str(e)[:80])
    else:
        out = ("ok",)
    return ctx.events, out, dict(parser.defines)


def strip_lineno(events):
    # 'define' is handled inside the parser and is not a context event; the
    # define table itself is compared separately
    return [list(e[:-1]) for e in events if e[0] != "define"]


def outcome_agrees(exp, obs):
    k = exp[0]
    if k == "ok":
        return obs == ("ok",)
    if k == "syntax":
        return obs == ("syntax",)
    if k == "subst-syntax":
        return obs == ("subst-syntax",)
    if k == "subst-missing":
        return (obs[0] == "subst-missing" and isinstance(obs[1], str)
                and obs[1].lower() == exp[1].lower())
    if k == "reject-any":
        return obs[0] in ("syntax", "subst-syntax", "subst-missing",
                          "config-error")
    return False


def walk_schemaless(sec, top=True):
    d = {"type": sec.type, "name": sec.name,
         "keys": {k: list(v) for k, v in dict.items(sec)},
         "sections": [walk_schemaless(s, False) for s in sec.sections]}
    if top:
        d["imports"] = list(sec.imports)
    return d


def observe_schemaless(text):
    import ZConfig
    from ZConfig import schemaless
    try:
        top = schemaless.loadConfigFile(io.StringIO(text))
    except NotImplementedError:
        return ("notimpl",), None
    except ZConfig.SubstitutionReplacementError as e:
        return ("subst-missing", getattr(e, "name", None)), None
    except ZConfig.SubstitutionSyntaxError:
        return ("subst-syntax",), None
    except ZConfig.ConfigurationSyntaxError:
        return ("syntax",), None
    except ZConfig.ConfigurationError as e:
        return ("config-error", type(e).__name__), None
    except Exception as e:  # noqa
        return ("internal", type(e).__name__, str(e)[:80]), None
    return ("ok",), walk_schemaless(top)


# ---------------------------------------------------------------------------
# signatures

def line_class(s):
    s = refparse.strip(s)
    if s == "":
        return "b"
    if s[0] == "#":
        return "c"
    if s[:2] == "</":
        return "E" if s[-1] == ">" else "e!"
    if s[0] == "<":
        if s[-1] != ">":
            return "s!"
        body = s[1:-1]
        em = body[-1:] == "/"
        h = refparse.header(body[:-1] if em else body)
        if h is None:
            return "s?"
        return ("Z" if em else "S") + ("n" if h[1] else "")
    if s[0] == "%":
        kv = refparse.key_value(s[1:])
        if kv is None:
            return "%?"
        return "%" + (kv[0][:3] if kv[0] in refparse.DIRECTIVES else "x") + \
            ("" if kv[1] else "0")
    kv = refparse.key_value(s)
    if kv is None:
        return "k?"
    v = kv[1]
    return "k" + ("" if v else "0") + ("$" if "$" in v else "") + \
        ("(" if v[:1] in "()" else "")


def text_sig(text, outcome):
    cls = [line_class(l) for l in refparse.split_lines(text)[:6]]
    why = outcome[2] if outcome[0] in ("syntax", "subst-syntax") else ""
    return "%s>%s:%s" % (",".join(cls), outcome[0], why)


# ---------------------------------------------------------------------------

def check_text(ctx, text, family):
    res = ctx.res
    env = dict(os.environ)
    res.evaluations += 1
    exp_events, exp_out, exp_defs = refparse.parse(text, env=env,
                                                   judge_redefine=False)
    obs_events, obs_out, obs_defs = observe_parser(text)
    case = {"text": text, "family": family}
    nontrivial = any(line_class(l) not in ("b", "c")
                     for l in refparse.split_lines(text))
    if exp_out[0] == "unjudged":
        res.count("unjudged")
        res.sample("unjudged", dict(case, why=exp_out[1]), 1)
    else:
        res.count("judged")
        res.count("parser_" + exp_out[0])
        if nontrivial:
            res.sig(text_sig(text, exp_out))
            res.sample("%s-%s" % (family, exp_out[0]),
                       dict(case, expected_outcome=list(exp_out),
                            expected_events=strip_lineno(exp_events)[:8]), 1)
        ok = outcome_agrees(exp_out, obs_out)
        ev_ok = strip_lineno(exp_events) == strip_lineno(obs_events)
        if ok and exp_out[0] == "ok" and exp_defs != obs_defs:
            ev_ok = False
        if not (ok and ev_ok):
            res.violate(
                "parser-trace-disagrees", dict(case, point="parser"),
                {"outcome": list(exp_out),
                 "events": strip_lineno(exp_events), "defines": exp_defs},
                {"outcome": list(obs_out),
                 "events": strip_lineno(obs_events), "defines": obs_defs},
                detail="text=%r" % text,
                vsig="parser|%s|%s|%s" % (exp_out[0], obs_out[0],
                                          text_sig(text, exp_out)))
    if exp_out[0] != "unjudged" and res.evaluations % 8 == 3:
        # a context with transparent sections (the child of a container is
        # the container itself): nesting is the parser's business all the
        # same - only the outcome can be compared
        _ev, f_out, _d = observe_parser(text, flat=True)
        res.count("flat_context_parses")
        if not outcome_agrees(exp_out, f_out):
            res.violate("parser-outcome-depends-on-context",
                        dict(case, point="flat-context"), list(exp_out),
                        list(f_out), detail="text=%r" % text,
                        vsig="flat|%s|%s" % (exp_out[0], f_out[0]))
    if "\r" in text and exp_out[0] != "unjudged":
        # the same text from a file object that hands out lines ending in
        # CR or CR LF untranslated: a line is what readline() delivers
        norm = text.replace("\r\n", "\n").replace("\r", "\n")
        n_events, n_out, n_defs = refparse.parse(norm, env=env,
                                                 judge_redefine=False)
        r_events, r_out, r_defs = observe_parser(text, raw_newlines=True)
        res.count("raw_newline_parses")
        if n_out[0] != "unjudged" and not (
                outcome_agrees(n_out, r_out) and
                strip_lineno(n_events) == strip_lineno(r_events)):
            res.violate("parser-trace-disagrees",
                        dict(case, point="raw-newlines"),
                        {"outcome": list(n_out),
                         "events": strip_lineno(n_events)},
                        {"outcome": list(r_out),
                         "events": strip_lineno(r_events)},
                        detail="newline='' text=%r" % text,
                        vsig="rawnl|%s|%s" % (n_out[0], r_out[0]))
    # second observation point: schemaless
    s_events, s_out, _ = refparse.parse(text, schemaless=True, env=env)
    o_out, o_tree = observe_schemaless(text)
    if s_out[0] == "unjudged":
        res.count("schemaless_unjudged")
        return
    res.count("schemaless_judged")
    res.count("schemaless_" + s_out[0])
    if s_out[0] == "notimpl":
        ok = o_out == ("notimpl",)
    else:
        ok = outcome_agrees(s_out, o_out)
    exp_tree = None
    if ok and s_out[0] == "ok":
        exp_tree = refparse.to_tree(s_events)
        ok = exp_tree == o_tree
    if not ok:
        res.violate(
            "schemaless-disagrees", dict(case, point="schemaless"),
            {"outcome": list(s_out), "tree": exp_tree},
            {"outcome": list(o_out), "tree": o_tree},
            detail="text=%r" % text,
            vsig="schemaless|%s|%s|%s" % (s_out[0], o_out[0],
                                          text_sig(text, s_out)))


def enum_lines(ctx, bound, salt):
    """All strings over ALPHABET up to *bound*, partitioned by 2-char prefix
    (rotated by *salt* so different families load shards evenly)."""
    if bound < 0:
        return
    if ctx.mine(salt):
        for n in range(0, min(2, bound + 1)):
            for t in itertools.product(ALPHABET, repeat=n):
                yield "".join(t)
    pi = 0
    for pre in itertools.product(ALPHABET, repeat=2):
        pi += 1
        if not ctx.mine(pi + salt):
            continue
        pre = "".join(pre)
        for n in range(0, bound - 2 + 1):
            for t in itertools.product(ALPHABET, repeat=n):
                yield pre + "".join(t)


_RAND_LINES = [
    "k v", "key  some value ", "k", "a-b.c 1", "k $$x", "k ${n}y", "k $n",
    "k $(ZCV_ENV)", "k $(ZCV_EMPTY)", "%include $(ZCV_EMPTY)",
    "%import $(ZCV_EMPTY)", "</a b>", "</sec-t x>", "k (paren)",
    "%key_value k v", "%directive define n v", "%define_ n v", "%error x",
    "%replace x", "%parse x", "%start_section a", "%end_section a",
    "%nextline x", "%_normalize_case x", "%__init__ x", "k v (x) ", "# comment", "", "   ",
    "\tk\tv", "k v", "%import some.pkg", "%define n v w",
    "%define M $n$n", "%include f.conf", "%define", "%import", "%bogus x",
    "(k v", ")", "k)", "<>", "< a>", "<a b c>", "<a (b)>", "</>", "k $",
    "k ${n", "k $-", "<a", "</a", "%Define n v",
]
_TYPES = ["a", "B", "sec-t", "x.y", "s/t", "a>b"]


def random_text(rng):
    lines = []
    stack = []
    n = rng.randint(1, 40)
    for _ in range(n):
        r = rng.random()
        if r < 0.18 and len(stack) < 6:
            t = rng.choice(_TYPES)
            name = rng.choice(["", " n1", " Name", "  x/y "])
            if rng.random() < 0.3:
                lines.append("<%s%s/>" % (t, name))
            else:
                lines.append("<%s%s>" % (t, name))
                stack.append(t)
        elif r < 0.34 and stack:
            t = stack.pop()
            t = t.upper() if rng.random() < 0.3 else t
            lines.append("</%s%s>" % (t, rng.choice(["", " ", "\t"])))
        elif r < 0.40:
            lines.append("</%s>" % rng.choice(_TYPES))    # often wrong
            if stack and rng.random() < 0.5:
                pass
        else:
            lines.append(rng.choice(_RAND_LINES))
        if rng.random() < 0.5:
            lines[-1] = rng.choice(["", " ", "  ", "\t"]) + lines[-1] + \
                rng.choice(["", " ", "\t "])
        if rng.random() < 0.06 and lines[-1]:
            # character noise
            s = lines[-1]
            i = rng.randrange(len(s))
            op = rng.random()
            c = rng.choice(ALPHABET)
            if op < 0.4:
                s = s[:i] + c + s[i:]
            elif op < 0.7:
                s = s[:i] + s[i + 1:]
            else:
                s = s[:i] + c + s[i + 1:]
            lines[-1] = s.replace("\n", " ")
    if rng.random() < 0.7:
        while stack:
            lines.append("</%s>" % stack.pop())
    text = "\n".join(lines)
    if rng.random() < 0.7:
        text += "\n"
    return text


def size_texts():
    """(family, text): a line is a line however long it is (lengths around
    the usual read-buffer sizes, and far beyond); sections nest to any
    depth."""
    for n in (4095, 4096, 4097, 8191, 8192, 8193, 16385, 70000):
        for tmpl in ("k %s\n", "%s v\n", "#%s\nk v\n", "<a %s>\n</a>\n",
                     "<%s>\nk v\n</%s>\n", "k v %s w\nk2 x\n",
                     "<a>\n  k %s\n</a>\nk2 x\n",
                     "%%define n %s\nk $n\n", "%%import %s\n",
                     "k v%s\n", "<a/>%s\n"):
            for fill in ("x", "k v ", "ab <c> "):
                body = (fill * (n // len(fill) + 1))[:n].strip()
                if tmpl.startswith(("%s", "<%s", "<a %s", "%%import")) \
                        and fill != "x":
                    continue
                if tmpl in ("k v%s\n", "<a/>%s\n"):
                    if fill != "x":
                        continue
                    body = " " * n         # trailing blanks only
                yield "longline", tmpl.replace("%s", body).replace("%%", "%")
    for depth in (63, 64, 65, 66, 129, 300):
        yield "deep", "".join("<s%d>\n" % i for i in range(depth)) + \
            "k v\n" + "".join("</s%d>\n" % i
                              for i in reversed(range(depth)))
        yield "deep", "<a>\n" * depth + "k v\n" + "</a>\n" * depth + \
            "<b/>\n"


def schema_based_load(ctx, when):
    """The schema-based loader reads a text with %define and %include in
    the same process (it supports both): whatever that leaves behind in
    shared parser state must not make the schema-less loader accept them,
    and the schema-less loads must not break it either."""
    import ZConfig
    inc = os.path.join(ctx.tmp, "c17inc.conf")
    with open(inc, "w") as f:
        f.write("k included\n")
    schema = ZConfig.loadSchemaFile(io.StringIO(
        "<schema><multikey name='k' attribute='k'/></schema>"))
    text = "%%define place somewhere\nk $place\n%%include %s\n" % inc
    try:
        cfg, _ = ZConfig.loadConfigFile(schema, io.StringIO(text))
        got = list(cfg.k)
    except Exception as e:  # noqa
        got = "%s: %s" % (type(e).__name__, e)
    ctx.res.hook("schema_based_load_with_directives")
    if got != ["somewhere", "included"]:
        ctx.res.violate("schema-based-load-disturbed",
                        {"text": text, "family": "history", "when": when},
                        ["somewhere", "included"], got,
                        detail="schema-based load %s the schema-less "
                        "loads of this process" % when,
                        vsig="history|%s" % when)


def run_shard(ctx):
    schema_based_load(ctx, "before")
    try:
        _run_shard(ctx)
    finally:
        schema_based_load(ctx, "after")


def _run_shard(ctx):
    # an environment variable that is set but empty (a "%include $(VAR)"
    # whose argument expands to nothing is still an %include)
    os.environ["ZCV_EMPTY"] = ""
    bound = BOUND[ctx.tier]
    # (a) single lines
    for s in enum_lines(ctx, bound, 0):
        check_text(ctx, s, "line")
    for pi, pre in enumerate(PREFIXES):
        for s in enum_lines(ctx, bound - 2, pi + 1):
            check_text(ctx, pre + s, "prefixed")
    for s in enum_lines(ctx, bound - 2, 9):
        check_text(ctx, "<a>\n" + s + "\n</a>\n", "wrapped")
    # closers of an open section with anything appended to the type
    for s in enum_lines(ctx, bound - 2, 11):
        check_text(ctx, "<a>\nk v\n</a" + s + "\n", "closer")
        check_text(ctx, "<b>\n<a>\n</a" + s + "\n</b>\n", "closer")
    # ... and with anything between '</' and the type
    for s in enum_lines(ctx, bound - 2, 12):
        check_text(ctx, "<a>\nk v\n</" + s + "a>\n", "closer")
        check_text(ctx, "<a>\n</" + s + "a" + s + ">\n", "closer")
    # closers that equal the open type only under case *folding*
    # (lower-casing is what the grammar says): must be mismatches
    idx = 0
    for o, cl in FOLD_PAIRS:
        for a, b in ((o, cl), (cl, o), (o, o.upper()), (o.upper(), o)):
            for name in ("", " n1"):
                idx += 1
                if ctx.mine(idx):
                    check_text(ctx, "<%s%s>\nk v\n</%s>\n" % (a, name, b),
                               "fold")
                    check_text(ctx, "<x>\n<%s%s/>\n</x>\n<%s>\n</%s>\n"
                               % (a, name, a, b), "fold")
    # (a') lines written in the syntax of other configuration languages
    idx = 0
    for line in FOREIGN:
        for tmpl in ("%s\n", "%%define n w\n%s\n", "<a>\n%s\n</a>\n",
                     "<a b>\n  %s\n</a>\n", "%s\n</a>\n", "%s\nk v\n",
                     "<a>\n%s\n", "%s"):
            idx += 1
            if ctx.mine(idx):
                check_text(ctx, tmpl % line, "foreign")
    # (b) pooled sequences
    pool = POOL_QUICK if ctx.quick else POOL_THOROUGH
    maxlines = 3 if ctx.quick else 4
    idx = 0
    for n in range(1, maxlines + 1):
        for seq in itertools.product(pool, repeat=n):
            idx += 1
            if not ctx.mine(idx):
                continue
            check_text(ctx, "\n".join(seq) + ("\n" if idx % 2 else ""),
                       "pool")
            if idx % 5 == 0 and n > 1:
                check_text(ctx, ("\r\n" if idx % 10 else "\r").join(seq) +
                           "\n", "pool-cr")
    # (b') long runs of lines that carry nothing, between lines that do
    idx = 0
    for n in (150, 1100, 2600) if ctx.quick else (150, 990, 1100, 2600,
                                                 7000):
        for filler in ("\n", "# c\n", " \t\n", "\n  # c $ <\n\t\n"):
            for tmpl in ("k v\n%s<a>\n%sk2 w\n</a>\n%s",
                         "%sk v\n", "<a>\n%s</a>\n", "<a>\n%s</b>\n",
                         "k v\n%s</a>\n", "%s<a>\n"):
                idx += 1
                if ctx.mine(idx):
                    run = filler * n
                    check_text(ctx, tmpl.replace("%s", run), "longrun")
    # (b3) long lines and deep nesting
    for idx, (fam, text) in enumerate(size_texts()):
        if ctx.mine(idx):
            check_text(ctx, text, fam)
    # (c) random texts
    rng = ctx.rng("random")
    for i in range(RANDOM[ctx.tier] // ctx.nshards):
        check_text(ctx, random_text(rng), "random")
    ctx.res.hook("case_preserving_subclass_parsed_first", DECOY_RUNS[0])
    ctx.res.hook("parses_nested_in_a_callback", NESTED[0])
    ctx.res.info["bounds"] = {
        "alphabet": ALPHABET, "single_line_max_len": bound,
        "pool_size": len(pool), "pool_max_lines": maxlines,
        "random_texts": RANDOM[ctx.tier]}


def finalize(m, tier):
    return {"exhaustive": True,
            "exhaustive_scope": "families (a) single lines / prefixed / "
            "wrapped and (b) pooled sequences are enumerated completely "
            "within the stated bounds; family (c) is a random sample"}


def replay(ctx, case):
    check_text(ctx, case["text"], case.get("family", "replay"))
