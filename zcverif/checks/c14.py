"""C14 — command-line overrides act like editing the addressed keys.

Metamorphic monitor: load(T, overrides) must equal load(edit(T, overrides))
where edit is the reference editor (gen.overrides.apply_overrides); both
sides are decided by the real loader.
"""

import os

from . import conf_common as cc
from ..gen import family, overrides, texts
from ..mon import outcome

ID = "C14"
LEVEL = "exploration"
TECHNIQUE = ("runtime monitoring: metamorphic comparator load(T, overrides) "
             "== load(reference-edited T), plus exception-class monitor for "
             "unconvertible values and refused specifiers")
RULE = ("accepted texts of the C01 family with at least one section x "
        "override lists of 1..5 specifiers addressing existing and "
        "non-existing sections by name, by type and in mixed case at "
        "section depth 0..3, declared, wildcard and disallowed keys, "
        "convertible, unconvertible and '$'/'='-bearing values, repeated "
        "specifiers for one key; plus malformed specifiers (no '=', empty "
        "path component).  Non-trivial = at least one specifier addresses a "
        "section; distinct_nontrivial = distinct (depths, addressing modes, "
        "fault flags, outcome) signatures."
        ' Path components include names that are no type names, pieces of occurring names and backslashes; the reused command-line loader first reads refused texts in half of its cases.')
LEVEL_TEXT = ("Each (text, override list) is loaded with the real loader "
              "with overrides and, independently, as the hand-edited text "
              "the property describes; value trees or the fact of rejection "
              "must agree; an unconvertible override value must surface as "
              "DataConversionError.")
ASSUMPTIONS = [
    "gen/overrides.py apply_overrides is the edit the statement describes "
    "(first child section in file order matching by lower-cased name or by "
    "basic-key-normalised type; all lines of the key dropped; values "
    "appended verbatim with '$' escaped)",
    "override values carry no leading/trailing whitespace and path "
    "components are basic-key shaped (statement silent otherwise)",
]
FLOORS = {"quick": {"compared": 6000, "compared_ok": 1500,
                    "compared_reject": 1500, "badvalue_class_checked": 150,
                    "bad_specifiers": 500},
          "thorough": {"compared": 300000, "compared_ok": 150000,
                       "compared_reject": 120000,
                       "badvalue_class_checked": 20000,
                       "bad_specifiers": 80000}}
N_MODELS = {"quick": 1500, "thorough": 60000}
TEXTS = {"quick": 8, "thorough": 20}
BAD_SPECS = ["novalue", "a//b=v", "/a=v", "a/=v", "=v", "a/b", "//=x", ""]


def shards(tier):
    return 16


def load_with(schema, text, specs):
    return outcome.load_text(schema, text, overrides=specs)


def key(o):
    # the outcome of an accepted load is the value tree and the entries of
    # the handler object returned with it (name, value), in order
    return o[:3] if o[0] == "ok" else ("reject",)


def judge(ctx, p, rng):
    import ZConfig
    res = ctx.res
    if p.exp[0] == "unjudged":
        return
    if p.exp[0] != "accept" or p.obs[0] != "ok":
        # a text with one fault in it: an override that replaces the
        # faulty line cures it, any other leaves it rejected - exactly as
        # the hand-edited text
        res.count("texts_with_a_fault")
    if not overrides.section_children(p.tree):
        res.count("no_section")
        return
    specs, infos = overrides.gen_specs(rng, p.res, p.tree)
    res.evaluations += 1
    case = {"model": p.model, "text": p.text, "overrides": specs}
    o_over = load_with(p.schema, p.text, specs)
    try:
        edited = texts.render(overrides.apply_overrides(p.res, p.tree,
                                                        specs))
        o_edit = outcome.load_text(p.schema, edited)
    except overrides.NoSuchSection:
        edited = None
        o_edit = ("reject", "config", "NoSuchSection", None, None, "")
    res.count("compared")
    res.count("compared_" + o_edit[0])
    flags = set()
    for i in infos:
        flags.update(k for k in i if k not in ("by", "depth"))
        flags.update(i.get("by", []))
        if "depth" in i:
            flags.add("d%d" % i["depth"])
    res.sig("%s|%s|%d" % (",".join(sorted(flags)), o_edit[0], len(specs)))
    res.sample("override-" + o_edit[0],
               {"schema": p.xml, "text": p.text, "overrides": specs,
                "edited_text": edited}, 1)
    # the documented loader class used directly, and used twice: the
    # option list belongs to the loader, not to one load
    if rng.random() < 0.35:
        import io
        import ZConfig
        from ZConfig import cmdline
        res.count("loader_object_reuse")
        outs = []
        try:
            ld = cmdline.ExtendedConfigLoader(p.schema)
            # a source position of the caller's own may come with each
            # specifier (an options file, say)
            own_pos = rng.random() < 0.5
            if own_pos:
                res.count("options_with_own_position")
            for n_, s_ in enumerate(specs):
                if own_pos:
                    # ("a sequence of three values": a tuple or a list)
                    pos_ = ("zcv-options.txt", n_ + 1, 4)
                    ld.addOption(s_, list(pos_) if n_ % 2 else pos_)
                else:
                    ld.addOption(s_)
            if rng.random() < 0.5:
                # the loader first reads texts that are refused - half-way
                # through a section, and at once: its options are as they
                # were for the loads that follow
                res.count("loader_object_reuse_after_refused_loads")
                for junk in (p.text + "<zcv-nosuch-type>\n",
                             "</zcv>\n" + p.text):
                    try:
                        ld.loadFile(io.StringIO(junk))
                    except Exception:  # noqa
                        pass
            for _ in (1, 2):
                try:
                    cfg, _h = ld.loadFile(io.StringIO(p.text))
                    outs.append(("ok", outcome.canon_value(cfg),
                                 [[h_, outcome.canon_value(v_)]
                                  for h_, v_ in _h._handlers]))
                except ZConfig.ConfigurationError as e:
                    outs.append(("reject", "config", type(e).__name__))
                except Exception as e:  # noqa
                    outs.append(("reject", "internal", type(e).__name__))
        except ZConfig.ConfigurationError:
            outs = [("reject",), ("reject",)]
        want = key(o_edit)
        for n_, o_ in enumerate(outs):
            if o_[:1] != want[:1] or (o_[0] == "ok" and
                                      tuple(o_[1:3]) != tuple(want[1:3])) \
                    or (o_[0] == "reject" and len(o_) > 1 and
                        o_[1] == "internal" and edited is not None and
                        o_edit[1] == "config"):
                res.violate("reused-loader-differs-from-edit",
                            dict(case, load=n_ + 1),
                            list(want)[:1], list(o_)[:1],
                            detail="load %d on one ExtendedConfigLoader: "
                            "overrides=%r text=%r" % (n_ + 1, specs, p.text),
                            vsig="reuse|%d|%s" % (n_, o_[0]))
                break
    if key(o_over) != key(o_edit):
        res.violate("override-differs-from-edit", case,
                    {"edited_text": edited,
                     "outcome": list(o_edit[:2]) if o_edit[0] == "ok"
                     else list(o_edit[:6])},
                    list(o_over[:2]) if o_over[0] == "ok"
                    else list(o_over[:6]),
                    detail="overrides=%r text=%r edited=%r"
                    % (specs, p.text, edited),
                    vsig="ov|%s|%s|%s" % (o_edit[0], o_over[0],
                                          o_over[2] if o_over[0] != "ok"
                                          else ""))
        return
    # exception class for an unconvertible override value that is the only
    # thing wrong: the edited text's own rejection must be a conversion
    # error, and so must the override load's
    if o_edit[0] == "reject" and edited is not None and \
            o_edit[2] == "DataConversionError" and \
            any(i.get("badvalue") for i in infos):
        # ... "the only thing wrong": without the specifiers that carry an
        # unconvertible value the load succeeds (another specifier may be
        # refused first, for a reason of its own and with its own class)
        rest = [s_ for s_, i_ in zip(specs, infos) if not i_.get("badvalue")]
        if load_with(p.schema, p.text, rest)[0] != "ok":
            res.count("badvalue_not_the_only_fault")
            return
        res.count("badvalue_class_checked")
        if o_over[2] != "DataConversionError":
            res.violate("unconvertible-override-not-a-conversion-error",
                        case, "DataConversionError", list(o_over[:6]),
                        detail="overrides=%r text=%r raised %s: %s"
                        % (specs, p.text, o_over[2], o_over[5]),
                        vsig="ovclass|%s" % o_over[2])


def check_bad_specs(ctx, schema, rng):
    import io
    import ZConfig
    from ZConfig import cmdline
    res = ctx.res
    # ... through the module-level functions as well: a list that holds a
    # malformed specifier is refused, wherever in the list it stands
    path = os.path.join(ctx.tmp, "c14-empty.conf")
    with open(path, "w") as f:
        f.write("")
    for spec in BAD_SPECS + ["  ", "\t", " \n"]:
        for fn, label in (
                (lambda sp: ZConfig.loadConfigFile(
                    schema, io.StringIO(""), overrides=sp), "loadConfigFile"),
                (lambda sp: ZConfig.loadConfig(schema, path, overrides=sp),
                 "loadConfig")):
            for lst in ([spec], ["nosuchkey9=v", spec], iter([spec]),
                        (x for x in ["alpha=v", spec]), (spec,)):
                res.evaluations += 1
                res.count("bad_specifiers_via_functions")
                try:
                    fn(lst)
                except ZConfig.ConfigurationSyntaxError as e:
                    if "nosuchkey9" in str(e):
                        res.violate("bad-specifier-accepted",
                                    {"spec": spec, "via": label,
                                     "list": repr(lst)},
                                    "refused as a specifier", str(e)[:200])
                    continue
                except Exception as e:  # noqa
                    res.violate("bad-specifier-wrong-error",
                                {"spec": spec, "via": label,
                                 "list": repr(lst)},
                                "ConfigurationSyntaxError for the specifier",
                                "%s: %s" % (type(e).__name__, e),
                                vsig="badspec-fn|%s" % type(e).__name__)
                    continue
                res.violate("bad-specifier-accepted",
                            {"spec": spec, "via": label, "list": repr(lst)},
                            "refused", "accepted",
                            vsig="badspec-fn|accepted")
    for spec in BAD_SPECS:
        res.evaluations += 1
        res.count("bad_specifiers")
        loader = cmdline.ExtendedConfigLoader(schema)
        try:
            loader.addOption(spec)
        except ZConfig.ConfigurationSyntaxError:
            continue
        except Exception as e:  # noqa
            res.violate("bad-specifier-wrong-error", {"spec": spec},
                        "ConfigurationSyntaxError at addOption",
                        "%s: %s" % (type(e).__name__, e))
            continue
        res.violate("bad-specifier-accepted", {"spec": spec},
                    "refused when added", "accepted")


def fault_plan(rng):
    return 0 if rng.random() < 0.8 else 1


def run_shard(ctx):
    rng = ctx.rng("specs")
    last_schema = None
    n = 0
    for p in cc.pairs(ctx, N_MODELS[ctx.tier], TEXTS[ctx.tier],
                      systematic=True, fault_plan=fault_plan,
                      p_bad_value=0.0, handlers=True, handler_density=0.3):
        if p.obs[0] == "ok" and p.obs[2]:
            ctx.res.count("texts_with_handler_entries")
        judge(ctx, p, rng)
        if p.schema is not last_schema:
            last_schema = p.schema
            n += 1
            if n % 4 == 0:
                check_bad_specs(ctx, p.schema, rng)


def replay(ctx, case):
    if "spec" in case:
        import io
        import ZConfig
        check_bad_specs(ctx, ZConfig.loadSchemaFile(io.StringIO(
            "<schema/>")), None)
        return
    p = cc.replay_pair(case)
    specs = case["overrides"]
    o_over = load_with(p.schema, p.text, specs)
    from ..ref import refmatch, refparse
    ev, out, _ = refparse.parse(p.text)
    tree = _tree_from_events(ev)
    try:
        edited = texts.render(overrides.apply_overrides(p.res, tree, specs))
        o_edit = outcome.load_text(p.schema, edited)
    except overrides.NoSuchSection:
        o_edit = ("reject", "config", "NoSuchSection", None, None, "")
    if key(o_over) != key(o_edit):
        ctx.res.violate("override-differs-from-edit", case,
                        list(o_edit[:6]), list(o_over[:6]))


def _tree_from_events(events):
    top = texts.mknode()
    nodes = {0: top}
    for e in events:
        if e[0] == "open":
            n = texts.mknode(e[3], e[4])
            nodes[e[1]] = n
            nodes[e[2]]["items"].append(["s", n])
        elif e[0] == "key":
            nodes[e[1]]["items"].append(["k", e[2],
                                         e[3].replace("$", "$$")])
    return top
