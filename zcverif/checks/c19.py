"""C19 -- every resource opened during a load is closed, however the load ends.

Fault enumeration (DESIGN.md section 4 "C19", Appendix E).  For every
generated load scenario (include / %import / <import> / extends graphs of a
few resources) a fault-free run records the scenario's shape; then every
single failure point of that shape is replayed:

  1. reading call i of resource j raises OSError, for all (i, j) -- both the
     file inside the Resource (readline for configurations, read for schema
     documents) and the URL stream that openResource reads first;
  2. the k-th datatype conversion raises (ValueError and RuntimeError);
  3. opening resource j raises OSError (urlopen / openPackageResource);
  4. the section datatype of the s-th section raises;
  5. the n-th LINE event inside the ZConfig package raises InjectedFault /
     InjectedAbort (sys.monitoring failpoints, Appendix E exclusions).

Oracle after each run, whatever ended the call (exception or none):

  (1) the resource tracker reports no open resource / URL stream, and every
      URL stream was already closed when the next resource was created;
  (2) follow-up 1: the same public call, same schema object, fresh loader,
      gives the fault-free baseline outcome again and leaves the application
      schema object's digest unchanged;
  (3) follow-up 2 (loader-object entry points): the *same* SchemaLoader /
      ConfigLoader instance loads again and gives the baseline (a
      SchemaLoader._cache holding a half-built schema, or a ConfigLoader
      remembering a half-done %import, shows up here).

One mechanism classifier exists (configloader-reused-after-failed-import,
confirmed on the pinned tree, fixed in the tree since): see
``loader_reuse_applies`` / ``forget_imports``.
"""

import hashlib
import importlib
import io
import os
import shutil
import sys
from urllib.request import pathname2url

from ..mon import failpoints
from ..mon import restrack

ID = "C19"
LEVEL = "fault_enumeration"
TECHNIQUE = ("runtime monitoring: resource tracker on createResource / "
             "urlopen / openPackageResource + exhaustive single-fault "
             "injection (I/O proxies, failing datatypes, sys.monitoring "
             "line failpoints)")
RULE = ("scenarios are generated load graphs (config %include chains / trees "
        "/ diamonds, %import of generated and shipped component packages, "
        "schema <import src>, <import package>, extends=; entry points "
        "path, URL, open file, StringIO+url, reused loader object); for each "
        "scenario EVERY single failure point of its fault-free shape is "
        "replayed (kinds 1-4 always; kind 5 = every LINE event of the "
        "ZConfig package x two exception classes, on all scenarios in the "
        "thorough tier and on the marked small ones in the quick tier). "
        "distinct_nontrivial counts distinct (scenario kind, fault kind, "
        "resource index / origin or code object where the fault landed, "
        "how the call ended) signatures."
        ' Separate history families (no fault injection): one SchemaLoader meeting refused documents and being asked again (directly, by <import src>, as a base); one ExtendedConfigLoader with options reading refused texts, then a good one; resources without any URL (StringIO, nameless and placeholder-named streams).')
LEVEL_TEXT = ("Per scenario the enumeration of single failure points is "
              "exhaustive: every read call of every resource, every "
              "datatype call, every open, every armed line event.  The "
              "scenario family itself is a bounded sample of load graphs.")
LEVEL_NOTE = ("One fault per run (no double faults); faults in the closing "
              "code itself (Resource.__enter__/__exit__/close, with-headers, "
              "the try:/finally: of openResource) are outside the domain by "
              "definition; only file: and package: resources (no network). "
              "The n-th line failpoint is realised as 'k-th visit of "
              "location L' read off a counting pass (LINE events switched on "
              "for L's code object only); this equals 'n-th LINE event' as "
              "long as the load is deterministic, which a second counting "
              "pass after the enumeration re-checks (drift => inconclusive).")
ASSUMPTIONS = [
    "a resource counts as closed when the object createResource returned has "
    "closed==True and file is None and the stream handed to createResource "
    "reports closed (Resource's documented close() contract)",
    "'as soon as its content has been read' is checked at the next "
    "createResource call and at the end of the call: every stream urlopen "
    "returned so far must already be closed",
    "'later loads' = the same public call repeated with the same schema "
    "object, and -- for the loader-object entry points -- on the same "
    "SchemaLoader / ConfigLoader instance; outcomes are compared as "
    "canonical value trees / schema digests / (exception class, line, url, "
    "message)",
    "line failpoints: LINE events on with-headers, on the try:/finally: "
    "lines of BaseLoader.openResource and in Resource.__enter__/__exit__/"
    "close are not armed (Appendix E; computed from the AST of the tree "
    "under test)",
]
FLOORS = {"quick": {"judged": 20000, "scenarios": 22, "line_runs": 20000,
                    "line_scenarios": 10, "faults_read": 250,
                    "faults_conv": 90, "faults_open": 40, "faults_sect": 35,
                    "same_loader_followups": 2000},
          "thorough": {"judged": 600000, "scenarios": 280,
                       "line_runs": 600000, "line_scenarios": 280,
                       "faults_read": 3500, "faults_conv": 2000,
                       "faults_open": 450, "faults_sect": 900,
                       "same_loader_followups": 100000}}
HOOK_FLOORS = {t: {"createResource": 100, "urlopen": 100,
                   "openPackageResource": 10, "line_failpoint_fired": 100,
                   "dt_injected": 50}
               for t in ("quick", "thorough")}

N_SCENARIOS = {"quick": 24, "thorough": 300}
LINE_CAP = 40000            # per scenario, recorded if ever hit
EXC_BY_NAME = {"ValueError": ValueError, "RuntimeError": RuntimeError}


def shards(tier):
    return 16


# ---------------------------------------------------------------------------
# scenario texts
# ---------------------------------------------------------------------------

BASE_SCHEMA = """<schema>
  <abstracttype name="plug"/>
  <sectiontype name="item" datatype="zcverif_dt.wrap_section">
    <key name="n" datatype="zcverif_dt.counting_int" default="0"/>
    <key name="s" datatype="zcverif_dt.counting_str"/>
  </sectiontype>
  <sectiontype name="box" datatype="zcverif_dt.pass_section"
               keytype="zcverif_dt.counting_key">
    <key name="v" datatype="zcverif_dt.counting_int"/>
    <multikey name="w" datatype="zcverif_dt.counting_upper" attribute="ws"/>
    <multisection type="item" name="*" attribute="items"/>
  </sectiontype>
  <key name="a" datatype="zcverif_dt.counting_int" default="7"/>
  <multikey name="m" datatype="zcverif_dt.counting_upper" attribute="ms"/>
  <multisection type="item" name="*" attribute="items"/>
  <multisection type="box" name="*" attribute="boxes"/>
  <multisection type="plug" name="*" attribute="plugs"/>
</schema>
"""

LOGGER_SCHEMA = """<schema>
  <import package="ZConfig.components.logger"/>
  <key name="a" datatype="zcverif_dt.counting_int" default="7"/>
  <section type="eventlog" name="*" attribute="eventlog"/>
</schema>
"""

LOGGER_CONFIG = """a 3
<eventlog>
  level info
  <logfile>
    path STDOUT
    format %(message)s
  </logfile>
</eventlog>
"""


def _scn(kind, op, entry, files, top, schema=None, packages=None,
         lines="quick", note=None):
    return {"kind": kind, "op": op, "entry": entry, "files": files,
            "top": top, "schema": schema, "packages": packages or {},
            "lines": lines, "note": note}


class _Names:
    def __init__(self):
        self.n = 0

    def __call__(self, prefix):
        self.n += 1
        return "%s%d" % (prefix, self.n)


def _item_block(rng, names, use_define):
    out = ["<item %s>" % names("i")]
    if rng.random() < 0.7:
        out.append("  n %d" % rng.randint(0, 99))
    if rng.random() < 0.6:
        out.append("  s text%s" % ("$X" if use_define and rng.random() < 0.5
                                  else ""))
    out.append("</item>")
    return out


def gen_include(rng, entry=None, nfiles=None, shape=None, bad=None,
                lines="thorough"):
    """Config whose top file %includes a chain / tree / star / diamond."""
    nfiles = nfiles or rng.randint(2, 5)
    shape = shape or rng.choice(["chain", "tree", "star", "diamond"])
    entry = entry or rng.choice(CONFIG_ENTRIES)
    if bad is None:
        bad = rng.random() < 0.12
    if shape == "diamond":
        nfiles = max(3, min(nfiles, 4))
    names = _Names()
    fnames = ["top.conf"]
    for i in range(1, nfiles):
        sub = rng.choice(["", "", "sub/", "sub/deep/"])
        fnames.append("%sinc%d.conf" % (sub, i))
    parent = {}
    for i in range(1, nfiles):
        if shape == "chain":
            parent[i] = i - 1
        elif shape == "star":
            parent[i] = 0
        else:
            parent[i] = rng.randrange(i)
    use_define = rng.random() < 0.6
    ctxs = {0: "top"}
    bodies = {}
    extra_inc = {}
    if shape == "diamond":
        # the last file is included a second time from another file that
        # provides the same kind of context
        extra_inc = {"child": nfiles - 1}
    for i in range(nfiles):
        ctx_kind = ctxs[i]
        blocks = []
        if i == 0 and rng.random() < 0.6:
            blocks.append(["a %d" % rng.randint(1, 9)])
        for _ in range(rng.randint(1, 3)):
            r = rng.random()
            if r < 0.4:
                blocks.append(_item_block(rng, names, use_define))
            elif r < 0.7:
                key = "m" if ctx_kind == "top" else "w"
                blocks.append(["%s v%d%s" % (key, rng.randint(0, 9),
                                             "$X" if use_define and
                                             rng.random() < 0.4 else "")])
            elif ctx_kind == "top":
                b = ["<box %s>" % names("b"), "  v %d" % rng.randint(0, 9)]
                b += ["  " + ln for ln in _item_block(rng, names, use_define)]
                b.append("</box>")
                blocks.append(b)
            else:
                blocks.append(["# comment %d" % i, ""])
        for c in [c for c in parent if parent[c] == i]:
            here = os.path.dirname(fnames[i])
            r = rng.random()
            if r < 0.2:
                ref = "@DIRURL@/" + fnames[c]
            elif r < 0.3:
                ref = "@DIR@/" + fnames[c]
            else:
                ref = os.path.relpath(fnames[c], here or ".")
            if ctx_kind == "top" and rng.random() < 0.35:
                ctxs[c] = "box"
                blocks.insert(rng.randint(0, len(blocks)),
                              ["<box %s>" % names("b"),
                               "  %%include %s" % ref, "</box>"])
            else:
                ctxs[c] = ctx_kind
                blocks.insert(rng.randint(0, len(blocks)),
                              ["%%include %s" % ref])
        bodies[i] = blocks
    if extra_inc:
        c = extra_inc["child"]
        hosts = [i for i in range(nfiles)
                 if i != c and i != parent[c] and ctxs[i] == ctxs[c]
                 and not _descends(parent, i, c)]
        if hosts:
            h = rng.choice(hosts)
            here = os.path.dirname(fnames[h])
            bodies[h].append(["%%include %s"
                              % os.path.relpath(fnames[c], here or ".")])
    if bad:
        victim = rng.randrange(nfiles)
        bodies[victim].append(["nosuchkey 1"])
    files = {"schema.xml": BASE_SCHEMA}
    for i in range(nfiles):
        text = []
        if i == 0 and use_define:
            text.append("%define X 5")
        for b in bodies[i]:
            text.extend(b)
        files[fnames[i]] = "\n".join(text) + "\n"
    return _scn("include-" + shape, "config", entry, files, "top.conf",
                schema="schema.xml", lines=lines,
                note="bad" if bad else None)


def _descends(parent, node, ancestor):
    while node in parent:
        node = parent[node]
        if node == ancestor:
            return True
    return False


def _component(typename, imports=(), keys=1):
    out = ['<component prefix="zcverif_dt">']
    for imp in imports:
        out.append("  <import %s/>" % imp)
    out.append('  <sectiontype name="%s" implements="plug" '
               'datatype=".wrap_section">' % typename)
    for k in range(keys):
        out.append('    <key name="g%d" datatype=".counting_int" '
                   'default="%d"/>' % (k, k + 3))
    out.append("  </sectiontype>")
    out.append("</component>")
    return "\n".join(out) + "\n"


def gen_import(rng, entry=None, variant=None, lines="thorough"):
    """Config that %imports a generated component package."""
    entry = entry or rng.choice(CONFIG_ENTRIES)
    variant = variant or rng.choice(["plain", "nested", "file", "included",
                                     "dotted", "twice"])
    pk0 = "@PKG0@.sub" if variant == "dotted" else "@PKG0@"
    packages = {}
    imports = []
    if variant == "nested":
        imports.append('package="@PKG1@"')
        packages["@PKG1@"] = {"__init__.py": "",
                              "component.xml": _component("widget", keys=2)}
    if variant in ("file", "nested") and rng.random() < 0.8:
        imports.append('package="%s" file="extra.xml"' % pk0)
    packages[pk0] = {"__init__.py": "",
                     "component.xml": _component("gadget", imports)}
    if any("extra.xml" in i for i in imports):
        packages[pk0]["extra.xml"] = _component("extra")
    if variant == "dotted":
        packages["@PKG0@"] = {"__init__.py": ""}
    body = ["<gadget g1>", "  g0 %d" % rng.randint(0, 50), "</gadget>",
            "m after"]
    if variant == "nested":
        body += ["<widget w1>", "  g1 8", "</widget>"]
    if "extra.xml" in packages[pk0]:
        body += ["<extra/>"]
    files = {"schema.xml": BASE_SCHEMA}
    imp = ["%%import %s" % pk0]
    if variant == "twice":
        imp.append("%%import %s" % pk0)
    if variant == "included":
        files["top.conf"] = "m before\n%include parts/imp.conf\n" + \
            "\n".join(body) + "\n"
        files["parts/imp.conf"] = "\n".join(imp) + "\n<item z>\n</item>\n"
    else:
        files["top.conf"] = "a 2\n" + "\n".join(imp + body) + "\n"
    return _scn("import-gen-" + variant, "config", entry, files, "top.conf",
                schema="schema.xml", packages=packages, lines=lines)


def gen_import_shipped(rng, which, entry=None, lines="thorough"):
    entry = entry or rng.choice(CONFIG_ENTRIES)
    files = {"schema.xml": BASE_SCHEMA,
             "top.conf": "m one\n%%import ZConfig.components.%s\n"
                         "<item q>\n  n 4\n</item>\n" % which}
    return _scn("import-shipped-" + which, "config", entry, files,
                "top.conf", schema="schema.xml", lines=lines)


def _types_doc(root, name, imports=(), attrs=""):
    out = ["<%s%s>" % (root, attrs)]
    out.extend("  <import %s/>" % i for i in imports)
    out.append('  <sectiontype name="%s" datatype="zcverif_dt.wrap_section">'
               % name)
    out.append('    <key name="k_%s" datatype="zcverif_dt.counting_int" '
               'default="4"/>' % name)
    out.append("  </sectiontype>")
    out.append("</%s>" % root)
    return "\n".join(out) + "\n"


def gen_schema(rng, entry=None, variant=None, lines="thorough", bad=None,
               doctype=None):
    """Schema documents with <import src>, <import package>, extends=.
    With *doctype*, the top document (and the first base / library
    document) carries a document type declaration naming an existing DTD
    and declares and uses an external entity: ZConfig opens neither."""
    if doctype is None:
        doctype = rng.random() < 0.3
    entry = entry or rng.choice(SCHEMA_ENTRIES)
    variant = variant or rng.choice(["src", "src-chain", "pkg", "pkg-file",
                                     "extends", "extends-chain", "mixed",
                                     "shipped-basic"])
    if bad is None:
        bad = rng.random() < 0.1
    files = {}
    packages = {}
    top_imports = []
    top_attrs = ""
    sections = []
    if variant in ("src", "src-chain", "mixed"):
        sub = rng.choice(["", "inc/"])
        chain = variant == "src-chain" or rng.random() < 0.3
        files[sub + "t1.xml"] = _types_doc(
            "schema", "ty1", ['src="t2.xml"'] if chain else ())
        if chain:
            files[sub + "t2.xml"] = _types_doc("schema", "ty2")
            sections.append("ty2")
        top_imports.append('src="%st1.xml"' % sub)
        sections.append("ty1")
    if variant in ("pkg", "pkg-file", "mixed"):
        comp_imports = []
        packages["@PKG0@"] = {"__init__.py": ""}
        if variant == "pkg-file" or rng.random() < 0.4:
            packages["@PKG0@"]["more.xml"] = _types_doc("component", "more")
            if rng.random() < 0.5:
                comp_imports.append('package="@PKG0@" file="more.xml"')
            else:
                top_imports.append('package="@PKG0@" file="more.xml"')
            sections.append("more")
        packages["@PKG0@"]["component.xml"] = _types_doc(
            "component", "comp", comp_imports)
        top_imports.append('package="@PKG0@"')
        sections.append("comp")
    if variant in ("extends", "extends-chain", "mixed"):
        bases = ["b1.xml"]
        chain = variant == "extends-chain" or rng.random() < 0.3
        files["b1.xml"] = (
            "<schema%s>\n  <sectiontype name=\"e1\"/>\n"
            "  <key name=\"base1\" default=\"x\"/>\n</schema>\n"
            % (' extends="b0.xml"' if chain else ""))
        if chain:
            files["b0.xml"] = ("<schema>\n  <key name=\"base0\" "
                               "datatype=\"zcverif_dt.counting_int\" "
                               "default=\"1\"/>\n</schema>\n")
        if variant != "extends-chain" and rng.random() < 0.6:
            files["b2.xml"] = ("<schema>\n  <sectiontype name=\"e2\"/>\n"
                               "  <multikey name=\"base2\" attribute=\"b2\"/>"
                               "\n</schema>\n")
            bases.append("b2.xml")
        top_attrs = ' extends="%s"' % " ".join(bases)
        sections.append("e1")
    if variant == "shipped-basic":
        top_imports.append('package="ZConfig.components.basic"')
        if rng.random() < 0.5:
            top_imports.append('package="ZConfig.components.basic" '
                               'file="mapping.xml"')
    top = ["<schema%s>" % top_attrs]
    top.extend("  <import %s/>" % i for i in top_imports)
    top.append('  <key name="own" datatype="zcverif_dt.counting_int" '
               'default="2"/>')
    for s in sections:
        top.append('  <multisection type="%s" name="*" attribute="s_%s"/>'
                   % (s, s))
    if bad:
        top.append('  <section type="nosuchtype" name="*" attribute="zz"/>')
    top.append("</schema>")
    files["top.xml"] = "\n".join(top) + "\n"
    if doctype:
        files["schema.dtd"] = "<!ELEMENT schema ANY>\n"
        files["shared.ent"] = "<!-- nothing that matters -->\n"
        head = ('<!DOCTYPE schema SYSTEM "@DIRURL@/schema.dtd" [\n'
                '  <!ENTITY shared SYSTEM "@DIRURL@/shared.ent">\n]>\n')
        for name in ("top.xml", "b1.xml", "t1.xml", "inc/t1.xml"):
            if name in files:
                files[name] = head + files[name].replace(
                    ">\n", ">\n  &shared;\n", 1)
    return _scn("schema-" + variant + ("-doctype" if doctype else ""),
                "schema", entry, files, "top.xml",
                packages=packages, lines=lines, note="bad" if bad else None)


class FalsyFile:
    """An open file handed to the loader through a thin wrapper that is
    false in a boolean context (e.g. a sized view of what is left to
    read); everything else is the file's."""

    def __init__(self, f):
        self._f = f

    def __getattr__(self, name):
        return getattr(self._f, name)

    def __iter__(self):
        return iter(self._f)

    def __bool__(self):
        return False


class FalsyStringIO(io.StringIO):
    def __bool__(self):
        return False

    def __len__(self):
        return 0


CONFIG_ENTRIES = ["path", "url", "fileobj", "stringio", "loader-url",
                  "loader-file"]
SCHEMA_ENTRIES = ["path", "url", "fileobj", "fileobj-rb", "stringio",
                  "loader-url", "loader-file"]


def fixed_scenarios(rng):
    """One scenario per shape the property names; 'lines' says from which
    tier on the line failpoints are enumerated for it."""
    q, t = "quick", "thorough"
    out = [
        gen_include(rng, "path", 3, "chain", False, q),
        gen_import(rng, "path", "plain", q),
        gen_schema(rng, "path", "src-chain", q, False),
        gen_schema(rng, "loader-url", "extends-chain", q, False),
        gen_schema(rng, "url", "pkg-file", q, False),
        gen_include(rng, "fileobj", 2, "chain", False, q),
        gen_schema(rng, "fileobj", "mixed", q, False),
        gen_import(rng, "loader-url", "nested", q),
        gen_include(rng, "url", 4, "tree", False, q),
        gen_include(rng, "stringio", 3, "star", False, t),
        gen_include(rng, "loader-file", 4, "diamond", False, q),
        gen_include(rng, "path", 3, "tree", True, t),
        gen_import(rng, "url", "included", t),
        gen_import(rng, "fileobj", "dotted", q),
        gen_import_shipped(rng, "basic", "path", t),
        gen_import_shipped(rng, "logger", "loader-url", t),
        gen_schema(rng, "loader-file", "shipped-basic", q, False),
        gen_schema(rng, "stringio", "extends", t, False),
        gen_schema(rng, "fileobj-rb", "src", t, False),
        gen_schema(rng, "path", "mixed", t, True),
        gen_schema(rng, "url", "src", q, False, True),
        gen_schema(rng, "stringio", "extends-chain", t, False, True),
        _scn("schema-shipped-logger", "schema", "path",
             {"top.xml": LOGGER_SCHEMA}, "top.xml", lines=t),
        _scn("config-on-logger-schema", "config", "path",
             {"schema.xml": LOGGER_SCHEMA, "top.conf": LOGGER_CONFIG},
             "top.conf", schema="schema.xml", lines=t),
    ]
    return out


def random_scenario(rng):
    r = rng.random()
    if r < 0.4:
        return gen_include(rng)
    if r < 0.62:
        return gen_import(rng)
    if r < 0.66:
        return gen_import_shipped(rng, "basic")
    return gen_schema(rng)


def scenarios(ctx):
    """The same list in every shard (the rng does not depend on the shard)."""
    from ..core.shard import Ctx
    shared = Ctx(ctx.prop, ctx.tier, ctx.seed, 0, 1)
    out = fixed_scenarios(shared.rng("fixed"))
    n = N_SCENARIOS[ctx.tier]
    i = 0
    while len(out) < n:
        out.append(random_scenario(shared.rng("random", i)))
        i += 1
    return out[:n]


# ---------------------------------------------------------------------------
# materialisation
# ---------------------------------------------------------------------------

_ENV_COUNTER = [0]


class Env:
    """Files and packages of one scenario on disk / on sys.path."""

    def __init__(self, tmp, sc):
        _ENV_COUNTER[0] += 1
        self.sc = sc
        self.dir = os.path.join(tmp, "s%d" % _ENV_COUNTER[0])
        self.pkgroot = os.path.join(self.dir, "_pkgs")
        self.prefix = "zcvp%d_%d_" % (os.getpid(), _ENV_COUNTER[0])
        self.subst = {"@DIR@": self.dir,
                      "@DIRURL@": "file://" + pathname2url(self.dir)}
        for i in range(4):
            self.subst["@PKG%d@" % i] = "%sp%d" % (self.prefix, i)
        self.on_path = False

    def text(self, s):
        for k, v in self.subst.items():
            s = s.replace(k, v)
        return s

    def path(self, rel):
        return os.path.join(self.dir, rel)

    def url(self, rel):
        return "file://" + pathname2url(self.path(rel))

    def setup(self):
        for rel, text in self.sc["files"].items():
            p = self.path(rel)
            os.makedirs(os.path.dirname(p), exist_ok=True)
            with open(p, "w", encoding="utf-8") as f:
                f.write(self.text(text))
        if self.sc["packages"]:
            for pkg, members in self.sc["packages"].items():
                d = os.path.join(self.pkgroot, *self.text(pkg).split("."))
                os.makedirs(d, exist_ok=True)
                for rel, text in members.items():
                    with open(os.path.join(d, rel), "w",
                              encoding="utf-8") as f:
                        f.write(self.text(text))
            sys.path.insert(0, self.pkgroot)
            self.on_path = True
            importlib.invalidate_caches()
        return self

    def teardown(self):
        if self.on_path:
            while self.pkgroot in sys.path:
                sys.path.remove(self.pkgroot)
            self.on_path = False
        for name in list(sys.modules):
            if name.startswith(self.prefix):
                del sys.modules[name]
        for key in list(sys.path_importer_cache):
            if isinstance(key, str) and key.startswith(self.dir):
                del sys.path_importer_cache[key]
        importlib.invalidate_caches()
        shutil.rmtree(self.dir, ignore_errors=True)


# ---------------------------------------------------------------------------
# canonical outcomes
# ---------------------------------------------------------------------------

def canon_value(v, depth=0):
    from ZConfig.matcher import SectionValue
    import zcverif_dt
    if depth > 30:
        return ["deep"]
    if isinstance(v, SectionValue):
        return ["S", v.getSectionType(), v.getSectionName(),
                [[k, canon_value(getattr(v, k, None), depth + 1)]
                 for k in sorted(v.getSectionAttributes())]]
    if isinstance(v, zcverif_dt.Wrapped):
        return ["W", canon_value(v.section, depth + 1)]
    if isinstance(v, (list, tuple)):
        return [type(v).__name__] + [canon_value(x, depth + 1) for x in v]
    if isinstance(v, dict):
        return ["dict"] + sorted(
            ([repr(k), canon_value(x, depth + 1)] for k, x in v.items()),
            key=lambda kv: kv[0])
    if v is None or isinstance(v, (str, bytes, int, float, bool)):
        return [type(v).__name__, repr(v)]
    t = type(v)
    return ["obj", "%s.%s" % (t.__module__, t.__qualname__)]


def schema_digest(schema):
    reg = schema.registry

    def dtname(dt):
        if dt is None:
            return None
        for dct in (getattr(reg, "_other", {}), getattr(reg, "_stock", {})):
            for k, v in dct.items():
                if v is dt:
                    return k
        return getattr(dt, "__name__", type(dt).__name__)

    def vinfo(v):
        if v is None:
            return None
        if isinstance(v, list):
            return [vinfo(x) for x in v]
        if isinstance(v, dict):
            return [[repr(k), vinfo(x)] for k, x in v.items()]
        if hasattr(v, "position") and hasattr(v, "value"):
            return [repr(v.value), [repr(p) for p in (v.position or ())]]
        return repr(v)

    def info_d(key, info):
        st = getattr(info, "sectiontype", None)
        return [key, info.name, info.attribute, type(info).__name__,
                repr(info.minOccurs), repr(info.maxOccurs),
                dtname(info.datatype), info.handler,
                None if st is None else st.name,
                vinfo(getattr(info, "_default", None)),
                vinfo(getattr(info, "_rawdefaults", None))]

    def type_d(t):
        if t.isabstract():
            return ["abstract", t.name, t.getsubtypenames()]
        return ["concrete", t.name, dtname(t.keytype), dtname(t.valuetype),
                dtname(t.datatype), t.handler,
                [info_d(k, i) for k, i in t]]

    return {"url": schema.url, "top": type_d(schema),
            "types": [type_d(schema.gettype(n))
                      for n in sorted(schema.gettypenames())],
            "components": list(getattr(schema, "_components", ()))}


def _short(x, n=160):
    s = str(x)
    return s if len(s) <= n else s[:n] + "..."


def describe_exception(e):
    import ZConfig
    if isinstance(e, failpoints.InjectedFault):
        return "injected-fault"
    if isinstance(e, failpoints.InjectedAbort):
        return "injected-abort"
    if isinstance(e, ZConfig.ConfigurationError):
        return "config:" + type(e).__name__
    return "raised:" + type(e).__name__


# ---------------------------------------------------------------------------
# one scenario bound to the machinery
# ---------------------------------------------------------------------------

class Machinery:
    """Tracker + failpoint session for a whole shard."""

    def __init__(self, ctx):
        self.ctx = ctx
        self.tracker = None
        self.fp = None

    def __enter__(self):
        import ZConfig
        self.tracker = restrack.Tracker(on_event=self.ctx.res.hook)
        self.tracker.end()
        self.tracker.install()
        try:
            self.fp = failpoints.Session(os.path.dirname(ZConfig.__file__))
            self.fp.__enter__()
        except BaseException:
            self.tracker.uninstall()
            raise
        return self

    def __exit__(self, *exc):
        try:
            self.fp.__exit__(*exc)
        finally:
            self.tracker.uninstall()
        return False


class Attempt:
    __slots__ = ("out", "end", "problems", "shape", "dtcalls", "shot",
                 "loader", "fired", "clean_problems")


class Subject:

    def __init__(self, mach, env, sc):
        self.m = mach
        self.env = env
        self.sc = sc
        self.schema = None
        self.line_plan = []
        self._opened = []
        self.load_schema()

    def load_schema(self):
        import ZConfig
        if self.sc["op"] == "config":
            self.schema = ZConfig.loadSchema(self.env.path(self.sc["schema"]))

    def schema_state(self):
        """Digest of the application schema object configurations are loaded
        against (None for schema-loading scenarios).  Taken after the warm-up
        loads, so what %import adds to shared abstract types on *successful*
        loads (a C12/C13 matter) is already part of the baseline."""
        if self.schema is None:
            return None
        return schema_digest(self.schema)

    def plan_lines(self):
        """Counting pass: enumerate the failpoints of the fault-free call.
        The n-th LINE event is the k-th visit of its location; armed runs
        switch events on for that location's code object only."""
        cnt = self.attempt(["count", "trace"], self.new_loader())
        seen = {}
        plan = []
        for code, line in cnt.shot.trace:
            k = seen.get((code, line), 0) + 1
            seen[(code, line)] = k
            plan.append((code, line, k))
        self.line_plan = plan
        return cnt

    def restore(self):
        """Fresh schema object + the same warm-up as at the start, so the
        enumeration goes on from an undamaged, equally warm state."""
        self.load_schema()
        self.attempt(None, self.new_loader())
        self.attempt(None, self.new_loader())

    # the public call under test -------------------------------------------
    def call(self, loader):
        import ZConfig
        import ZConfig.loader as L
        sc = self.sc
        entry = sc["entry"]
        p = self.env.path(sc["top"])
        u = self.env.url(sc["top"])
        if sc["op"] == "config":
            if entry == "path":
                return ZConfig.loadConfig(self.schema, p), None
            if entry == "url":
                return ZConfig.loadConfig(self.schema, u), None
            if entry == "fileobj":
                return ZConfig.loadConfigFile(self.schema,
                                              self._open(p)), None
            if entry == "stringio":
                return ZConfig.loadConfigFile(
                    self.schema, self._sio(p), url=u), None
            if loader is None:
                loader = L.ConfigLoader(self.schema)
            if entry == "loader-url":
                return loader.loadURL(p), loader
            if entry == "loader-file":
                return loader.loadFile(self._open(p)), loader
        else:
            if entry == "path":
                return ZConfig.loadSchema(p), None
            if entry == "url":
                return ZConfig.loadSchema(u), None
            if entry == "fileobj":
                return ZConfig.loadSchemaFile(self._open(p)), None
            if entry == "fileobj-rb":
                return ZConfig.loadSchemaFile(self._open(p, "rb")), None
            if entry == "stringio":
                return ZConfig.loadSchemaFile(self._sio(p), url=u), None
            if loader is None:
                loader = L.SchemaLoader()
            if entry == "loader-url":
                return loader.loadURL(u), loader
            if entry == "loader-file":
                return loader.loadFile(self._open(p)), loader
        raise ValueError("unknown entry %r" % (entry,))

    def _open(self, p, mode="r"):
        f = open(p, mode) if "b" in mode else open(p, mode, encoding="utf-8")
        self._opened.append(f)
        return FalsyFile(f)

    def _sio(self, p):
        with open(p, encoding="utf-8") as f:
            # a file-like object may well be false in a boolean context
            # (a sized container of the lines left, a proxy ...): it is
            # closed all the same
            s = FalsyStringIO(f.read())
        self._opened.append(s)
        return s

    def new_loader(self):
        """A loader the faulted call and its follow-up share (loader-object
        entry points only)."""
        import ZConfig.loader as L
        if not self.sc["entry"].startswith("loader"):
            return None
        if self.sc["op"] == "config":
            return L.ConfigLoader(self.schema)
        return L.SchemaLoader()

    # one monitored call -----------------------------------------------------
    def attempt(self, fault=None, loader=None):
        import zcverif_dt
        m = self.m
        a = Attempt()
        a.shot = None
        a.fired = None
        tfault = None
        switch = None
        if fault is not None:
            k = fault[0]
            if k in ("read", "uread", "open-url", "open-pkg"):
                tfault = tuple(fault)
            elif k in ("conv", "key", "sect"):
                switch = (k, fault[1], EXC_BY_NAME[fault[2]])
        result = None
        exc = None
        zcverif_dt.reset(switch)
        m.tracker.begin(tfault)
        try:
            try:
                if fault is not None and fault[0] == "line":
                    code, line, k = self.line_plan[fault[1] - 1]
                    with m.fp.armed_at(
                            code, line, k,
                            failpoints.EXC_CLASSES[fault[2]]) as shot:
                        a.shot = shot
                        result, a.loader = self.call(loader)
                elif fault is not None and fault[0] == "count":
                    with m.fp.counting(trace=bool(fault[1:])) as shot:
                        a.shot = shot
                        result, a.loader = self.call(loader)
                else:
                    result, a.loader = self.call(loader)
            except (KeyboardInterrupt, SystemExit, MemoryError):
                raise
            except BaseException as e:          # noqa: the point of C19
                exc = e
                a.loader = loader
        finally:
            m.tracker.end()
            a.dtcalls = dict(zcverif_dt.calls)
            dt_fired = zcverif_dt.fired
            zcverif_dt.reset(None)
        a.problems = m.tracker.problems()
        a.shape = m.tracker.shape()
        opened, self._opened = self._opened, []
        for f in opened:
            try:
                f.close()
            except Exception:           # noqa
                pass
        if exc is None:
            a.end = "returned"
            try:
                if self.sc["op"] == "config":
                    cfg, handlers = result
                    a.out = ["ok", canon_value(cfg), len(handlers)]
                else:
                    a.out = ["ok", schema_digest(result)]
            except Exception as e:          # noqa
                # a changed ZConfig returned something that is not a
                # configuration / schema: still an outcome to compare
                a.out = ["ok", "not-canonical", type(result).__name__,
                         type(e).__name__]
        else:
            a.end = describe_exception(exc)
            a.out = ["reject", type(exc).__name__,
                     repr(getattr(exc, "lineno", None)),
                     _short(getattr(exc, "url", None)), _short(exc, 300)]
        # did the planned fault actually happen?
        if fault is None or fault[0] == "count":
            a.fired = None
        elif fault[0] == "line":
            a.fired = a.shot.fired
        elif fault[0] in ("conv", "key", "sect"):
            a.fired = dt_fired
        elif fault[0] in ("open-url", "open-pkg"):
            a.fired = m.tracker.injected
        elif fault[0] == "uread":
            j = fault[1]
            a.fired = (j < len(m.tracker.streams)
                       and m.tracker.streams[j].reads > 0) or None
        elif fault[0] == "read":
            j, i = fault[1], fault[2]
            a.fired = (j < len(m.tracker.resources)
                       and m.tracker.resources[j].reads > i) or None
        del exc, result
        return a


def enumerate_faults(shape, dtcalls):
    """Kinds 1-4 for a fault-free shape."""
    out = []
    for j, (url, origin, reads) in enumerate(shape["resources"]):
        for i in range(reads):
            out.append(["read", j, i])
    for j in range(shape["streams"]):
        out.append(["uread", j])
    for j in range(shape["url_opens"]):
        out.append(["open-url", j])
    for j in range(shape["pkg_opens"]):
        out.append(["open-pkg", j])
    for cat in ("conv", "key", "sect"):
        for k in range(1, dtcalls.get(cat, 0) + 1):
            for exc in ("ValueError", "RuntimeError"):
                out.append([cat, k, exc])
    return out


FAULT_COUNTER = {"read": "faults_read", "uread": "faults_read",
                 "open-url": "faults_open", "open-pkg": "faults_open",
                 "conv": "faults_conv", "key": "faults_conv",
                 "sect": "faults_sect", "line": "line_runs"}


MECH_LOADER_REUSE = "configloader-reused-after-failed-import"


def loader_reuse_applies(subj, attempt):
    """Input features of the one confirmed mechanism: the faulted call was
    made on a ConfigLoader *object*, the configuration (or a file it
    includes) contains %import, and that call failed.

    ``ConfigLoader.importSchemaComponent`` switches the loader to a private
    derived schema and registers the component URL in it *before* the
    component is parsed, so a loader whose %import failed half-way keeps a
    private schema that claims to have the component (with none, or only
    some, of its types and keys).  Only loads made through that same loader
    object can see this: follow-up 1 (fresh ConfigLoader, same schema
    object) has already given the baseline when this is consulted.
    """
    sc = subj.sc
    return (sc["op"] == "config" and sc["entry"].startswith("loader")
            and any("%import" in t for t in sc["files"].values())
            and attempt.end != "returned")


def import_state(subj, loader):
    """Observed %import memory of a ConfigLoader right after a call:
    'none', 'private' (derived schema in place) or 'half-switched' (the
    fault fell between ``_private_schema = True`` and ``self.schema =
    derived``: the next %import on this loader parses the component into the
    application schema itself)."""
    try:
        if not loader._private_schema:
            return "none"
        return "half-switched" if loader.schema is subj.schema else "private"
    except AttributeError:
        return "unknown"


def forget_imports(subj, loader):
    """Neutraliser of the mechanism: reset exactly the loader's %import
    memory (nothing else of its state) -- what a loader looks like that has
    never seen %import."""
    try:
        loader._private_schema
        loader.schema = subj.schema
        loader._private_schema = False
        return True
    except AttributeError:
        return False


def where_of(sc, fault, attempt):
    k = fault[0]
    if k == "line":
        f = attempt.fired
        return "not-fired" if not f else "%s:%s" % (f[0], f[1])
    if k == "read":
        res = attempt.shape["resources"]
        j = fault[1]
        origin = res[j][1] if j < len(res) else "?"
        return "r%d/%s" % (j, origin)
    if k in ("uread", "open-url", "open-pkg"):
        return "#%d" % fault[1]
    return "%s" % fault[2]


def judge(ctx, subj, si, fault, base):
    """Run one faulted call + follow-ups and apply the oracle.

    *base* is the fault-free ``Baseline`` of the scenario.
    """
    res = ctx.res
    sc = subj.sc
    loader = subj.new_loader()
    a = subj.attempt(fault, loader)
    res.evaluations += 1
    res.count("judged")
    res.count(FAULT_COUNTER[fault[0]])
    if a.fired:
        res.count("fault_fired")
        if fault[0] == "line":
            res.hook("line_failpoint_fired")
        elif fault[0] in ("conv", "key", "sect"):
            res.hook("dt_injected")
        else:
            res.hook("io_injected")
    else:
        res.count("fault_not_fired")
    res.count("ended_" + a.end.split(":")[0])
    where = where_of(sc, fault, a)
    res.sig("%s|%s|%s|%s" % (sc["kind"], fault[0], where, a.end))
    case = {"scenario": sc, "fault": list(fault), "scenario_index": si,
            "landed": list(a.fired) if isinstance(a.fired, tuple) else None}
    res.sample("faulted-" + fault[0],
               {"scenario_kind": sc["kind"], "entry": sc["entry"],
                "fault": list(fault), "landed": where, "ended": a.end,
                "opened": a.shape["resources"], "all_closed": not a.problems},
               1)
    ctxt = ("%s entry=%s fault=%s landed=%s ended=%s"
            % (sc["kind"], sc["entry"], fault, where, a.end))
    short_where = where if fault[0] != "line" else where.split(":")[-1]
    ok = True
    damaged = False
    # (1) everything opened during the faulted call is closed
    if a.problems:
        ok = False
        res.count("leaks")
        first = a.problems[0]
        res.violate(
            "resource-not-closed", case,
            expected="every resource / URL stream opened during the call "
                     "is closed when it ends (%s)" % a.end,
            observed=a.problems, detail="%s: %s" % (ctxt, first),
            vsig="leak|%s|%s|%s|%s" % (first["what"], first.get("origin"),
                                       fault[0], short_where))
    # (2) follow-up 1: the same public call again, same schema object,
    #     fresh loader
    b = subj.attempt(None, subj.new_loader())
    if b.problems:
        ok = False
        res.violate(
            "resource-not-closed-in-later-load", case,
            expected="clean follow-up load closes everything",
            observed=b.problems, detail=ctxt,
            vsig="leak-followup|%s|%s" % (fault[0], short_where))
    if b.out != base.out:
        ok = False
        damaged = True
        res.count("poisoned")
        res.violate(
            "later-load-changed", case,
            expected=_summ(base.out), observed=_summ(b.out),
            detail="%s: the same load repeated afterwards no longer gives "
                   "the fault-free outcome" % ctxt,
            vsig="poison|%s|%s|%s|%s" % (sc["op"], sc["entry"], fault[0],
                                         short_where))
    d1 = subj.schema_state()
    if d1 != base.schema_state:
        ok = False
        damaged = True
        res.count("schema_object_changed")
        res.violate(
            "schema-object-changed", case,
            expected="the schema object handed to loadConfig is the same "
                     "after a failed load",
            observed=_diff(base.schema_state, d1),
            detail="%s: the application schema object was modified" % ctxt,
            vsig="schema-changed|%s|%s|%s" % (sc["entry"], fault[0],
                                              short_where))
    # (3) follow-up 2 (loader-object entry points): the same *loader object*
    #     loads again -- SchemaLoader._cache must not hold a half-built
    #     schema, a ConfigLoader must not remember a half-done %import
    if a.loader is not None and not damaged:
        res.count("same_loader_followups")
        state_after_fault = import_state(subj, a.loader) \
            if sc["op"] == "config" else None
        c = subj.attempt(None, a.loader)
        d2 = subj.schema_state()
        bad_out = c.out != base.out
        bad_schema = d2 != base.schema_state
        if c.problems:
            ok = False
            res.violate(
                "resource-not-closed-in-later-load", case,
                expected="clean follow-up load on the same loader closes "
                         "everything",
                observed=c.problems, detail=ctxt,
                vsig="leak-followup2|%s|%s" % (fault[0], short_where))
        if bad_out or bad_schema:
            ok = False
            mech = None
            if loader_reuse_applies(subj, a):
                if bad_schema:
                    if state_after_fault == "half-switched":
                        mech = MECH_LOADER_REUSE
                elif state_after_fault == "private" \
                        and forget_imports(subj, a.loader):
                    n = subj.attempt(None, a.loader)
                    if (n.out == base.out and not n.problems
                            and subj.schema_state() == base.schema_state):
                        mech = MECH_LOADER_REUSE
            damaged = bad_schema
            res.count("poisoned_same_loader")
            res.violate(
                "later-load-on-same-loader-changed", case,
                expected=_summ(base.out),
                observed={"outcome": _summ(c.out),
                          "loader_import_state_after_fault":
                          state_after_fault,
                          "schema_object_changed": bad_schema and
                          _diff(base.schema_state, d2)},
                detail="%s: the loader object used for the failed call "
                       "gives a different outcome afterwards%s (a fresh "
                       "loader over the same schema still gave the "
                       "baseline)"
                       % (ctxt, " and modified the application schema "
                          "object" if bad_schema else ""),
                mechanism=mech,
                vsig=("poison-loader|" + mech) if mech else
                     "poison-loader|%s|%s|%s" % (sc["op"], fault[0],
                                                 short_where))
    if damaged:
        # do not let one poisoning cascade into the following runs
        subj.restore()
    if ok:
        res.count("closed_and_unpoisoned")
    return a, ok


def _diff(x, y, path="", out=None, limit=6):
    """Paths at which two digests differ (for the witness)."""
    top = out is None
    if top:
        out = []
    if len(out) >= limit:
        return out
    if type(x) is not type(y):
        out.append("%s: %s -> %s" % (path, _short(x, 80), _short(y, 80)))
    elif isinstance(x, dict):
        for k in sorted(set(x) | set(y)):
            if x.get(k) != y.get(k):
                _diff(x.get(k), y.get(k), "%s/%s" % (path, k), out, limit)
    elif isinstance(x, list):
        if len(x) != len(y):
            out.append("%s: length %d -> %d (%s -> %s)"
                       % (path, len(x), len(y), _short(x, 80),
                          _short(y, 80)))
        else:
            for i, (p, q) in enumerate(zip(x, y)):
                if p != q:
                    _diff(p, q, "%s[%d]" % (path, i), out, limit)
    elif x != y:
        out.append("%s: %s -> %s" % (path, _short(x, 80), _short(y, 80)))
    return out


def _summ(out):
    if out[0] == "ok":
        blob = repr(out[1:])
        return ["ok", hashlib.sha1(blob.encode()).hexdigest()[:12],
                _short(blob, 400)]
    return out


def lines_enabled(sc, tier):
    return tier == "thorough" or sc["lines"] == "quick"


class Baseline:
    __slots__ = ("out", "schema_state", "shape", "dtcalls", "end")


def run_scenario(ctx, mach, si, sc, mode="full", only_fault=None):
    """mode 'full': the shard's share of every failure point;
    'baseline': the fault-free run only; 'single': only_fault."""
    res = ctx.res
    env = Env(ctx.tmp, sc).setup()
    try:
        subj = Subject(mach, env, sc)
        owner = ctx.mine(si) or mode != "full"
        # fault-free warm-up: imports, caches; also judged (closure)
        first = subj.attempt(None, subj.new_loader())
        if owner and mode != "single":
            res.evaluations += 1
            res.count("judged")
            res.count("scenarios")
            res.count("scenario_" + sc["kind"].split("-")[0])
            res.count("baseline_" + first.out[0])
            res.count("entry_" + sc["entry"])
            res.sig("%s|baseline|%s|%s" % (sc["kind"], sc["entry"],
                                           first.end))
            res.sample("baseline-" + first.out[0],
                       {"scenario_kind": sc["kind"], "entry": sc["entry"],
                        "files": sorted(sc["files"]),
                        "packages": sorted(sc["packages"]),
                        "opened": first.shape["resources"],
                        "ended": first.end}, 1)
            if first.problems:
                res.violate(
                    "resource-not-closed",
                    {"scenario": sc, "fault": None, "scenario_index": si},
                    expected="fault-free load closes everything",
                    observed=first.problems,
                    detail="%s entry=%s fault-free: %s"
                           % (sc["kind"], sc["entry"], first.problems[0]),
                    vsig="leak|fault-free|%s|%s"
                         % (first.problems[0]["what"],
                            first.problems[0].get("origin")))
        if mode == "baseline":
            return
        second = subj.attempt(None, subj.new_loader())
        if second.out != first.out:
            if owner:
                res.inconclusive_because(
                    "scenario %d (%s): two fault-free loads disagree, no "
                    "baseline" % (si, sc["kind"]))
            return
        base = Baseline()
        base.out = first.out
        base.end = second.end
        base.shape = second.shape
        base.dtcalls = second.dtcalls
        base.schema_state = subj.schema_state()
        subj.baseline = base
        if mode == "single":
            if only_fault[0] == "line":
                replay_line(ctx, subj, si, only_fault, base)
            else:
                judge(ctx, subj, si, only_fault, base)
            return
        faults = enumerate_faults(base.shape, base.dtcalls)
        for u, fault in enumerate(faults):
            if ctx.mine(si + u):
                judge(ctx, subj, si, fault, base)
        if owner:
            res.count("fault_points_kinds_1_4", len(faults))
        if not lines_enabled(sc, ctx.tier):
            return
        cnt = subj.plan_lines()
        n_events = cnt.shot.count
        if n_events > LINE_CAP:
            res.info["line_cap_hit"] = True
            n_events = LINE_CAP
        if owner:
            res.count("line_scenarios")
            res.count("line_events_enumerated", n_events)
        before = res.violation_count
        for n in range(1, n_events + 1):
            for ci, cls in enumerate(("fault", "abort")):
                if ctx.mine(si + 2 * n + ci):
                    judge(ctx, subj, si, ["line", n, cls], base)
        again = subj.attempt(["count"], subj.new_loader()).shot.count
        if again != cnt.shot.count:
            res.count("line_count_drift")
            if res.violation_count == before:
                res.inconclusive_because(
                    "scenario %d (%s): the number of line events of the "
                    "fault-free load drifted from %d to %d during the "
                    "enumeration" % (si, sc["kind"], cnt.shot.count, again))
    finally:
        env.teardown()


def replay_line(ctx, subj, si, fault, base):
    """Event numbers depend on warm caches; first try the recorded index,
    then every index whose event lies on the recorded line."""
    landed = fault[3] if len(fault) > 3 else None
    subj.plan_lines()
    n = fault[1]
    ok = True
    if 1 <= n <= len(subj.line_plan):
        a, ok = judge(ctx, subj, si, fault[:3], base)
    if not ok or not landed:
        return
    tried = 0
    for idx, (code, line, k) in enumerate(list(subj.line_plan), 1):
        if code.co_qualname == landed[1] and line == landed[2] and idx != n:
            tried += 1
            if tried > 60:
                break
            a, ok = judge(ctx, subj, si, ["line", idx, fault[2]], base)
            if not ok:
                return


# ---------------------------------------------------------------------------
# histories on one SchemaLoader: a document is refused, then (repaired or
# not) asked for again - directly, as <import src> of another document and
# as a base schema.  Each later answer must be the one a fresh loader gives.

_LIB = ("<schema>\n <sectiontype name='la'><key name='k' default='1'/>"
        "</sectiontype>\n <sectiontype name='lb'><key name='q'/>"
        "</sectiontype>\n%s</schema>\n")
X_DOCS = [
    # (what is wrong, refused document or None = loads, repaired document)
    ("unknown-type", _LIB % " <section type='zz-nosuch' name='x'/>\n",
     _LIB % ""),
    ("truncated", (_LIB % "")[:70], _LIB % ""),
    ("type-twice", _LIB % " <sectiontype name='la'/>\n", _LIB % ""),
    ("bad-default", _LIB % " <key name='n' datatype='integer' "
     "required='yes' default='1'/>\n", _LIB % ""),
    ("missing-file", "", _LIB % ""),
    # faults that show only after the closing tag of the document
    ("junk-after-root", (_LIB % "") + "<junk/>\n", _LIB % ""),
    ("text-after-root", (_LIB % "") + "trailing text\n", _LIB % ""),
    ("second-root", (_LIB % "") + (_LIB % ""), _LIB % ""),
    ("no-such-function", _LIB % " <key name='d' datatype='os.nosuchf9'/>\n",
     _LIB % ""),
    # datatype names that lead to something unusual: whatever the answer
    # is, it is the same the second time and on a fresh loader
    ("module-datatype", None, _LIB % " <key name='d' datatype='os.path'/>\n"),
    ("package-datatype", None, _LIB % " <key name='d' datatype='json'/>\n"),
    ("class-datatype", None,
     _LIB % " <key name='d' datatype='json.decoder.JSONDecoder'/>\n"),
    ("int-valued-datatype", None,
     _LIB % " <key name='d' datatype='errno.ENOENT'/>\n"),
]


def run_loader_histories(ctx):
    import ZConfig
    import ZConfig.loader
    res = ctx.res
    d = os.path.join(os.path.realpath(ctx.tmp), "lh dir")
    os.makedirs(d, exist_ok=True)
    xpath = os.path.join(d, "lib x.xml")
    ypath = os.path.join(d, "imports.xml")
    zpath = os.path.join(d, "extends.xml")
    with open(ypath, "w") as f:
        f.write("<schema><import src='lib%20x.xml'/>"
                "<section type='la' name='*' attribute='a'/></schema>")
    with open(zpath, "w") as f:
        f.write("<schema extends='lib%20x.xml'>"
                "<section type='lb' name='*' attribute='b'/></schema>")

    def load(loader, path):
        try:
            sch = loader.loadURL(path)
        except ZConfig.ConfigurationError as e:
            return ("reject", type(e).__name__)
        except Exception as e:  # noqa
            return ("raised", type(e).__name__)
        dg = schema_digest(sch)
        dg.pop("url", None)
        try:
            cfg, _ = ZConfig.loadConfigFile(sch, io.StringIO(
                "<la>\n</la>\n" if path == ypath else
                "<lb>\n q 1\n</lb>\n" if path == zpath else ""))
            out = "loads"
        except ZConfig.ConfigurationError as e:
            out = type(e).__name__
        return ("ok", hashlib.sha1(repr(dg).encode()).hexdigest(), out)

    for hi, (what, bad, good) in enumerate(X_DOCS):
        for repaired in (True, False):
            for order in (("x", "y", "z"), ("y", "x", "z"), ("z", "y", "x")):
                if not ctx.mine(hi * 7 + repaired * 3 + len(order[0])
                                + ord(order[0][0])):
                    continue
                kept = ZConfig.loader.SchemaLoader()
                first = good if bad is None else bad
                if what == "missing-file":
                    if os.path.exists(xpath):
                        os.remove(xpath)
                else:
                    with open(xpath, "w") as f:
                        f.write(first)
                o1 = load(kept, xpath)
                o1b = load(kept, xpath)
                res.evaluations += 1
                res.count("loader_histories")
                case = {"family": "loader-history", "what": what,
                        "repaired": repaired, "order": list(order)}
                if o1b != o1:
                    res.violate(
                        "same-document-asked-twice-of-one-loader-differs",
                        case, list(o1), list(o1b),
                        detail="%s: first %r, second %r" % (what, o1, o1b),
                        vsig="lh-twice|%s|%s|%s" % (what, o1[0], o1b[0]))
                    continue
                if bad is not None and o1[0] == "ok":
                    res.count("loader_history_first_load_not_refused")
                if repaired and bad is not None:
                    with open(xpath, "w") as f:
                        f.write(good)
                for step in order:
                    path = {"x": xpath, "y": ypath, "z": zpath}[step]
                    if step == "x" and o1[0] == "ok":
                        # (a loader keeps what it has loaded, by URL)
                        continue
                    got = load(kept, path)
                    want = load(ZConfig.loader.SchemaLoader(), path)
                    res.count("loader_history_steps")
                    res.sig("lh|%s|%s|%s|%s" % (what, repaired, step,
                                                want[0]))
                    if got != want:
                        res.violate(
                            "loader-that-met-a-refused-document-answers-"
                            "differently", dict(case, step=step),
                            list(want), list(got),
                            detail="%s (%s), then %s: kept loader %r, "
                            "fresh loader %r" % (
                                what, "repaired" if repaired else "as is",
                                os.path.basename(path), got, want),
                            vsig="lh|%s|%s|%s" % (what, step, got[0]))
                        break
    shutil.rmtree(d, ignore_errors=True)


CL_SCHEMA = ("<schema><sectiontype name='s'><key name='port' "
             "datatype='integer' default='80'/><multikey name='tag'/>"
             "</sectiontype><key name='level' datatype='integer' "
             "default='1'/><multisection type='s' name='*' attribute='ss'/>"
             "</schema>")
CL_OPTIONS = ["level=7", "s1/port=9090", "s1/tag=a", "s1/tag=b"]
CL_REFUSED = ["<s s1>\n port x\n</s>\n", "<s s1>\n</s>\n</s>\n",
              "level 1\nlevel 2\n<s s1/>\n", "<s s1>\n nosuch 1\n</s>\n",
              "<s s1>\n port 1\n", "<s s2/>\n", "%include /nonexistent/zcv\n",
              "<s s1>\n tag $nosuch\n</s>\n"]
CL_GOOD = "<s s1>\n tag t\n</s>\n<s s2/>\n"


def run_cmdline_histories(ctx):
    """One command-line loader, with its options, reads texts that are
    refused at various points and then a good one: the good one comes out
    as it does on a loader that has read nothing before."""
    import itertools
    import ZConfig
    from ZConfig.cmdline import ExtendedConfigLoader
    res = ctx.res
    schema = ZConfig.loadSchemaFile(io.StringIO(CL_SCHEMA))

    def make():
        ld = ExtendedConfigLoader(schema)
        for o in CL_OPTIONS:
            ld.addOption(o)
        return ld

    def load(ld, text):
        try:
            cfg, _ = ld.loadFile(io.StringIO(text))
        except ZConfig.ConfigurationError as e:
            return ("reject", type(e).__name__)
        except Exception as e:  # noqa
            return ("raised", type(e).__name__, str(e)[:80])
        return ("ok", cfg.level, [(x.getSectionName(), x.port, list(x.tag))
                                  for x in cfg.ss])
    want = load(make(), CL_GOOD)
    hist = [(t,) for t in CL_REFUSED] + \
        list(itertools.permutations(CL_REFUSED[:4], 2)) + [tuple(CL_REFUSED)]
    for hi, h in enumerate(hist):
        if not ctx.mine(hi):
            continue
        ld = make()
        firsts = [load(ld, t) for t in h]
        got = load(ld, CL_GOOD)
        again = load(ld, CL_GOOD)
        res.evaluations += 1
        res.count("cmdline_loader_histories")
        res.sig("clh|%d|%s" % (len(h), firsts[0][0]))
        if got != want or again != want or want[0] != "ok":
            res.violate(
                "command-line-loader-changed-by-a-refused-load",
                {"family": "cmdline-history", "refused": list(h)},
                list(want), [list(got), list(again)],
                detail="options %r; after %r (%r) the good text gives %r, "
                "a fresh loader %r" % (CL_OPTIONS, h, firsts, got, want),
                vsig="clh|%s" % got[0])


def run_nameless(ctx):
    """Resources that have no URL at all - a StringIO, a stream without a
    name, a stream with a placeholder name - are resources too: closed when
    the call returns or raises."""
    import ZConfig
    import ZConfig.loader as L
    res = ctx.res
    made = []
    orig = L.BaseLoader.createResource

    def create(self, file, url):
        r = orig(self, file, url)
        made.append(r)
        return r

    class Nameless(io.StringIO):
        pass

    class Placeholder(io.StringIO):
        name = "<stdin>"

    class IntNamed(io.StringIO):
        name = 0

    schema = ZConfig.loadSchemaFile(io.StringIO(CL_SCHEMA))
    cases = [("config", t) for t in [CL_GOOD] + CL_REFUSED[:6]] + \
        [("schema", CL_SCHEMA), ("schema", CL_SCHEMA[:60]),
         ("schema", CL_SCHEMA.replace("integer", "zcv.nosuch")),
         ("schema", CL_SCHEMA.replace("</schema>",
                                      "<key name='level'/></schema>"))]
    L.BaseLoader.createResource = create
    try:
        n = 0
        for what, text in cases:
            for cls in (io.StringIO, Nameless, Placeholder, IntNamed):
                for via in ("function", "loader"):
                    n += 1
                    if not ctx.mine(n):
                        continue
                    del made[:]
                    f = cls(text)
                    try:
                        if what == "config":
                            if via == "function":
                                ZConfig.loadConfigFile(schema, f)
                            else:
                                L.ConfigLoader(schema).loadFile(f)
                        elif via == "function":
                            ZConfig.loadSchemaFile(f)
                        else:
                            L.SchemaLoader().loadFile(f)
                        end = "returned"
                    except ZConfig.ConfigurationError:
                        end = "refused"
                    except Exception as e:  # noqa
                        end = "raised " + type(e).__name__
                    res.evaluations += 1
                    res.count("nameless_resource_loads")
                    res.sig("nameless|%s|%s|%s|%s" % (what, cls.__name__,
                                                      via, end))
                    left = [repr(r.url) for r in made
                            if not getattr(r, "closed", False)]
                    if left or not made:
                        res.violate(
                            "resource-without-url-not-closed",
                            {"family": "nameless", "what": what,
                             "stream": cls.__name__, "via": via},
                            "every resource closed", left or "no resource "
                            "object was created",
                            detail="%s from a %s through the %s: call %s, "
                            "open resources %r" % (what, cls.__name__, via,
                                                   end, left),
                            vsig="nameless|%s|%s" % (what, end))
    finally:
        L.BaseLoader.createResource = orig


def run_shard(ctx):
    res = ctx.res
    res.count("unjudged", 0)
    run_loader_histories(ctx)
    run_nameless(ctx)
    run_cmdline_histories(ctx)
    scs = scenarios(ctx)
    with Machinery(ctx) as mach:
        for si, sc in enumerate(scs):
            run_scenario(ctx, mach, si, sc)
        res.info["failpoint_excluded_lines"] = {
            k: v for k, v in mach.fp.domain.excluded_lines_by_file.items()
            if v}
    res.info["bounds"] = {
        "scenarios": len(scs),
        "max_resources_generated": 5,
        "fault_kinds": ["read(i,j)", "url-stream read(j)", "open(j)",
                        "datatype k x {ValueError,RuntimeError}",
                        "section datatype s x {ValueError,RuntimeError}",
                        "line event n x {InjectedFault,InjectedAbort}"],
        "line_failpoints_on": ("all scenarios" if ctx.tier == "thorough"
                               else "scenarios marked quick (%d)" % sum(
                                   1 for s in scs if s["lines"] == "quick")),
    }


def finalize(m, tier):
    return {"exhaustive": True,
            "exhaustive_scope": "per scenario: every single failure point "
            "of kinds 1-4, and (thorough: every scenario; quick: the marked "
            "ones) every armed LINE event x 2 exception classes; the "
            "scenario family is a seeded sample of %d load graphs"
            % N_SCENARIOS[tier]}


def replay(ctx, case):
    if case.get("family") == "nameless":
        ctx.mine = lambda i: True
        return run_nameless(ctx)
    if case.get("family") == "cmdline-history":
        ctx.mine = lambda i: True
        return run_cmdline_histories(ctx)
    if case.get("family") == "loader-history":
        ctx.mine = lambda i: True
        return run_loader_histories(ctx)
    sc = case["scenario"]
    fault = case.get("fault")
    si = case.get("scenario_index", 0)
    with Machinery(ctx) as mach:
        if not fault:
            run_scenario(ctx, mach, si, sc, mode="baseline")
            return
        if fault[0] == "line" and case.get("landed"):
            fault = list(fault[:3]) + [case["landed"]]
        run_scenario(ctx, mach, si, sc, mode="single", only_fault=fault)
