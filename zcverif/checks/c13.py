"""C13 — a schema object can be reused indefinitely.

History monitor: each load of a sequence against one schema object is
compared with the same load against a freshly loaded copy of the schema; a
structural digest of the schema is compared before/after every step.
"""

import copy
import io
import os

from ..gen import family, overrides, packages, texts
from ..mon import digest as dg
from ..mon import outcome

ID = "C13"
LEVEL = "exploration"
TECHNIQUE = ("runtime monitoring: history monitor (step-by-step comparison "
             "with fresh schema objects) plus structural schema digest "
             "before/after each step")
RULE = ("schemas of the C01 family (abstract types provided by a generated "
        "base package, 0..2 generated component packages adding "
        "implementers, one section type with a rejecting section datatype) "
        "x operation sequences of length 2..8 over {valid load, invalid "
        "load with the fault at syntax / matching / conversion / "
        "section-datatype stage, load with %import, load with overrides, "
        "mutate every list/dict reachable from the last returned "
        "configuration}.  Non-trivial = sequence with at least two loads; "
        "distinct_nontrivial = distinct step-kind sequences."
        ' Worlds have an application type with a keyed-default wildcard key that a component type extends under another key type, a component imported by the schema itself (and again by texts), and a pair of components naming one datatype in full / by its last word.')
LEVEL_TEXT = ("Every step of every generated history is executed on the "
              "long-lived schema object and on a fresh copy; outcomes must "
              "agree and the schema's digest (types, children, defaults, "
              "implementer names, components) must not change.")
ASSUMPTIONS = [
    "'fresh' = loaded from the same XML by a new SchemaLoader; process-wide "
    "caches (datatype registry, memoised conversions) are deliberately not "
    "reset",
    "mutation follows getSectionAttributes() recursively, not the private "
    "matcher back-pointer",
]
FLOORS = {"quick": {"steps_compared": 2500, "digests_compared": 2500,
                    "mutations": 300, "import_steps": 200},
          "thorough": {"steps_compared": 400000, "digests_compared": 500000,
                       "mutations": 200000, "import_steps": 100000}}
N_SEQ = {"quick": 5120, "thorough": 150000}
KINDS = ["valid", "valid", "syntax", "matching", "conversion", "sectiondt",
         "import", "import", "import-broken", "override", "mutate",
         "mutate", "world-changes", "validator"]

SDT_TYPE = {"kind": "section", "name": "sdt", "keytype": None,
            "datatype": None, "raw_datatype": "zcverif_dt.fam.needs_marker",
            "extends": None, "implements": None, "children": [
                {"kind": "key", "name": "marker", "datatype": "string",
                 "required": False, "handler": None, "attribute": None,
                 "default": None, "defaults": []},
                {"kind": "key", "name": "stamp", "datatype": "epoch",
                 "required": False, "handler": None, "attribute": None,
                 "default": "d0", "defaults": []},
                {"kind": "multikey", "name": "stamps", "datatype": "epoch",
                 "required": False, "handler": None, "attribute": None,
                 "default": None, "defaults": ["m1", "m2"]},
                {"kind": "multikey", "name": "lists",
                 "datatype": "string-list", "required": False,
                 "handler": None, "attribute": None, "default": None,
                 "defaults": ["a b  c", "long " + "w" * 70 + " tail x y z "
                              + "v" * 30]},
                {"kind": "multikey", "name": "items", "datatype": "string",
                 "required": False, "handler": None, "attribute": None,
                 "default": None, "defaults": ["d1", "d2"]},
                {"kind": "multikey", "name": "+", "datatype": "string",
                 "required": False, "handler": None, "attribute": "extra",
                 "default": None, "defaults": [["k1", "v1"], ["k1", "v2"]]}]}
SDT_SLOT = {"kind": "multisection", "name": "*", "type": "sdt",
            "required": False, "handler": None, "attribute": "sdt_list"}
# an application type with a single-valued wildcard key that has keyed
# defaults; a component type extends it under another key type (the
# defaults are re-keyed for the derived type - the base type's stay)
WB_TYPE = {"kind": "section", "name": "wbase", "keytype": "basic-key",
           "datatype": None, "extends": None, "implements": None,
           "children": [
               {"kind": "key", "name": "+", "datatype": "string",
                "required": False, "handler": None, "attribute": "wild",
                "default": None,
                "defaults": [["Alpha", "1"], ["beta", "2"], ["Gamma9", "3"]]},
           ]}
WB_SLOT = {"kind": "multisection", "name": "*", "type": "wbase",
           "required": False, "handler": None, "attribute": "wb_list"}


def shards(tier):
    return 16


FRESH = [0, None, None]     # counter, shard-wide SchemaLoader, last schema
FRESH_PROBLEMS = []


class World:
    """One schema + its packages."""

    def __init__(self, ctx, rng, space):
        self.space = space
        model = family.random_model(rng, handlers=False)
        model["types"].append(copy.deepcopy(SDT_TYPE))
        model["children"].append(copy.deepcopy(SDT_SLOT))
        model["types"].append(copy.deepcopy(WB_TYPE))
        model["children"].append(copy.deepcopy(WB_SLOT))
        abstracts = [t["name"] for t in model["types"]
                     if t["kind"] == "abstract"]
        # a top-level slot per abstract type so imported implementers can be
        # used
        for i, a in enumerate(abstracts):
            model["children"].append(
                {"kind": "multisection", "name": "*", "type": a,
                 "required": False, "handler": None,
                 "attribute": "imp_slot_%d" % i})
        self.model = model
        self.base = space.new_name("base")
        space.write(self.base, {"abstract.xml":
                                packages.abstract_xml(model)})
        self.components = []
        for i in range(rng.randint(1, 2)):
            name = space.new_name("c%d" % i)
            ctypes = packages.gen_component_types(rng, model, "c%d" % i)
            if abstracts and i == 0:
                ctypes.append(
                    {"kind": "section", "name": "c0-wd", "keytype":
                     rng.choice(["identifier", "identifier",
                                 "ipaddr-or-hostname"]),
                     "datatype": None, "extends": "wbase",
                     "implements": abstracts[0], "children": []})
            space.write(name, {"component.xml": packages.component_xml(
                ctypes, self.base)})
            self.components.append((name, ctypes))
        # now and then the schema itself imports a component: a text that
        # imports it again does nothing new
        self.schema_level = None
        head = None
        if abstracts and rng.random() < 0.4:
            sname = space.new_name("sl")
            stypes = packages.gen_component_types(rng, model, "sl")
            space.write(sname, {"component.xml": packages.component_xml(
                stypes, self.base)})
            self.schema_level = (sname, stypes)
            head = "<import package='%s'/>" % sname
        # a component whose second type is broken (extends an unknown
        # type): importing it must fail every time, on any schema
        self.broken = space.new_name("broken")
        btypes = packages.gen_component_types(rng, model, "bk", 2)
        btypes[1]["extends"] = "no-such-base-type"
        btypes[1]["children"] = []
        space.write(self.broken, {"component.xml": packages.component_xml(
            btypes, self.base)})
        self.broken_types = btypes
        # ... and one whose only fault is a datatype name that resolves up
        # to its last part ('zcverif_dt.fam' is a module, the function is
        # not there): refused every time as well
        self.broken2 = space.new_name("broken2")
        b2 = packages.gen_component_types(rng, model, "b2", 1)
        for c in b2[0].get("children") or []:
            if c["kind"] in ("key", "multikey"):
                c["datatype"] = rng.choice([
                    "zcverif_dt.fam.nosuchfunc", "zcverif_dt.p1.p2.nosuch",
                    "zcverif_dt.fam.Holder.nosuch"])
                break
        else:
            b2[0]["extends"] = None
            b2[0]["children"] = [
                {"kind": "key", "name": "alpha",
                 "datatype": "zcverif_dt.fam.nosuchfunc", "required": False,
                 "handler": None, "attribute": None, "default": None,
                 "defaults": []}]
        space.write(self.broken2, {"component.xml": packages.component_xml(
            b2, self.base)})
        self.broken_types = btypes + b2
        self.broken2_types = b2
        # ... and a pair: one component names a datatype in full
        # ('zcverif_dt.p1.conv'), the other by its last word only ('conv' is
        # no datatype): the second is refused whatever was loaded before
        self.dotted = space.new_name("dotted")
        dtt = packages.gen_component_types(rng, model, "dq", 1)
        dtt[0]["extends"] = None
        dtt[0]["children"] = [
            {"kind": "key", "name": "alpha", "datatype": "zcverif_dt.p1.conv",
             "required": False, "handler": None, "attribute": None,
             "default": None, "defaults": []}]
        space.write(self.dotted, {"component.xml": packages.component_xml(
            dtt, self.base)})
        self.bare = space.new_name("bare")
        brt = packages.gen_component_types(rng, model, "bw", 1)
        brt[0]["extends"] = None
        brt[0]["children"] = [dict(dtt[0]["children"][0], datatype="conv")]
        space.write(self.bare, {"component.xml": packages.component_xml(
            brt, self.base)})
        self.bare_types = brt
        self.dotted_types = dtt
        self.xml = family.render_xml(
            model, abstract_import=(self.base, "abstract.xml")
            if abstracts else None, head_xml=head)
        rmodel = model
        if self.schema_level:
            rmodel = copy.deepcopy(model)
            rmodel["types"].extend(copy.deepcopy(self.schema_level[1]))
        self.res = family.Resolved(rmodel)
        self.abstracts = abstracts

    def fresh(self):
        """A copy of the schema loaded independently: by the module-level
        function, or - every other time - by one SchemaLoader that serves
        the whole shard and is handed streams with a placeholder name (as
        sys.stdin has): each loadFile() of such a stream is a load of its
        own."""
        import ZConfig
        import ZConfig.loader
        from . import conf_common as cc
        FRESH[0] += 1
        if FRESH[0] % 2:
            return ZConfig.loadSchemaFile(io.StringIO(self.xml))
        if FRESH[1] is None:
            FRESH[1] = ZConfig.loader.SchemaLoader()
        s = FRESH[1].loadFile(cc.PseudoNamed(self.xml))
        if FRESH[2] is not None and s is FRESH[2]:
            FRESH_PROBLEMS.append("the shared SchemaLoader handed out the "
                                  "schema object of an earlier load again")
        FRESH[2] = s
        return s


def make_step(rng, w, kind):
    """-> dict(kind, text, overrides)"""
    if kind == "world-changes":
        return {"kind": kind, "overrides": []}
    if kind == "validator":
        a = make_step(rng, w, "import")["text"]
        b = "".join(l + "\n" for l in a.split("\n")
                    if l and not l.lstrip().startswith("%import"))
        if rng.random() < 0.3:
            b = make_step(rng, w, rng.choice(["valid", "matching"]))["text"]
        return {"kind": kind, "overrides": [],
                "runs": [[a], [b], [a, b] if rng.random() < 0.7 else [b, a]]}
    g = texts.Gen(rng, w.res, p_bad_value=0.0)
    tree = g.instance()
    step = {"kind": kind, "overrides": []}
    if kind == "syntax":
        tree["items"].insert(rng.randint(0, len(tree["items"])),
                             ["raw", rng.choice(texts.JUNK)])
    elif kind == "matching":
        texts.apply_fault(rng, w.res, tree, rng.choice(
            ["unknown-key", "unknown-type", "reuse-name",
             "missing-required", "repeat-single", "bad-key", "not-admitted",
             "not-admitted", "unnamed-in-plus", "fixed-name-wrong-type",
             "abstract-direct"]))
    elif kind == "conversion":
        if not texts.apply_fault(rng, w.res, tree, "bad-value"):
            tree["items"].append(["s", {"type": "sdt", "name": None,
                                        "form": "pair", "items": [
                                            ["k", "nosuch", "v"]]}])
    elif kind == "sectiondt":
        n = texts.mknode("sdt", rng.choice([None, "x1"]))
        n["items"].append(["k", "marker", "bad"])
        tree["items"].append(["s", n])
    elif kind == "import":
        name, ctypes = rng.choice(w.components)
        tree["items"].insert(0, ["raw", "%import " + name])
        if rng.random() < 0.3:
            tree["items"].insert(1, ["raw", "%import " + name])
        if getattr(w, "schema_level", None) and rng.random() < 0.5:
            # the component the schema already has, imported once more -
            # before or after the new one
            tree["items"].insert(rng.choice([0, 0, 1]),
                                 ["raw", "%import " + w.schema_level[0]])
        others = [c for c in w.components if c[0] != name]
        if others and rng.random() < 0.4:
            # a second component: imported as well (before or after the
            # first), or - not imported - one of its types used all the
            # same, which is refused whatever earlier loads imported
            oname, otypes = rng.choice(others)
            r = rng.random()
            if r < 0.6:
                tree["items"].insert(rng.choice([0, 1]),
                                     ["raw", "%import " + oname])
            for t in otypes:
                if t.get("implements"):
                    tree["items"].append(["s", texts.mknode(
                        t["name"], rng.choice([None, "oth"]), "empty")])
                    break
        for ti, t in enumerate(ctypes):
            if t.get("implements") and rng.random() < 0.8:
                n = texts.mknode(t["name"], rng.choice([None, "imp%d" % ti]))
                if rng.random() < 0.5 and not t.get("extends"):
                    n["items"].append(["k", "alpha", "42"])
                tree["items"].append(["s", n])
        if rng.random() < 0.12:
            # use before the import line: must be rejected
            t = ctypes[0]
            tree["items"].insert(0, ["s", texts.mknode(t["name"], None,
                                                       "empty")])
    elif kind == "import-broken" and getattr(w, "bare", None) and \
            rng.random() < 0.4:
        # the fully named datatype first (now or in an earlier step), then
        # - or alone - the component that names it by its last word
        if rng.random() < 0.6:
            tree["items"].insert(0, ["raw", "%import " + w.dotted])
            step["text"] = texts.render(tree)
            return step
        tree["items"].insert(0, ["raw", "%import " + w.bare])
        t = w.bare_types[0]
        tree["items"].append(["s", texts.mknode(t["name"], None, "empty")])
    elif kind == "import-broken":
        second = getattr(w, "broken2", None) and rng.random() < 0.5
        tree["items"].insert(0, ["raw", "%import " + (
            w.broken2 if second else w.broken)])
        t = w.broken2_types[0] if second else w.broken_types[0]
        if rng.random() < 0.7:
            tree["items"].append(["s", texts.mknode(
                t["name"], rng.choice([None, "bk1"]), "empty")])
    elif kind == "override":
        specs, _ = overrides.gen_specs(rng, w.res, tree)
        step["overrides"] = specs
    elif kind == "valid":
        if rng.random() < 0.5:
            n = texts.mknode("wbase", rng.choice([None, "wb1"]),
                             rng.choice(["empty", "pair"]))
            tree["items"].append(["s", n])
        # exercise defaults of the sdt type too
        if rng.random() < 0.5:
            n = texts.mknode("sdt", None)
            if rng.random() < 0.5:
                n["items"].append(["k", "items", "own"])
            tree["items"].append(["s", n])
    step["text"] = texts.render(tree)
    return step


mutate = outcome.poison


def validator_status(ctx, w, file_texts):
    import contextlib
    import gc
    from ZConfig import validator
    d = os.path.join(ctx.tmp, "c13val")
    os.makedirs(d, exist_ok=True)
    sp = os.path.join(d, "schema.xml")
    with open(sp, "w", encoding="utf-8") as f:
        f.write(w.xml)
    args = ["-s", sp]
    for n, t in enumerate(file_texts):
        fp = os.path.join(d, "f%d.conf" % n)
        with open(fp, "w", encoding="utf-8") as f:
            f.write(t)
        args.append(fp)
    try:
        with contextlib.redirect_stderr(io.StringIO()):
            rc = validator.main(args)
    except BaseException as e:  # noqa
        rc = "%s: %s" % (type(e).__name__, e)
    gc.collect()
    return rc


_HEX = None


def okey(o):
    """Outcome compared between the used and the fresh schema: the tree, or
    the error's family, class, line and message (addresses masked)."""
    global _HEX
    if o[0] == "ok":
        return ["ok", o[1]]
    if _HEX is None:
        import re
        _HEX = re.compile(r"0x[0-9a-fA-F]+")
    # (a schema default's position names the stream the schema came from:
    # '<stdin>' for the copies read from a placeholder-named stream)
    return ["reject", o[1], o[2], o[3],
            _HEX.sub("0x?", o[5]).replace(", in <stdin>", "")]


def run_history(ctx, w, steps, record=True):
    """Returns list of problems [(kind, index, expected, observed)]."""
    res = ctx.res
    schema = w.fresh()
    problems = []
    d_prev = dg.digest(schema)
    last = None
    for i, st in enumerate(steps):
        if st["kind"] == "world-changes":
            # what the datatypes look at has changed (for every schema
            # object alike): conversions are made when a text is loaded
            import zcverif_dt
            zcverif_dt.EPOCH[0] += 1
            if record:
                res.count("world_changes")
            o = None
        elif st["kind"] == "validator":
            # the validator script over several files, each a load of its
            # own: what one file %import-ed is not there for the next
            rcs = [validator_status(ctx, w, fs) for fs in st["runs"]]
            if record:
                res.count("validator_runs", len(rcs))
            want = max(rcs[0], rcs[1]) if all(
                isinstance(r, int) for r in rcs[:2]) else None
            if rcs[2] != want:
                problems.append(("outcome-depends-on-history", i,
                                 ["validator status", want,
                                  "= worst of the files one at a time",
                                  rcs[:2]],
                                 ["validator status", rcs[2]]))
            o = None
        elif st["kind"] == "mutate":
            if last is not None and last[0] == "ok":
                m = mutate(last[3][0])
                if record:
                    res.count("mutations", m)
            o = None
        else:
            o = outcome.load_text(schema, st["text"],
                                  overrides=st["overrides"])
            f = outcome.load_text(w.fresh(), st["text"],
                                  overrides=st["overrides"])
            if record:
                res.count("steps_compared")
                res.count("step_" + st["kind"])
                res.count("outcome_" + o[0])
                if st["kind"] == "import":
                    res.count("import_steps")
            if okey(o) != okey(f):
                problems.append(("outcome-depends-on-history", i,
                                 okey(f), okey(o)))
            last = o
        d_now = dg.digest(schema)
        if record:
            res.count("digests_compared")
        df = dg.diff(d_prev, d_now)
        if df:
            problems.append(("schema-changed", i,
                             [[p, a] for p, a, b in df][:6],
                             [[p, b] for p, a, b in df][:6]))
        d_prev = d_now
    return problems


def only_implementer_growth(problem, w, steps):
    """Mechanism predicate of the known finding: the digest difference of an
    %import step consists solely of implementer names (and identities)
    added to abstract types, all of them types defined by the generated
    components."""
    kind, idx, before, after = problem
    if kind != "schema-changed" or steps[idx]["kind"] not in (
            "import", "import-broken"):
        return False
    comp_types = set(t["name"] for _, ts in w.components for t in ts)
    # (a component that fails half-way has already registered the
    # implementers it defined before the failure)
    comp_types |= set(t["name"] for t in getattr(w, "broken_types", []))
    comp_types |= set(t["name"] for t in getattr(w, "dotted_types", []))
    comp_types |= set(t["name"] for t in getattr(w, "bare_types", []))
    if getattr(w, "schema_level", None):
        comp_types |= set(t["name"] for t in w.schema_level[1])
    for (p, a), (_, b) in zip(before, after):
        parts = p.strip("/").split("/")
        if len(parts) < 3 or parts[0] != "types" or \
                parts[1] not in w.abstracts:
            return False
        if parts[2] == "implementers":
            if not (set(a or []) <= set(b or []) and
                    set(b or []) - set(a or []) <= comp_types):
                return False
        elif parts[2] == "implementer_identity":
            if a is not None or (len(parts) > 3 and
                                 parts[3] not in comp_types):
                return False
        else:
            return False
    return True


def run_case(ctx, w, steps):
    res = ctx.res
    res.evaluations += 1
    res.sig(",".join(s["kind"][:4] for s in steps))
    res.sample("history", {"kinds": [s["kind"] for s in steps],
                           "first_text": steps[0].get("text", "")[:300]}, 2)
    import zcverif_dt
    zcverif_dt.EPOCH[0] = 0
    problems = run_history(ctx, w, steps)
    if FRESH_PROBLEMS:
        res.violate("independent-copy-is-not-independent",
                    {"xml": w.xml, "note": FRESH_PROBLEMS[0]},
                    "a new schema object per loadFile()", FRESH_PROBLEMS[0],
                    detail=FRESH_PROBLEMS[0], vsig="fresh-identity")
        del FRESH_PROBLEMS[:]
    if not problems:
        return
    case = {"xml": w.xml, "model": w.model,
            "components": [[n, ts] for n, ts in w.components],
            "broken": [w.broken, w.broken_types],
            "broken2": [w.broken2, w.broken2_types],
            "steps": steps}
    neutral = None
    for pr in problems:
        mech = None
        if only_implementer_growth(pr, w, steps):
            # neutraliser: the same history without its %import steps must
            # leave the schema untouched
            if neutral is None:
                plain = [s for s in steps
                         if s["kind"] not in ("import", "import-broken")]
                neutral = not run_history(ctx, w, plain, record=False)
            if neutral:
                mech = "import-adds-implementers-to-application-schema"
        res.violate(pr[0], case, pr[2], pr[3],
                    detail="step %d (%s) of %s" % (
                        pr[1], steps[pr[1]]["kind"],
                        [s["kind"] for s in steps]),
                    mechanism=mech,
                    vsig="%s|%s|%s" % (pr[0], steps[pr[1]]["kind"], mech))


def run_shard(ctx):
    space = packages.PackageSpace(os.path.join(ctx.tmp, "pkgs"),
                                  "c13s%d" % ctx.shard)
    try:
        n = N_SEQ[ctx.tier] // ctx.nshards
        per_world = 8
        for wi in range(max(1, n // per_world)):
            rng = ctx.rng("world", wi)
            try:
                w = World(ctx, rng, space)
                w.fresh()
            except Exception as e:  # noqa
                ctx.res.count("world_failed")
                ctx.res.sample("world-failed", {"error": "%s: %s" % (
                    type(e).__name__, e)}, 2)
                continue
            for si in range(per_world):
                k = rng.randint(2, 8)
                steps = [make_step(rng, w, rng.choice(KINDS))
                         for _ in range(k)]
                # the very same failing load once more: what the first
                # attempt left behind must not help the second
                for j, st in enumerate(list(steps)):
                    if st["kind"] in ("import-broken", "conversion",
                                      "sectiondt") and rng.random() < 0.3:
                        steps.insert(j + 1, copy.deepcopy(st))
                        break
                run_case(ctx, w, steps)
    finally:
        space.close()


def replay(ctx, case):
    if "note" in case:
        return      # identity of schema objects: seen in the run, not replayed
    space = packages.PackageSpace(os.path.join(ctx.tmp, "pkgs"), "c13r")
    try:
        # packages are referenced by name from the recorded XML/texts:
        # re-create them under the recorded names
        import re
        base = re.search(r"<import package=\"([^\"]+)\" file=\"abstract",
                         case["xml"])

        class W:
            pass
        w = W()
        w.xml = case["xml"]
        w.model = case["model"]
        w.components = [(n, ts) for n, ts in case["components"]]
        w.abstracts = [t["name"] for t in case["model"]["types"]
                       if t["kind"] == "abstract"]
        if base:
            space.write(base.group(1), {"abstract.xml":
                                        packages.abstract_xml(case["model"])})
        for n, ts in w.components:
            space.write(n, {"component.xml": packages.component_xml(
                ts, base.group(1) if base else None)})
        if case.get("broken"):
            w.broken, w.broken_types = case["broken"]
            space.write(w.broken, {"component.xml": packages.component_xml(
                w.broken_types[:2], base.group(1) if base else None)})
        if case.get("broken2"):
            w.broken2, w.broken2_types = case["broken2"]
            space.write(w.broken2, {"component.xml": packages.component_xml(
                w.broken2_types, base.group(1) if base else None)})
        import ZConfig
        w.fresh = lambda: ZConfig.loadSchemaFile(io.StringIO(w.xml))
        for pr in run_history(ctx, w, case["steps"], record=False):
            ctx.res.violate(pr[0], case, pr[2], pr[3],
                            detail="step %d" % pr[1])
    finally:
        space.close()
