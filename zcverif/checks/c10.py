"""C10 — schema documents are accepted exactly when they obey the schema
language rules.

By-construction oracle: documents rendered from the generated family must
load; each rule-violating edit must make loadSchemaFile raise SchemaError.
"""

import collections
import copy
import io
import os

from ..gen import family

ID = "C10"
LEVEL = "exploration"
TECHNIQUE = ("runtime monitoring: by-construction oracle (rule-satisfying "
             "documents must load, each rule-violating edit must raise "
             "SchemaError at schema load) over the generated schema family")
RULE = ("schema documents rendered from the systematic and random models of "
        "the C01 family (positives) and, for each, every applicable edit of "
        "a 40-entry rule-violation catalogue applied at a random applicable "
        "position (single edits), plus sampled pairs of edits.  "
        "distinct_nontrivial = distinct (edit kind(s), model features, "
        "observed error message head) signatures.")
LEVEL_TEXT = ("Every generated document goes through the real schema loader; "
              "a positive that is refused, a violating document that loads, "
              "or one that fails with something other than SchemaError is "
              "observed directly.")
ASSUMPTIONS = [
    "the edit catalogue in zcverif/checks/c10.py encodes the rules named in "
    "the statement; each edit is applied only where it certainly violates",
    "unjudged (documentation and code disagree, statement silent): <default> "
    "elements on a required multikey / required '+' key; dotted datatype "
    "names that are syntactically fine but unimportable; malformed XML",
]
FLOORS = {"quick": {"positives": 1000, "negatives": 8000,
                    "negative_pairs": 800, "positives_cyclic_import": 200},
          "thorough": {"positives": 35000, "negatives": 800000,
                       "negative_pairs": 100000}}
N_MODELS = {"quick": 700, "thorough": 60000}
PAIRS = {"quick": 3, "thorough": 4}


def shards(tier):
    return 16


def conts(model):
    """[(container dict, keytype, is_top)]"""
    res = family.Resolved(model)
    out = [(model, res.top.keytype, True)]
    for t in model["types"]:
        if t["kind"] == "section":
            out.append((t, res.types[t["name"]].keytype, False))
    return out, res


def _newkey(name, attr=None, **kw):
    c = {"kind": "key", "name": name, "datatype": "string",
         "required": False, "handler": None, "attribute": attr,
         "default": None, "defaults": []}
    c.update(kw)
    return c


def _pick(rng, seq):
    seq = list(seq)
    return rng.choice(seq) if seq else None


# --- edit catalogue: each returns a short description or None ---------------

def e_dup_type(rng, m):
    t = _pick(rng, m["types"])
    if not t:
        return None
    d = copy.deepcopy(t)
    d["name"] = rng.choice([t["name"], t["name"].upper()])
    if d["kind"] == "section":
        d["implements"] = None
    m["types"].append(d)
    return "dup type " + d["name"]


def e_dup_key(rng, m):
    cs, res = conts(m)
    cand = [(c, kt, ch) for c, kt, _ in cs for ch in c["children"]
            if ch["name"] not in ("*", "+")]
    x = _pick(rng, cand)
    if not x:
        return None
    c, kt, ch = x
    name = ch["name"]
    if kt != "identifier" and rng.random() < 0.5:
        name = name.upper()
    c["children"].append(_newkey(name, "dupattr_1"))
    return "dup key " + name


def e_dup_attr(rng, m):
    cs, res = conts(m)
    cand = []
    for c, kt, top in cs:
        cont = res.top if top else res.types[c["name"]]
        for ch in cont.children:
            cand.append((c, cont, kt, ch))
    x = _pick(rng, cand)
    if not x:
        return None
    c, cont, kt, ch = x
    attr = cont.attr_of(ch)
    free = [n for n in ["zeta", "eta", "theta"]]
    used = set(family.norm_key(k.get("_declared_under", kt), k["name"])
               for k in cont.children if k["name"] not in ("*", "+"))
    name = _pick(rng, [n for n in free if family.norm_key(kt, n) not in used])
    if not name:
        return None
    c["children"].append(_newkey(name, attr))
    return "dup attribute " + attr


def e_hyphen_underscore(rng, m):
    cs, res = conts(m)
    cand = []
    for c, kt, top in cs:
        if kt != "basic-key":
            continue
        cont = res.top if top else res.types[c["name"]]
        names = set(k["name"] for k in cont.children)
        attrs = set(cont.attr_of(k) for k in cont.children)
        if "x-y" not in names and "x_y" not in names and "x_y" not in attrs:
            cand.append(c)
    c = _pick(rng, cand)
    if not c:
        return None
    c["children"].append(_newkey("x-y"))
    c["children"].append(_newkey("x_y"))
    return "a-b vs a_b"


def e_inherited_clash(rng, m):
    cs, res = conts(m)
    cand = []
    for t in m["types"]:
        if t["kind"] == "section" and t.get("extends"):
            base = res.types[t["extends"]]
            kt = res.types[t["name"]].keytype
            for ch in base.children:
                if ch["name"] not in ("*", "+") and \
                        base.keytype == kt:
                    cand.append((t, ch))
    x = _pick(rng, cand)
    if not x:
        return None
    t, ch = x
    t["children"].append(_newkey(ch["name"], "inhattr_1"))
    return "derived redefines inherited " + ch["name"]


def e_inherited_attr_clash(rng, m):
    cs, res = conts(m)
    cand = []
    for t in m["types"]:
        if t["kind"] == "section" and t.get("extends"):
            base = res.types[t["extends"]]
            own = res.types[t["name"]]
            used = set(family.norm_key(c.get("_declared_under",
                                             own.keytype), c["name"])
                       for c in own.children if c["name"] not in ("*", "+"))
            for ch in base.children:
                cand.append((t, base.attr_of(ch), own.keytype, used))
    x = _pick(rng, cand)
    if not x:
        return None
    t, attr, kt, used = x
    name = _pick(rng, [n for n in ["zeta", "eta", "theta"]
                       if family.norm_key(kt, n) not in used])
    if not name:
        return None
    t["children"].append(_newkey(name, attr))
    return "derived reuses inherited attribute " + attr


def e_use_before_def(rng, m):
    # move a type definition behind the document's end of types and use it
    # earlier, or reference an unknown name
    kinds = ["type", "extends", "implements"]
    k = rng.choice(kinds)
    secs = [t for t in m["types"] if t["kind"] == "section"]
    if k == "type":
        cs, _ = conts(m)
        cand = [ch for c, _, _ in cs for ch in c["children"]
                if ch["kind"] in ("section", "multisection")]
        ch = _pick(rng, cand)
        if not ch:
            return None
        ch["type"] = "not-defined-yet"
        return "section type undefined"
    t = _pick(rng, secs)
    if not t:
        return None
    if k == "extends":
        later = [u["name"] for u in m["types"][m["types"].index(t) + 1:]
                 if u["kind"] == "section"]
        t["extends"] = _pick(rng, later) or "not-defined-yet"
        t["children"] = []
        return "extends not yet defined"
    later = [u["name"] for u in m["types"][m["types"].index(t) + 1:]
             if u["kind"] == "abstract"]
    t["implements"] = _pick(rng, later) or "not-defined-yet"
    return "implements not yet defined"


def e_extends_abstract(rng, m):
    abs_ = [t["name"] for t in m["types"] if t["kind"] == "abstract"]
    cand = [t for t in m["types"] if t["kind"] == "section" and
            any(m["types"].index(t) > m["types"].index(u)
                for u in m["types"] if u["kind"] == "abstract")]
    t = _pick(rng, cand)
    if not t:
        return None
    before = [u["name"] for u in m["types"][:m["types"].index(t)]
              if u["kind"] == "abstract"]
    t["extends"] = rng.choice(before)
    t["children"] = []
    return "extends abstract"


def e_implements_concrete(rng, m):
    cand = [t for t in m["types"] if t["kind"] == "section"]
    t = _pick(rng, cand)
    if not t:
        return None
    before = [u["name"] for u in m["types"][:m["types"].index(t)]
              if u["kind"] == "section"]
    if not before:
        return None
    t["implements"] = rng.choice(before)
    return "implements concrete"


def e_wild_without_attr(rng, m):
    cs, _ = conts(m)
    cand = [ch for c, _, _ in cs for ch in c["children"]
            if ch["name"] in ("*", "+")]
    ch = _pick(rng, cand)
    if not ch:
        return None
    ch["attribute"] = None
    return "wildcard without attribute"


def e_key_star(rng, m):
    cs, _ = conts(m)
    c = rng.choice(cs)[0]
    k = _newkey("*", "starattr_1")
    k["kind"] = rng.choice(["key", "multikey"])
    c["children"].append(k)
    return "key named *"


def e_multisection_fixed(rng, m):
    cs, _ = conts(m)
    cand = [ch for c, _, _ in cs for ch in c["children"]
            if ch["kind"] == "multisection"]
    ch = _pick(rng, cand)
    if not ch:
        return None
    ch["name"] = "fixedname"
    return "multisection with fixed name"


def e_default_on_required(rng, m):
    cs, _ = conts(m)
    cand = [ch for c, _, _ in cs for ch in c["children"]
            if ch["kind"] == "key" and ch["name"] != "+"]
    ch = _pick(rng, cand)
    if not ch:
        return None
    ch["required"] = True
    ch["default"] = rng.choice([family.VALID[ch["datatype"]][0][0] or "v",
                                "", " "])
    ch["defaults"] = []
    return "default on required key (%r)" % ch["default"]


def e_default_attr_on_wild(rng, m):
    cs, _ = conts(m)
    cand = [ch for c, _, _ in cs for ch in c["children"]
            if ch["kind"] == "key" and ch["name"] == "+"]
    ch = _pick(rng, cand)
    if not ch:
        return None
    ch["extra_attrs"] = {"default": rng.choice(["v", "", " "])}
    return "default attribute on wildcard key"


LIB_DIR = [None]


def e_import_src_redefines(rng, m):
    """<import src=...> of a schema file that defines a type name the
    document has already defined (local definition first)."""
    if not LIB_DIR[0]:
        return None
    t = _pick(rng, m["types"])
    if not t:
        return None
    name = rng.choice([t["name"], t["name"].upper()])
    if not name.replace("-", "").replace("_", "").isalnum() or \
            not name.isascii():
        return None         # an earlier edit of a pair made the name ill-formed
    kind = rng.choice(["sectiontype", "abstracttype"])
    import os
    fn = os.path.join(LIB_DIR[0], "lib_%s_%s.xml" % (kind[:3], name))
    if not os.path.exists(fn):
        with open(fn, "w") as f:
            f.write("<schema><%s name='%s'/></schema>" % (kind, name))
    twice = rng.random() < 0.3
    m["inner_xml"] = "<import src='file://%s'/>" % fn
    if twice:
        # two libraries defining the same new name
        fn2 = os.path.join(LIB_DIR[0], "lib2_%s.xml" % kind[:3])
        fn3 = os.path.join(LIB_DIR[0], "lib3_%s.xml" % kind[:3])
        for x in (fn2, fn3):
            if not os.path.exists(x):
                with open(x, "w") as f:
                    f.write("<schema><%s name='libtype9'/></schema>" % kind)
        m["inner_xml"] = "<import src='file://%s'/><import src='file://%s'/>" \
            % (fn2, fn3)
    return "import src redefines type %s" % name


def e_keyed_default_on_plain(rng, m):
    cs, _ = conts(m)
    cand = [ch for c, _, _ in cs for ch in c["children"]
            if ch["kind"] in ("key", "multikey") and ch["name"] != "+"
            and not ch["required"]]
    ch = _pick(rng, cand)
    if not ch:
        return None
    ch["default"] = None
    k = rng.choice(["somekey", "somekey", "", " "])
    ch["defaults"] = [[k, "v"]]
    return "keyed default on plain key" + ("" if k == "somekey" else
                                           " (key attribute %r)" % k)


def e_unkeyed_default_on_wild(rng, m):
    cs, _ = conts(m)
    cand = [ch for c, _, _ in cs for ch in c["children"]
            if ch["kind"] in ("key", "multikey") and ch["name"] == "+"
            and not ch["required"]]
    ch = _pick(rng, cand)
    if not ch:
        return None
    ch["defaults"] = ["v"]
    return "unkeyed default on wildcard"


def e_colliding_defaults(rng, m):
    cs, _ = conts(m)
    cand = [(ch, kt) for c, kt, _ in cs for ch in c["children"]
            if ch["kind"] == "key" and ch["name"] == "+"
            and kt != "identifier" and not ch["required"]]
    x = _pick(rng, cand)
    if not x:
        return None
    ch, kt = x
    v = family.VALID[ch["datatype"]][0][0] or "v"
    ch["defaults"] = [["wild", v], ["WILD", v]]
    return "defaults collide after normalisation"


def e_colliding_defaults_derived(rng, m):
    # base under identifier keeps 'Wild' and 'wild' apart; a derived type
    # with a case-insensitive key type must refuse them
    names = [t["name"] for t in m["types"]]
    if "colbase" in names:
        return None
    m["types"].append({"kind": "section", "name": "colbase",
                       "keytype": "identifier", "datatype": None,
                       "extends": None, "implements": None, "children": [
                           {"kind": "key", "name": "+",
                            "attribute": "colmap", "datatype": "string",
                            "required": False, "handler": None,
                            "default": None,
                            "defaults": [["Wild", "a"], ["wild", "b"]]}]})
    m["types"].append({"kind": "section", "name": "colderived",
                       "keytype": "basic-key", "datatype": None,
                       "extends": "colbase", "implements": None,
                       "children": []})
    return "defaults collide after re-normalisation in derived type"


def e_colliding_defaults_tuple_key(rng, m):
    # a key type whose values are not strings (inet-address gives tuples):
    # 'Host:80' and 'host:80' are one key
    names = [t["name"] for t in m["types"]]
    if "coltuple" in names:
        return None
    kt = rng.choice(["inet-address", "inet-binding-address",
                     "inet-connection-address"])
    a, b = rng.choice([("Host:80", "host:80"), ("LOCALHOST:1", "localhost:1"),
                       ("[::1]:80", "[::1]:80 ")])
    kind = "key"
    m["types"].append({"kind": "section", "name": "coltuple",
                       "keytype": kt, "datatype": None,
                       "extends": None, "implements": None, "children": [
                           {"kind": kind, "name": "+",
                            "attribute": "colmap", "datatype": "string",
                            "required": False, "handler": None,
                            "default": None,
                            "defaults": [[a, "a"], [b, "b"]]}]})
    return "defaults collide under a tuple-valued key type (%s)" % kt


def e_colliding_defaults_reentrant_key_type(rng, m):
    # the key type is an application function that lower-cases - and loads
    # a schema of its own while it does so; 'Alpha' and 'ALPHA' are one key
    names = [t["name"] for t in m["types"]]
    if "colreload" in names:
        return None
    a, b = rng.choice([("Alpha", "ALPHA"), ("alpha", "Alpha"),
                       ("B", "b")])
    m["types"].append({"kind": "section", "name": "colreload",
                       "keytype": "zcverif_dt.fam.kt_reload",
                       "datatype": None, "extends": None,
                       "implements": None, "children": [
                           {"kind": "key", "name": "+",
                            "attribute": "colmap", "datatype": "string",
                            "required": False, "handler": None,
                            "default": None,
                            "defaults": [[a, "1"], ["other", "x"],
                                         [b, "2"]]}]})
    return "defaults collide under a key type that loads a schema itself"


def e_bad_names(rng, m):
    cs, _ = conts(m)
    k = rng.choice(["typename", "keyname", "attribute", "getSection",
                    "required", "datatype", "handler"])
    if k == "typename":
        t = _pick(rng, m["types"])
        if not t:
            return None
        old = t["name"]
        t["name"] = rng.choice(["1bad", "_x", "a b", old + "\n", "\n" + old,
                                old + "^", old + "[0]", "`" + old,
                                old + "\\x", old + "/", old + ":x",
                                old + "\u212a", "\u017f" + old,
                                old + "\xe9"])
        # keep references consistent so this is the only problem
        for c, _, _ in cs:
            for ch in c["children"]:
                if ch.get("type") == old:
                    ch["type"] = t["name"]
        for u in m["types"]:
            if u.get("extends") == old:
                u["extends"] = t["name"]
            if u.get("implements") == old:
                u["implements"] = t["name"]
        return "bad type name"
    c, kt, _ = rng.choice(cs)
    if k == "keyname":
        c["children"].append(_newkey(rng.choice(
            family.BAD_KEYS[kt][:2] + ["zeta9\n", "zeta9\t", "\nzeta9",
                                       "zeta\u212a9", "\u212aeta9",
                                       "zeta9\u0131"]),
            "badname_1"))
        return "key name invalid under " + kt
    if k == "attribute":
        c["children"].append(_newkey("zeta9", rng.choice(
            ["not-ident", "1x", "a.b", "zeta9\n", "a^b", "a[0]", "z`",
             "a\\b", "b]", "@a", "a:b", "a/b",
             # (no attribute value is trimmed: a padded one is as ill-formed)
             " zeta9", "zeta9 ", "zeta9\t"])))
        return "bad attribute"
    if k == "getSection":
        c["children"].append(_newkey("zeta9", "getSectionThing"))
        return "reserved attribute"
    ch = _pick(rng, c["children"])
    if not ch:
        return None
    if k == "required":
        ch["extra_attrs"] = {"required": rng.choice(["maybe", "true", "YES",
                                                     "1", "", "yes\n",
                                                     "yes ", " no", "no\t",
                                                     " yes "])}
        return "bad required value"
    if k == "datatype":
        if ch["kind"] not in ("key", "multikey"):
            return None
        ch["extra_attrs"] = {"datatype": rng.choice([
            "nosuchdt", "in teger", "1x", "integer\n", " integer",
            "integer ", "\tinteger", " zcverif_dt.p1.conv",
            # dotted, but no dotted name
            "os..path", "os.", "a b.c", "os.pa th", "os.path.join.",
            "1a.b", "os.1x", "zcverif_dt.fam.", "zcverif_dt..fam.wrap"])}
        return "unknown datatype"
    if ch["kind"] in ("section", "multisection") and rng.random() < 0.5:
        # a padded reference to a type that exists
        ch["extra_attrs"] = {"type": rng.choice([" %s", "%s ", "\t%s"])
                             % ch["type"]}
        return "padded type reference"
    ch["extra_attrs"] = {"handler": rng.choice(["1bad", "a b", "h1\n", " h1",
                                                "h1 "])}
    return "bad handler name"


def e_nesting(rng, m):
    cs, _ = conts(m)
    k = rng.choice(["key-in-key", "type-in-type", "default-in-section",
                    "unknown-element", "stray-text", "abstract-in-type",
                    "schema-in-schema", "description-twice",
                    "example-twice"])
    if k == "key-in-key":
        cand = [ch for c, _, _ in cs for ch in c["children"]
                if ch["kind"] in ("section", "multisection")]
        ch = _pick(rng, cand)
        if not ch:
            return None
        ch["inner_xml"] = "<key name='inner9'/>"
        return k
    if k == "default-in-section":
        cand = [ch for c, _, _ in cs for ch in c["children"]
                if ch["kind"] in ("section", "multisection")]
        ch = _pick(rng, cand)
        if not ch:
            return None
        ch["inner_xml"] = "<default>v</default>"
        return k
    tcont = _pick(rng, [c for c, _, top in cs if not top])
    if k == "type-in-type":
        if not tcont:
            return None
        tcont["inner_xml"] = "<sectiontype name='inner9'/>"
        return k
    if k == "abstract-in-type":
        if not tcont:
            return None
        tcont["inner_xml"] = "<abstracttype name='inner9'/>"
        return k
    if k == "unknown-element":
        m["inner_xml"] = "<foo/>"
        return k
    if k == "stray-text":
        target = rng.choice([m] + ([tcont] if tcont else []))
        # a word, a single character, a character reference, CDATA, one
        # character per line
        target["inner_xml"] = rng.choice([
            "stray text", "stray", ";", "x", ".", "\u00e9", "&#65;",
            "<![CDATA[x]]>", "a\n  b\n  c", "&amp;", "0", "-", "\u00a0.",
            "x <!-- c -->"])
        return k
    if k == "schema-in-schema":
        m["inner_xml"] = "<schema/>"
        return k
    if k == "description-twice":
        m["inner_xml"] = "<description>a</description>" \
            "<description>b</description>"
        return k
    m["inner_xml"] = "<example>a</example><example>b</example>"
    return k


def e_multikey_default_attr(rng, m):
    cs, _ = conts(m)
    cand = [ch for c, _, _ in cs for ch in c["children"]
            if ch["kind"] == "multikey"]
    ch = _pick(rng, cand)
    if not ch:
        return None
    ch["extra_attrs"] = {"default": "v"}
    return "default attribute on multikey"


def e_import(rng, m):
    m["inner_xml"] = rng.choice([
        "<import/>", "<import src='x.xml' package='ZConfig'/>",
        "<import src='x.xml' file='y.xml'/>",
        "<import package='ZConfig.components.logger' file='a/b.xml'/>",
        "<import src='x.xml#frag'/>", "<import package='zcverif..dt'/>",
        "<import package='zcverif_nosuch_pkg9'/>",
        "<import package='zcverif_dt' file='nosuch.xml'/>",
        "<import package='os'/>"])
    return "bad import"


def e_missing_attr(rng, m):
    cs, _ = conts(m)
    k = rng.choice(["section-type", "type-name", "key-name", "empty-name"])
    if k == "section-type":
        cand = [ch for c, _, _ in cs for ch in c["children"]
                if ch["kind"] in ("section", "multisection")]
        ch = _pick(rng, cand)
        if not ch:
            return None
        ch["extra_attrs"] = {"type": None}
        return "section without type"
    if k == "type-name":
        t = _pick(rng, [t for t in m["types"] if t["kind"] == "section"])
        if not t:
            return None
        m["inner_xml"] = "<sectiontype/>"
        return "sectiontype without name"
    cand = [ch for c, _, _ in cs for ch in c["children"]
            if ch["kind"] in ("key", "multikey")]
    ch = _pick(rng, cand)
    if not ch:
        return None
    ch["extra_attrs"] = {"name": None if k == "key-name" else ""}
    return "key without name"


def e_section_of_schema(rng, m):
    # a second top-level <schema>-only attribute on a section / extending
    # the top-level schema is not expressible; instead: a single section
    # slot whose maxOccurs would exceed 1 is multisection's job.  Here: a
    # 'section' with name '+' and no attribute.
    cs, _ = conts(m)
    cand = [ch for c, _, _ in cs for ch in c["children"]
            if ch["kind"] == "section"]
    ch = _pick(rng, cand)
    if not ch:
        return None
    ch["name"] = "+"
    ch["attribute"] = None
    return "section '+' without attribute"


def e_more_names(rng, m):
    """Further name rules: a malformed prefix, an abstract type without a
    name, a section type without a name."""
    k = rng.choice(["prefix", "abstract-noname", "type-noname",
                    "prefix-on-type"])
    if k == "prefix":
        if m.get("prefix"):
            return None
        m["prefix"] = rng.choice(["1bad", "a..b", ".rel", "a b", "a.",
                                  "zcverif_dt\n"])
        return "malformed schema prefix"
    if k == "abstract-noname":
        t = _pick(rng, [t for t in m["types"] if t["kind"] == "abstract"])
        if not t:
            return None
        t["name"] = ""
        return "abstracttype without a name"
    t = _pick(rng, [t for t in m["types"] if t["kind"] == "section"])
    if not t:
        return None
    if k == "type-noname":
        t["name"] = ""
        return "sectiontype without a name"
    if t.get("prefix"):
        return None
    t["prefix"] = rng.choice(["1bad", "a..b", "a b", "..x", "x."])
    return "malformed sectiontype prefix"


def e_empty_references(rng, m):
    """A reference attribute that is present but empty or blank."""
    ts = [t for t in m["types"] if t["kind"] == "section"]
    k = rng.choice(["implements", "extends", "keytype", "datatype",
                    "handler", "schema-keytype"])
    v = rng.choice(["", " "])
    if k in ("implements", "extends", "keytype"):
        t = _pick(rng, [t for t in ts if not t.get(k)])
        if not t:
            return None
        t["extra_attrs"] = dict(t.get("extra_attrs") or {}, **{k: v})
        return "%s=%r on a sectiontype" % (k, v)
    if k == "schema-keytype":
        m["extra_attrs"] = dict(m.get("extra_attrs") or {}, keytype=v)
        return "keytype=%r on the schema" % v
    cs, _ = conts(m)
    ch = _pick(rng, [ch for c, _, _ in cs for ch in c["children"]
                     if ch["kind"] in ("key", "multikey")])
    if not ch:
        return None
    ch["extra_attrs"] = dict(ch.get("extra_attrs") or {}, **{k: v})
    return "%s=%r on a key" % (k, v)


def e_inside_text_element(rng, m):
    """An element inside <description> / <example> (text only, per DTD)."""
    inner = rng.choice(["<key name='inner9'/>", "<multikey name='inner9'/>",
                        "<sectiontype name='inner9'/>",
                        "<abstracttype name='inner9'/>",
                        "<description>again</description>",
                        "<import package='ZConfig.components.basic'/>"])
    tag = rng.choice(["description", "example"])
    xml = "<%s>some text %s more</%s>" % (tag, inner, tag)
    ts = [t for t in m["types"] if t["kind"] == "section"]
    target = rng.choice([m] + ts[:2])
    if target.get("inner_xml"):
        return None
    target["inner_xml"] = xml
    return "%s inside <%s>" % (inner.split()[0][1:].rstrip("/>"), tag)


EDITS = [e_empty_references, e_inside_text_element, e_more_names, e_dup_type, e_dup_key, e_dup_attr, e_hyphen_underscore,
         e_inherited_clash, e_inherited_attr_clash, e_use_before_def, e_extends_abstract,
         e_implements_concrete, e_wild_without_attr, e_key_star,
         e_multisection_fixed, e_default_on_required, e_default_attr_on_wild,
         e_import_src_redefines,
         e_keyed_default_on_plain, e_unkeyed_default_on_wild,
         e_colliding_defaults, e_colliding_defaults_derived,
         e_colliding_defaults_tuple_key,
         e_colliding_defaults_reentrant_key_type, e_bad_names,
         e_bad_names, e_nesting, e_nesting, e_multikey_default_attr,
         e_import, e_missing_attr, e_section_of_schema]


# the ways a schema document reaches the loader, in rotation: the rules
# are the same for all of them
WAYS = ["string", "path", "string", "url", "binary-file", "loader-object",
        "string", "text-file", "loader-twice", "bytes-utf16",
        "bytes-latin1"]
LOAD_N = [0]
WAY_COUNT = collections.Counter()
LAST_WAY = [None]


def load_by(xml, way):
    import urllib.request
    import ZConfig
    import ZConfig.loader
    if way == "string":
        return ZConfig.loadSchemaFile(io.StringIO(xml))
    if way == "bytes-utf16":
        return ZConfig.loadSchemaFile(io.BytesIO(xml.encode("utf-16")))
    if way == "bytes-latin1":
        try:
            return ZConfig.loadSchemaFile(io.BytesIO((
                '<?xml version="1.0" encoding="iso-8859-1"?>\n' +
                xml).encode("latin-1")))
        except UnicodeEncodeError:
            return ZConfig.loadSchemaFile(io.StringIO(xml))
    path = os.path.join(LIB_DIR[0] or ".", "document under test.xml")
    with open(path, "wb") as f:
        f.write(xml.encode("utf-8"))
    if way == "path":
        return ZConfig.loadSchema(path)
    if way == "url":
        return ZConfig.loadSchema("file://" +
                                  urllib.request.pathname2url(path))
    if way == "binary-file":
        with open(path, "rb") as f:
            return ZConfig.loadSchemaFile(f)
    if way == "text-file":
        with open(path, encoding="utf-8") as f:
            return ZConfig.loadSchemaFile(f)
    ld = ZConfig.loader.SchemaLoader()
    if way == "loader-twice":
        # the same loader object is asked twice: what it answers the
        # second time is what counts (a refusal must be repeated)
        try:
            ld.loadURL(path)
        except Exception:  # noqa
            pass
    return ld.loadURL(path)


def load(xml, way=None):
    import ZConfig
    if way is None:
        LOAD_N[0] += 1
        way = WAYS[LOAD_N[0] % len(WAYS)]
        if LIB_DIR[0] is None:
            way = "string"
    WAY_COUNT[way] += 1
    LAST_WAY[0] = way
    try:
        load_by(xml, way)
    except ZConfig.SchemaError as e:
        return ("schema-error", str(e).split("\n")[0][:60])
    except Exception as e:  # noqa
        return ("other", type(e).__name__, str(e)[:120])
    return ("ok",)


def unjudged_positive(model):
    """<default> elements on a required multikey / '+' key."""
    for c in [model] + [t for t in model["types"] if t["kind"] == "section"]:
        for ch in c["children"]:
            if ch.get("required") and ch.get("defaults"):
                return True
    return False


def msg_head(out):
    if out[0] != "schema-error":
        return out[0]
    return "".join(ch for ch in " ".join(out[1].split()[:3])
                   if not ch.isdigit())


def run_model(ctx, model, rng):
    res = ctx.res
    xml = family.render_xml(model)
    res.evaluations += 1
    out = load(xml)
    feats = ""
    if unjudged_positive(model):
        res.count("unjudged")
        res.sample("unjudged-positive", {"xml": xml}, 1)
    else:
        res.count("positives")
        res.sample("positive", {"xml": xml}, 1)
        if out[0] != "ok":
            res.violate("rule-satisfying-document-refused",
                        {"model": model, "edits": [], "way": LAST_WAY[0]}, "loads", list(out),
                        detail="%s | %s" % (out, xml),
                        vsig="pos|%s" % msg_head(out))
            return
    if out[0] != "ok":
        return
    if CYCLIC and rng.random() < 0.3:
        # the same document importing component packages whose imports are
        # cyclic: still rule-satisfying
        head = rng.choice(CYCLIC)
        xml2 = family.render_xml(model, head_xml=head)
        res.evaluations += 1
        res.count("positives_cyclic_import")
        o2 = load(xml2)
        res.sig("cyclic-import|%s" % o2[0])
        if o2[0] != "ok":
            res.violate("rule-satisfying-document-refused",
                        {"model": model, "edits": [], "head": head,
                         "way": LAST_WAY[0]},
                        "loads", list(o2),
                        detail="cyclic component import %s -> %s" % (head,
                                                                      o2),
                        vsig="cyc|%s" % msg_head(o2))
    edits = list(EDITS)
    rng.shuffle(edits)
    for e in edits:
        m2 = copy.deepcopy(model)
        d = e(rng, m2)
        if d is None:
            res.count("edit_not_applicable")
            continue
        check_negative(ctx, m2, [e.__name__], [d], "negatives")
    for _ in range(PAIRS[ctx.tier]):
        m2 = copy.deepcopy(model)
        e1, e2 = rng.sample(EDITS, 2)
        try:
            d1 = e1(rng, m2)
            d2 = e2(rng, m2) if d1 is not None else None
        except (KeyError, ValueError, TypeError, AttributeError):
            # the second edit could not be expressed on the already
            # invalid model
            res.count("pair_not_expressible")
            continue
        if d1 is None or d2 is None:
            continue
        check_negative(ctx, m2, [e1.__name__, e2.__name__], [d1, d2],
                       "negative_pairs")


def check_negative(ctx, m2, names, descs, counter):
    res = ctx.res
    try:
        xml = family.render_xml(m2)
    except Exception as e:  # noqa  (renderer cannot express it)
        res.count("unrenderable")
        return
    res.evaluations += 1
    res.count(counter)
    out = load(xml)
    res.sig("%s|%s" % ("+".join(names), msg_head(out)))
    res.sample("negative-" + names[0], {"xml": xml, "edits": descs,
                                        "outcome": list(out)}, 1)
    if out[0] == "ok":
        res.violate("rule-violating-document-accepted",
                    {"model": m2, "edits": descs, "way": LAST_WAY[0]}, "SchemaError", "loads",
                    detail="edits=%s | %s" % (descs, xml),
                    vsig="acc|%s" % "+".join(names))
    elif out[0] == "other":
        res.violate("violation-not-reported-as-SchemaError",
                    {"model": m2, "edits": descs, "way": LAST_WAY[0]}, "SchemaError", list(out),
                    detail="edits=%s -> %s | %s" % (descs, out, xml),
                    vsig="oth|%s|%s" % ("+".join(names), out[1]))


CYCLIC = []


def make_cyclic_packages(ctx):
    """Component packages whose imports form cycles; importing them is
    legal (a component is read once)."""
    from ..gen import packages
    space = packages.PackageSpace(os.path.join(ctx.tmp, "c10pkgs"),
                                  "c10s%d" % ctx.shard)
    a = space.new_name("cyc")
    space.write(a, {
        "component.xml": "<component><import package='%s' file='extra.xml'/>"
        "<sectiontype name='cyc-a'/></component>" % a,
        "extra.xml": "<component><import package='%s'/>"
        "<sectiontype name='cyc-b'/></component>" % a})
    b, c = space.new_name("mut1"), space.new_name("mut2")
    space.write(b, {"component.xml": "<component><import package='%s'/>"
                    "<sectiontype name='mut-b'/></component>" % c})
    space.write(c, {"component.xml": "<component><import package='%s'/>"
                    "<sectiontype name='mut-c'/></component>" % b})
    s = space.new_name("self")
    space.write(s, {"component.xml": "<component><import package='%s'/>"
                    "<sectiontype name='self-s'/></component>" % s})
    CYCLIC[:] = [
        "<import package='%s'/>" % a,
        "<import package='%s' file='extra.xml'/>" % a,
        "<import package='%s'/><import package='%s'/>" % (b, c),
        "<import package='%s'/>" % c,
        "<import package='%s'/><import package='%s'/>" % (s, s),
    ]
    return space


# datatype names that lead through objects which are not modules (a class,
# a nested class, a function attribute), written in full or with a prefix:
# rule-satisfying documents
OBJECT_PATH_DOCS = [
    '<schema><key name="a" datatype="zcverif_dt.fam.Holder.conv"/></schema>',
    '<schema><key name="a" datatype="zcverif_dt.fam.Holder.Inner.conv"/>'
    '</schema>',
    '<schema><key name="a" datatype="datetime.date.fromisoformat"/></schema>',
    '<schema prefix="zcverif_dt.fam.Holder"><key name="a" datatype=".conv"/>'
    '<multikey name="b" datatype=".Inner.conv"/></schema>',
    '<schema keytype="zcverif_dt.fam.Holder.lower"><key name="a"/></schema>',
    '<schema><key name="a" datatype="os.path.normpath"/></schema>',
    '<schema><key name="a" datatype="xml.sax.saxutils.escape"/></schema>',
    '<schema><key name="a" datatype="logging.handlers.SysLogHandler.'
    'facility_names.get"/></schema>',
    '<schema><sectiontype name="s" datatype="zcverif_dt.fam.Holder.conv" '
    'keytype="zcverif_dt.fam.Holder.lower"/>'
    '<section type="s" name="*" attribute="s"/></schema>',
    '<schema><sectiontype name="s" prefix="zcverif_dt.fam">'
    '<key name="a" datatype=".Holder.Inner.conv"/></sectiontype></schema>',
]


_L = "t" + "y" * 69       # names of 70 characters: no limit is documented
_A = "a" + "b" * 99
LONG_NAME_DOCS = [
    '<schema><sectiontype name="%s"><key name="%s"/></sectiontype>'
    '<section type="%s" name="*" attribute="s"/></schema>' % (_L, _L, _L),
    '<schema><abstracttype name="%s"/><sectiontype name="%s" '
    'implements="%s"/><sectiontype name="x%s" extends="%s"/>'
    '<multisection type="%s" name="+" attribute="m"/></schema>'
    % (_A, _L, _A, _L, _L, _A),
    '<schema handler="%s"><sectiontype name="%s"/>'
    '<key name="k" handler="%s" attribute="%s"/>'
    '<section type="%s" name="%s" handler="h"/></schema>'
    % (_L, _L, _L, _A, _L, _L),
    '<schema keytype="identifier"><key name="%s"/><multikey name="%s2"/>'
    '</schema>' % (_L, _L),
]
# a section type's own prefix is in force for the element's own attributes
# too (wrap_a, kt, key_lower, rev exist below the prefix only)
OWN_PREFIX_DOCS = [
    '<schema prefix="zcverif_dt"><sectiontype name="t" prefix=".p1" '
    'datatype=".wrap_a"><key name="a"/></sectiontype>'
    '<section type="t" name="*" attribute="t"/></schema>',
    '<schema prefix="zcverif_dt"><sectiontype name="t" prefix=".p1" '
    'keytype=".kt"><key name="a" datatype=".conv"/></sectiontype></schema>',
    '<schema prefix="zcverif_dt.p1"><sectiontype name="t" prefix=".p2" '
    'keytype=".key_lower" datatype="zcverif_dt.p1.wrap_a">'
    '<key name="a" datatype=".rev"/></sectiontype>'
    '<sectiontype name="u" extends="t" prefix="zcverif_dt.p1" '
    'datatype=".wrap_a"/></schema>',
    '<schema><sectiontype name="t" prefix="zcverif_dt.p1" datatype=".wrap_a" '
    'keytype=".p2.key_lower"/><multisection type="t" name="+" '
    'attribute="ts"/></schema>',
]
OBJECT_PATH_DOCS = OBJECT_PATH_DOCS + LONG_NAME_DOCS + OWN_PREFIX_DOCS


def run_object_paths(ctx):
    for i, xml in enumerate(OBJECT_PATH_DOCS):
        if not ctx.mine(i):
            continue
        for way in ("string", "path"):
            ctx.res.evaluations += 1
            ctx.res.count("positives_object_path")
            out = load(xml, way)
            ctx.res.sig("object-path|%d|%s" % (i, out[0]))
            if out[0] != "ok":
                ctx.res.violate("rule-satisfying-document-refused",
                                {"xml": xml, "way": way}, "loads", list(out),
                                detail="%s | %s" % (out, xml),
                                vsig="objpath|%s" % msg_head(out))


def run_shard(ctx):
    LIB_DIR[0] = os.path.join(ctx.tmp, "c10lib")
    os.makedirs(LIB_DIR[0], exist_ok=True)
    space = make_cyclic_packages(ctx)
    try:
        run_object_paths(ctx)
        _run_shard(ctx)
    finally:
        space.close()


def _run_shard(ctx):
    try:
        _run_shard_(ctx)
    finally:
        for w, n in WAY_COUNT.items():
            ctx.res.count("loaded_as_" + w, n)


def _run_shard_(ctx):
    rng = ctx.rng("edits")
    idx = 0
    for m in family.systematic_models():
        idx += 1
        if ctx.mine(idx):
            run_model(ctx, m, rng)
    for i in range(N_MODELS[ctx.tier]):
        if i % ctx.nshards != ctx.shard:
            continue
        mrng = ctx.rng("model", i)
        m = family.random_model(mrng, handlers=True)
        run_model(ctx, m, rng)


def replay(ctx, case):
    LIB_DIR[0] = os.path.join(ctx.tmp, "c10lib")
    os.makedirs(LIB_DIR[0], exist_ok=True)
    if "xml" in case:
        out = load(case["xml"], case.get("way") or "string")
        if out[0] != "ok":
            ctx.res.violate("rule-satisfying-document-refused", case,
                            "loads", list(out))
        return
    xml = family.render_xml(case["model"])
    out = load(xml, case.get("way") or "string")
    if case["edits"]:
        if out[0] != "schema-error":
            ctx.res.violate("rule-violating-document-not-SchemaError", case,
                            "SchemaError", list(out))
    elif out[0] != "ok":
        ctx.res.violate("rule-satisfying-document-refused", case, "loads",
                        list(out))
