"""C18 — path, URL and file-object entry points reach the same resource.

Part A (agreement monitor).  Seeded directory trees of up to three levels
with file names over the statement's URL-neutral alphabet hold a schema
(``extends=`` / ``<import src=…>`` references across directories) and a
configuration (``%include`` chains across directories).  Both are loaded by
absolute path, relative path (several working directories, inside and outside
the tree), ``file:///`` URL, ``file:/`` URL and from open named file objects.
Every load must give the value tree the layout denotes (so all entry points
agree), and a wrapper on ``BaseLoader.createResource`` checks that every
resource URL is in ``file:///`` form and percent-decodes to the file that was
meant.  References carrying a ``#fragment`` must be rejected.

Part B (helpers).  ``isPath``, ``urlnormalize``, ``urldefrag``,
``urljoin`` and ``normalizeURL`` on every string up to the tier's length
bound over {a C : / \\ # . f i l e}, against ``ref/refurl.py``.
"""

import io
import itertools
import os
import shutil
from xml.sax.saxutils import quoteattr

from ..mon import outcome
from ..ref import refurl

ID = "C18"
LEVEL = "exploration"
TECHNIQUE = ("runtime monitoring: metamorphic agreement of entry points with "
             "a layout model as oracle, createResource wrapper, exhaustive "
             "bounded enumeration of helper inputs against a hand-written "
             "RFC 3986 reference")
RULE = ("(A) seeded layouts: a tree of <=3 directory levels, 2-5 config "
        "files joined by %include and 2-5 schema files joined by extends= / "
        "<import src=>, names of 1-6 characters over letters, digits, space "
        "- _ . ~ + & ; [ ] e-acute and a CJK character (names reused across "
        "directories, decoy files where a wrong base would land), each "
        "reference spelled raw / './'-prefixed / with a redundant 'zz/../' "
        "/ percent-quoted / as file:/// URL / as absolute path; every layout "
        "is loaded from 4 working directories x 6 ways of naming the top "
        "resource, for schema and config; plus fragment variants (top URL, "
        "%include, src, extends).  (B) every string over the 11-symbol "
        "alphabet up to the length bound, through isPath, urlnormalize, "
        "urldefrag, normalizeURL and urljoin against 4 bases.  "
        "distinct_nontrivial counts distinct (load kind, entry point, cwd "
        "class, top-name features, reference styles, outcome) and (helper, "
        "input class, expectation kind) signatures."
        " Scenario 'decoys': include arguments that read like wildcards beside files they would match, and a missing target with namesakes in the working directory and above; a third of the include references are written through %define (whole reference, or leading segments followed by '..').")
LEVEL_TEXT = ("Every generated layout was loaded through all entry points "
              "and gave the tree the layout denotes, with every resource URL "
              "in file:/// form naming the intended file; the helper "
              "functions agree with the reference on the whole bounded "
              "string space.")
LEVEL_NOTE = ("POSIX file system, UTF-8 file names; names are drawn from the "
              "statement's alphabet only; the working directory is changed "
              "inside worker processes only.")
ASSUMPTIONS = [
    "reference zcverif/ref/refurl.py: isPath per RFC 3986 scheme syntax "
    "(>=2 characters = URL, one letter + ':' = drive letter = path); "
    "urljoin per RFC 3986 5.2 (strict and non-strict transform both "
    "acceptable when the reference repeats the base scheme; an empty "
    "fragment may keep or lose its '#'; scheme compared case-insensitively)",
    "form-only judgement (result, if 'file:/…', must begin 'file:///') for: "
    "'file://host…' inputs; urldefrag of a non-file URL with an empty "
    "authority; urljoin with empty path segments, with dot segments in a "
    "reference that has its own different scheme or its own authority, "
    "with an empty authority against a base that has one, or resulting in "
    "a file: URL with a host",
    "unjudged: urlnormalize / urldefrag URL part of 'file:' not followed by "
    "'/' (no 'file:///' spelling exists for a relative file: URL); "
    "references with an empty fragment ('x#') in part A",
    "the expected value tree of a layout is the textual-inclusion reading "
    "of %include and the documented meaning of extends / import src "
    "(extends merges keys and types, import src merges types)",
    "a reference whose raw spelling cannot survive the surrounding syntax "
    "(leading/trailing blank in an %include argument or XML attribute, any "
    "blank in extends=) is written percent-quoted instead",
]

BOUND = {"quick": 5, "thorough": 7}
LAYOUTS = {"quick": 30, "thorough": 500}        # per shard
FLOORS = {
    "quick": {"judged": 1500000, "judged_loads": 20000, "layouts": 480,
              "loader_reuse_loads": 500,
              "judged_fragment": 3000, "fragment_rejected": 3000,
              "fragment_reused_loader": 3000,
              "accepted": 20000, "judged_ispath": 190000,
              "judged_urljoin": 700000, "judged_urlnormalize": 170000,
              "judged_urldefrag": 190000, "judged_normalizeurl": 170000},
    "thorough": {"judged": 150000000, "judged_loads": 350000,
                 "loader_reuse_loads": 8000,
                 "layouts": 8000, "judged_fragment": 60000,
                 "fragment_rejected": 60000, "accepted": 350000,
                 "judged_ispath": 21000000, "judged_urljoin": 80000000,
                 "judged_urlnormalize": 20000000,
                 "judged_urldefrag": 21000000,
                 "judged_normalizeurl": 20000000},
}
HOOK_FLOORS = {"quick": {"createResource": 80000},
               "thorough": {"createResource": 1400000}}

ALPHABET = "aC:/\\#.file"
BASES = ["file:///d/e/f.c", "file:///d/", "file:///", "http://h/p/q"]

PLAIN = list("abxQZ07")
SPECIAL = [" ", "-", "_", ".", "~", "+", "&", ";", "[", "]", "é",
           "日"]
STYLES = ["raw", "rawdot", "rawup", "quoted", "quoteddot", "absurl",
          "abspath", "abspathq"]
ENTRIES = ["abs", "rel", "url", "url1", "fobj-abs", "fobj-rel",
           "fobj-bytes"]
CWD_KINDS = ["T", "top", "deep", "W", "O", "/"]


def shards(tier):
    return 16


# =========================================================================
# Part A: layouts
# =========================================================================
def gen_name(rng):
    for _ in range(50):
        n = rng.choice([1, 2, 2, 3, 3, 4, 5, 6])
        s = "".join(rng.choice(SPECIAL) if rng.random() < 0.5
                    else rng.choice(PLAIN) for _ in range(n))
        if s in (".", ".."):
            continue
        return s
    return "n"


def gen_model(rng):
    """A layout as plain data (JSON-serialisable, position independent)."""
    pool = [gen_name(rng) for _ in range(3)]

    def name():
        return rng.choice(pool) if rng.random() < 0.45 else gen_name(rng)

    used = {}                           # dir tuple -> set of names

    def fresh(d, want=None):
        taken = used.setdefault(tuple(d), set())
        for _ in range(30):
            n = want if want is not None else name()
            want = None
            if n not in taken:
                taken.add(n)
                return n
        n = "n%d" % len(taken)
        taken.add(n)
        return n

    tname = fresh(())
    oname = fresh(())
    dirs = [[tname]]
    for _ in range(rng.randint(1, 2)):
        d1 = [tname, fresh((tname,))]
        dirs.append(d1)
        for _ in range(rng.randint(0, 2)):
            dirs.append(d1 + [fresh(d1)])

    def files(n, kind):
        out = []
        for i in range(n):
            d = rng.randrange(len(dirs))
            f = {"dir": d, "name": fresh(dirs[d]),
                 "parent": None if i == 0 else rng.randrange(i),
                 "style": rng.choice(STYLES)}
            if kind == "sch":
                f["rel"] = rng.choice(["extends", "import"])
            out.append(f)
        return out

    cfg = files(rng.randint(2, 5), "cfg")
    sch = files(rng.randint(2, 5), "sch")
    model = {"tree": tname, "outside": oname, "dirs": dirs, "cfg": cfg,
             "sch": sch,
             "cwds": rng.sample(CWD_KINDS, 4),
             "relvar": rng.choice(["plain", "plain", "dot"]),
             "decoys": []}
    # decoys: where a reference would land if resolved against the top
    # resource's directory, the tree root, the outside directory or the world
    occupied = set()
    for d in dirs:
        for k in range(1, len(d) + 1):
            occupied.add(tuple(d[:k]))
    occupied.add((oname,))
    for kind in ("cfg", "sch"):
        for f in model[kind]:
            occupied.add(tuple(dirs[f["dir"]]) + (f["name"],))
    nd = 0
    for kind in ("cfg", "sch"):
        fl = model[kind]
        for i, f in enumerate(fl):
            if f["parent"] is None:
                continue
            pdir = dirs[fl[f["parent"]]["dir"]]
            target = dirs[f["dir"]] + [f["name"]]
            rel = _relseg(target, pdir)
            for base in (dirs[fl[0]["dir"]], [tname], [oname], []):
                if base == pdir or nd >= 8:
                    continue
                land = _joinseg(base, rel)
                if land is None or not land:
                    continue
                land = tuple(land)
                # every proper prefix must be a directory or free, the
                # landing place itself must be free
                ok = land not in occupied
                for k in range(1, len(land)):
                    pre = land[:k]
                    if pre in occupied and not _is_dir(pre, dirs, oname):
                        ok = False
                if not ok:
                    continue
                for k in range(1, len(land)):
                    occupied.add(land[:k])
                occupied.add(land)
                model["decoys"].append({"path": list(land), "kind": kind,
                                        "id": "decoy%d" % nd})
                nd += 1
    return model


def _is_dir(pre, dirs, oname):
    if pre == (oname,):
        return True
    for d in dirs:
        if tuple(d[:len(pre)]) == pre:
            return True
    return False


def _relseg(target, start):
    i = 0
    while i < len(target) and i < len(start) and target[i] == start[i]:
        i += 1
    return [".."] * (len(start) - i) + list(target[i:])


def _joinseg(base, rel):
    out = list(base)
    for s in rel:
        if s == "..":
            if not out:
                return None         # leaves the world directory
            out.pop()
        else:
            out.append(s)
    return out


class Layout:
    """A model materialised under a world directory."""

    def __init__(self, model, world):
        self.m = model
        self.W = world
        self.T = world + "/" + model["tree"]
        self.O = world + "/" + model["outside"]
        self.dirs = [world + "/" + "/".join(d) for d in model["dirs"]]
        self.cfg_paths = [self.dirs[f["dir"]] + "/" + f["name"]
                          for f in model["cfg"]]
        self.sch_paths = [self.dirs[f["dir"]] + "/" + f["name"]
                          for f in model["sch"]]
        self.edges = {"cfg": set(), "sch": set()}   # rendered references

    # -- reference spelling ------------------------------------------------
    def spell(self, style, target, fromdir, kind):
        """Spelling of a reference to *target* inside a file in *fromdir*;
        returns (text, effective style)."""
        from urllib.request import pathname2url
        segs = refurl.relsegments(target, fromdir)

        def raw_ok(text):
            if text != text.strip() or not text:
                return False
            return not (kind == "extends" and " " in text)

        if style in ("raw", "rawdot", "rawup"):
            text = "/".join(segs)
            if style == "rawdot":
                text = "./" + text
            elif style == "rawup":
                text = "zz/../" + text
            if raw_ok(text):
                return text, style
            style = {"raw": "quoted", "rawdot": "quoteddot",
                     "rawup": "quoted"}[style]
        if style == "abspath":
            if raw_ok(target):
                return target, style
            style = "abspathq"
        if style == "quoted":
            return "/".join(refurl.quote_segment(s) for s in segs), style
        if style == "quoteddot":
            return "./" + "/".join(refurl.quote_segment(s)
                                   for s in segs), style
        if style == "abspathq":
            return "/".join(refurl.quote_segment(s)
                            for s in target.split("/")), style
        if style == "absurl":
            return "file://" + pathname2url(target), style
        raise ValueError(style)

    # -- rendering ---------------------------------------------------------
    def children(self, kind, i):
        return [j for j, f in enumerate(self.m[kind]) if f["parent"] == i]

    def render_cfg(self, i, fragment=None):
        """Text of config file i.  *fragment* = (child index, text) appends
        '#text' to that reference."""
        lines = ["k c%da" % i]
        mydir = refurl.dirname(self.cfg_paths[i])
        for n, j in enumerate(self.children("cfg", i)):
            ref, eff = self.spell(self.m["cfg"][j]["style"],
                                  self.cfg_paths[j], mydir, "include")
            self.edges["cfg"].add("include|%s|%s" % (
                eff, _direction(self.cfg_paths[j], mydir)))
            if fragment and fragment[0] == j:
                ref += "#" + fragment[1]
            elif (i + 2 * n + len(ref)) % 3 == 0 and "$" not in ref:
                # the reference comes from a definition: as a whole, or -
                # when it is a relative one - behind two made-up segments
                # and as many '..'; what is resolved is the expanded text
                dn = "zcvr%d_%d" % (i, n)
                if eff in ("raw", "quoted") and (i + n) % 2:
                    lines.append("%%define %s zcv-p/zcv-q" % dn)
                    ref = "${%s}/../../%s" % (dn, ref)
                else:
                    lines.append("%%define %s %s" % (dn, ref))
                    ref = "$" + dn
                self.edges["cfg"].add("include-by-definition|%s" % eff)
            lines.append("%%include %s" % ref)
            lines.append("k c%d%s" % (i, "bcdef"[n % 5]))
        if i == 0:
            for j in range(len(self.m["sch"])):
                lines.append("<t%d/>" % j)
        return "\n".join(lines) + "\n"

    def render_sch(self, i, fragment=None):
        mydir = refurl.dirname(self.sch_paths[i])
        ext, imp = [], []
        for j in self.children("sch", i):
            f = self.m["sch"][j]
            ref, eff = self.spell(f["style"], self.sch_paths[j], mydir,
                                  f["rel"])
            self.edges["sch"].add("%s|%s|%s" % (
                f["rel"], eff, _direction(self.sch_paths[j], mydir)))
            if fragment and fragment[0] == j:
                ref += "#" + fragment[1]
            (ext if f["rel"] == "extends" else imp).append(ref)
        # (the top schema's key type runs a complete load of another
        # configuration, from another directory, for every key line: see
        # run_shard and zcverif_dt/fam.py)
        out = ["<schema%s%s>" % (" extends=%s" % quoteattr(" ".join(ext))
                                 if ext else "",
                                 " keytype='zcverif_dt.fam.kt_reenter'"
                                 if i == 0 else "")]
        for ref in imp:
            out.append("  <import src=%s/>" % quoteattr(ref))
        out.append("  <sectiontype name='t%d'><key name='x' default='s%d'/>"
                   "</sectiontype>" % (i, i))
        out.append("  <key name='b%d' default='s%d'/>" % (i, i))
        if i == 0:
            out.append("  <multikey name='k' attribute='k'/>")
            for j in range(len(self.m["sch"])):
                out.append("  <multisection type='t%d' name='*' "
                           "attribute='u%d'/>" % (j, j))
        out.append("</schema>")
        return "\n".join(out) + "\n"

    def build(self):
        os.makedirs(self.T)
        os.makedirs(self.O)
        for d in self.dirs:
            os.makedirs(d, exist_ok=True)
        for i, p in enumerate(self.cfg_paths):
            _write(p, self.render_cfg(i))
        for i, p in enumerate(self.sch_paths):
            _write(p, self.render_sch(i))
        for dc in self.m["decoys"]:
            p = self.W + "/" + "/".join(dc["path"])
            os.makedirs(refurl.dirname(p), exist_ok=True)
            if dc["kind"] == "cfg":
                _write(p, "k %s\n" % dc["id"])
            else:
                _write(p, "<schema><key name='dk' default='%s'/>"
                          "<sectiontype name='dt%s'/></schema>\n"
                       % (dc["id"], dc["id"]))

    # -- what the layout denotes --------------------------------------------
    def expected_k(self, i=0):
        out = ["c%da" % i]
        for n, j in enumerate(self.children("cfg", i)):
            out.extend(self.expected_k(j))
            out.append("c%d%s" % (i, "bcdef"[n % 5]))
        return out

    def extends_closure(self):
        out, todo = [], [0]
        while todo:
            i = todo.pop()
            out.append(i)
            for j in self.children("sch", i):
                if self.m["sch"][j]["rel"] == "extends":
                    todo.append(j)
        return sorted(out)

    def expected_tree(self):
        attrs = {"k": [["str", v] for v in self.expected_k()]}
        for i in self.extends_closure():
            attrs["b%d" % i] = ["str", "s%d" % i]
        for j in range(len(self.m["sch"])):
            attrs["u%d" % j] = [{"__type__": "t%d" % j, "__name__": None,
                                 "x": ["str", "s%d" % j]}]
        attrs["__type__"] = None
        attrs["__name__"] = None
        return attrs

    def expected_schema(self):
        """The part of the schema digest the layout pins."""
        types = {}
        for j in range(len(self.m["sch"])):
            types["t%d" % j] = [["x", "KeyInfo", "x", "s%d" % j]]
        top = []
        for i in self.extends_closure():
            top.append(["b%d" % i, "KeyInfo", "b%d" % i, "s%d" % i])
        return {"types": types, "topkeys": sorted(top)}

    def cwd(self, kind):
        if kind == "T":
            return self.T
        if kind == "top":
            return refurl.dirname(self.cfg_paths[0])
        if kind == "deep":
            return max(self.dirs, key=lambda d: (d.count("/"), d))
        if kind == "W":
            return self.W
        if kind == "O":
            return self.O
        return "/"


def _direction(target, fromdir):
    segs = refurl.relsegments(target, fromdir)
    ups = sum(1 for x in segs if x == "..")
    if len(segs) == 1:
        return "same"
    if ups == 0:
        return "down"
    if ups == len(segs) - 1:
        return "up"
    return "across"


def _write(path, text):
    with open(path, "w", encoding="utf-8") as f:
        f.write(text)


class Cwd:
    def __init__(self, d):
        self.d = d

    def __enter__(self):
        self.old = os.getcwd()
        os.chdir(self.d)

    def __exit__(self, *a):
        os.chdir(self.old)


class GoneCwd(Cwd):
    """A working directory that is removed once the process is in it (a
    daemon whose start directory a deployment replaced): everything named
    absolutely is reached exactly as before."""

    def __enter__(self):
        Cwd.__enter__(self)
        os.rmdir(self.d)


ABSOLUTE_ENTRIES = ["abs", "url", "url1", "fobj-abs", "fobj-bytes"]


class Monitor:
    """Wrapper on BaseLoader.createResource recording every resource URL."""

    def __init__(self, res):
        self.res = res
        self.events = []

    def __enter__(self):
        import ZConfig.loader
        self.cls = ZConfig.loader.BaseLoader
        self.orig = self.cls.__dict__["createResource"]
        mon = self
        orig = self.orig

        import zcverif_dt.fam as fam

        def createResource(self, file, url):
            # (resources of the loads that the key type nests inside the
            # load under observation are not that load's resources)
            if not fam._DEPTH[0]:
                mon.events.append(url)
                mon.res.hook("createResource")
            return orig(self, file, url)

        self.cls.createResource = createResource
        return self

    def __exit__(self, *a):
        self.cls.createResource = self.orig


def canon(v):
    """Canonical form of a value tree (walks getSectionAttributes())."""
    if hasattr(v, "getSectionAttributes"):
        d = {"__type__": v.getSectionType(), "__name__": v.getSectionName()}
        for a in v.getSectionAttributes():
            d[a] = canon(getattr(v, a))
        return d
    if isinstance(v, (list, tuple)):
        return [canon(x) for x in v]
    if isinstance(v, dict):
        return {"__dict__": sorted([canon(k), canon(x)]
                                   for k, x in v.items())}
    if v is None:
        return None
    return [type(v).__name__, v if isinstance(v, str) else repr(v)]


def schema_digest(schema):
    def default_of(info):
        try:
            d = info.getdefault()
        except Exception as e:  # noqa
            return "raised " + type(e).__name__
        if d is None:
            return None
        if isinstance(d, list):
            return [getattr(x, "value", repr(x)) for x in d]
        return getattr(d, "value", repr(d))

    def sect(t):
        rows = []
        for key, info in t:
            if info.issection():
                rows.append([key, type(info).__name__, info.attribute,
                             info.sectiontype.name, info.minOccurs,
                             repr(info.maxOccurs)])
            else:
                rows.append([key, type(info).__name__, info.attribute,
                             default_of(info), info.minOccurs,
                             repr(info.maxOccurs)])
        return rows

    types = {}
    for name, t in schema.itertypes():
        types[name] = "abstract" if t.isabstract() else sect(t)
    return {"top": sect(schema), "types": types}


def digest_matches(dig, exp):
    """The layout-pinned part of a schema digest."""
    for name, rows in exp["types"].items():
        got = dig["types"].get(name)
        if not isinstance(got, list):
            return False
        if [[r[0], r[1], r[2], r[3]] for r in got] != rows:
            return False
    if sorted(dig["types"]) != sorted(exp["types"]):
        return False
    topkeys = sorted([r[0], r[1], r[2], r[3]] for r in dig["top"]
                     if (r[0] or "").startswith("b"))
    if topkeys != exp["topkeys"]:
        return False
    return not any(r[0] == "dk" for r in dig["top"])


def name_features(name):
    f = ""
    if " " in name:
        f += "s"
    if name != name.strip():
        f += "S"
    if any(ord(c) > 127 for c in name):
        f += "u"
    if any(c in "+&;[]~" for c in name):
        f += "p"
    if name[:1] in ".-~":
        f += "l"
    return f or "-"


def top_spelling(lay, entry, path, cwd):
    """How the top resource is named for *entry* (None for file objects)."""
    from urllib.request import pathname2url
    rel = "/".join(refurl.relsegments(path, cwd))
    if lay.m["relvar"] == "dot":
        rel = "./" + rel
    if entry == "abs":
        return path
    if entry == "rel":
        return rel
    if entry == "url":
        return "file://" + pathname2url(path)
    if entry == "url1":
        return "file:" + pathname2url(path)
    if entry in ("fobj-abs", "fobj-bytes"):
        return path
    if entry == "fobj-rel":
        return rel
    raise ValueError(entry)


def do_load(ZConfig, what, entry, spelling, schema=None):
    """One load; ('ok', value) or ('reject', family, exception type, msg)."""
    f = None
    try:
        try:
            if entry.startswith("fobj"):
                # ("fobj-bytes": opened by a bytes path, the name is bytes)
                f = open(os.fsencode(spelling) if entry == "fobj-bytes"
                         else spelling, encoding="utf-8")
                if what == "schema":
                    v = ZConfig.loadSchemaFile(f)
                else:
                    v = ZConfig.loadConfigFile(schema, f)[0]
            elif what == "schema":
                v = ZConfig.loadSchema(spelling)
            else:
                v = ZConfig.loadConfig(schema, spelling)[0]
        finally:
            if f is not None:
                f.close()
    except ZConfig.ConfigurationError as e:
        return ("reject", "config", type(e).__name__, str(e)[:300])
    except Exception as e:  # noqa
        return ("reject", "internal", type(e).__name__, str(e)[:300])
    return ("ok", v)


def loader_load(ZConfig, loader, what, entry, spelling):
    """Like do_load, through a given (long-lived) loader object."""
    f = None
    try:
        try:
            if entry.startswith("fobj"):
                f = open(os.fsencode(spelling) if entry == "fobj-bytes"
                         else spelling, encoding="utf-8")
                v = loader.loadFile(f)
            else:
                v = loader.loadURL(spelling)
            if what != "schema":
                v = v[0]
        finally:
            if f is not None:
                f.close()
    except ZConfig.ConfigurationError as e:
        return ("reject", "config", type(e).__name__, str(e)[:300])
    except Exception as e:  # noqa
        return ("reject", "internal", type(e).__name__, str(e)[:300])
    return ("ok", v)


def check_urls(events, expected_paths, top_path=None):
    """Every recorded URL is file:/// and decodes to the intended file
    (compared as multisets: the statement fixes where references resolve,
    not the order in which resources are opened).  The top resource is "the
    same resource" whichever way it was named: its URL is one and the same
    string for all entry points (the percent-quoted file:/// form of the
    absolute path)."""
    bad = [u for u in events
           if not isinstance(u, str) or u[:8] != "file:///"]
    if bad:
        return "resource URL not in file:/// form: %r" % (bad[:3],)
    if top_path is not None and events:
        from urllib.request import pathname2url
        want = "file://" + pathname2url(top_path)
        if events[0] != want:
            return "top resource URL is %r, by the other entry points " \
                "it is %r" % (events[0], want)
    got = sorted(refurl.unquote(u[7:]) for u in events)
    if got != sorted(expected_paths):
        return "resource URLs name %r, the layout means %r" % (
            got, sorted(expected_paths))
    return None


def run_layout(ctx, ZConfig, model, tag):
    """All working directories x entry points for one layout."""
    res = ctx.res
    world = os.path.join(os.path.realpath(ctx.tmp), "w%s" % tag)
    lay = Layout(model, world)
    lay.build()
    res.count("layouts")
    if ctx.rng("symlink", tag).random() < 0.3:
        # the top resources are symbolic links to files kept elsewhere: a
        # resource is what its name says - references in it resolve beside
        # the link, whichever way it is named (path, URL or file object)
        real = os.path.join(world, "_kept elsewhere")
        os.makedirs(real, exist_ok=True)
        for n_, path in enumerate((lay.sch_paths[0], lay.cfg_paths[0])):
            if os.path.islink(path) or not os.path.isfile(path):
                continue
            target = os.path.join(real, "real%d" % n_)
            os.rename(path, target)
            os.symlink(target, path)
        res.count("layouts_with_symlinked_top")
    if ctx.rng("pad", tag).random() < 0.3:
        # big resources: comments in front push every file beyond 8 / 16 /
        # 64 KiB, with two-byte characters across the block boundaries
        prng = ctx.rng("padsize", tag)
        for path in lay.cfg_paths:
            if os.path.isfile(path):
                outcome.pad_file(path, prng.choice([8192, 16384, 70000]))
        for path in lay.sch_paths:
            if os.path.isfile(path):
                outcome.pad_file(path, prng.choice([8192, 16384, 70000]),
                                 xml=True)
        res.count("layouts_with_big_files")
    exp_tree = lay.expected_tree()
    exp_sch = lay.expected_schema()
    case = {"op": "layout", "model": model}
    with Monitor(res) as mon:
        for cwdkind in list(model["cwds"]) + ["gone"]:
            if cwdkind == "gone":
                import tempfile
                cwd = tempfile.mkdtemp(dir=os.path.realpath(ctx.tmp),
                                       prefix="gone")
                res.count("cwd_removed")
            else:
                cwd = lay.cwd(cwdkind)
            with (GoneCwd if cwdkind == "gone" else Cwd)(cwd):
                ref_schema = ref_digest = None
                for what, path, files in (
                        ("schema", lay.sch_paths[0], lay.sch_paths),
                        ("config", lay.cfg_paths[0], lay.cfg_paths)):
                    if what == "config" and ref_schema is None:
                        res.count("config_loads_skipped")
                        continue
                    feat = name_features(os.path.basename(path))
                    for entry in (ABSOLUTE_ENTRIES if cwdkind == "gone"
                                  else ENTRIES):
                        sp = top_spelling(lay, entry, path, cwd)
                        del mon.events[:]
                        res.evaluations += 1
                        out = do_load(ZConfig, what, entry, sp, ref_schema)
                        res.count("judged")
                        res.count("judged_loads")
                        res.count("loads_" + what)
                        res.count("entry_" + entry)
                        problem = None
                        observed = out
                        if out[0] != "ok":
                            problem = "load rejected: %s" % (out[1:],)
                            res.count("rejected")
                        else:
                            res.count("accepted")
                            if what == "schema":
                                dig = schema_digest(out[1])
                                observed = ["ok", dig,
                                            getattr(out[1], "url", None)]
                                if not digest_matches(dig, exp_sch):
                                    problem = ("schema differs from what "
                                               "the layout denotes")
                                elif not refurl.url_names_file(
                                        str(out[1].url), path):
                                    problem = ("schema.url %r does not name "
                                               "%r" % (out[1].url, path))
                                elif ref_schema is None:
                                    ref_schema = out[1]
                                    ref_digest = dig
                                elif dig != ref_digest:
                                    problem = ("schema digest differs "
                                               "between entry points")
                            else:
                                tree = canon(out[1])
                                observed = ["ok", tree]
                                if tree != exp_tree:
                                    problem = ("value tree differs from "
                                               "what the layout denotes")
                            if problem is None:
                                problem = check_urls(mon.events, files, path)
                        verdict = "ok" if problem is None else "bad"
                        res.sig("A|%s|%s|%s|%s|%s" % (
                            what, entry, cwdkind, feat, verdict))
                        for edge in lay.edges[
                                {"schema": "sch", "config": "cfg"}[what]]:
                            res.sig("R|%s|%s|%s|%s" % (
                                edge, entry,
                                "in" if cwdkind in ("T", "top", "deep")
                                else "out", verdict))
                        if problem is None:
                            if entry == ("fobj-rel" if what == "schema"
                                         else "rel"):
                                res.sample("load-%s-accepted" % what, {
                                    "entry": entry, "cwd": cwd,
                                    "named": sp,
                                    "resource_urls": list(mon.events)}, 1)
                        else:
                            res.violate(
                                "entry-point-%s" % what,
                                dict(case, witness={
                                    "what": what, "entry": entry,
                                    "cwd": cwdkind, "named": sp}),
                                expected=(exp_tree if what == "config"
                                          else exp_sch),
                                observed=_jsonable(observed),
                                detail="%s by %s from cwd %s: %s" % (
                                    what, entry, cwdkind, problem),
                                vsig="A|%s|%s|%s" % (
                                    what, entry, problem.split(":")[0][:40]))
        run_fragments(ctx, ZConfig, lay)
    import shutil
    shutil.rmtree(world, ignore_errors=True)


def _jsonable(x):
    import json
    try:
        json.dumps(x)
        return x
    except (TypeError, ValueError):
        return repr(x)[:2000]


FRAGS = ["frag", "a", "1", "top", "x.y", "/"]


def fragment_variants(model, rng):
    """Fully determined variants: which reference gets which fragment and
    how the top resource is named."""
    out = []
    for what in ("schema", "config"):
        for form in ("file://", "file:"):
            out.append({"where": "top-url", "what": what, "form": form,
                        "entry": "url"})
    for kind, what in (("cfg", "config"), ("sch", "schema")):
        for j, f in enumerate(model[kind]):
            if f["parent"] is not None:
                out.append({"where": (f.get("rel") or "include"),
                            "what": what, "kind": kind, "child": j,
                            "entry": rng.choice(ENTRIES)})
    full = []
    for v in out:
        full.append(dict(v, frag=rng.choice(FRAGS)))
        full.append(dict(v, frag=""))
    return full


def run_fragments(ctx, ZConfig, lay, only=None):
    """References carrying a fragment identifier must be rejected."""
    from urllib.request import pathname2url
    res = ctx.res
    model = lay.m
    cwd = lay.cwd("O")
    with Cwd(cwd):
        schema_out = do_load(ZConfig, "schema", "abs", lay.sch_paths[0])
    if schema_out[0] != "ok":
        res.count("fragment_skipped_no_schema")
        return
    schema = schema_out[1]
    if only is not None:
        todo = [only]
    else:
        todo = fragment_variants(model, ctx.rng(
            "frag", model["tree"], len(model["cfg"]), len(model["sch"])))
    # loader objects that serve every variant of this layout: a refused
    # reference must be refused every time it is asked for, and must leave
    # nothing behind that changes a later load of the clean resource
    ll = {"schema": ZConfig.loader.SchemaLoader(),
          "config": ZConfig.loader.ConfigLoader(schema)}
    for v in todo:
        what, frag, entry = v["what"], v["frag"], v["entry"]
        path = lay.sch_paths[0] if what == "schema" else lay.cfg_paths[0]
        restore = None
        again = []
        # a SchemaLoader keeps the schemas it has loaded (by URL, on
        # purpose) while this check rewrites the files between variants:
        # it gets a loader per variant, the ConfigLoader lives on
        ll["schema"] = ZConfig.loader.SchemaLoader()
        try:
            if v["where"] == "top-url":
                sp = v["form"] + pathname2url(path) + "#" + frag
                clean_sp = v["form"] + pathname2url(path)
            else:
                kind, j = v["kind"], v["child"]
                p = model[kind][j]["parent"]
                ppath = (lay.cfg_paths if kind == "cfg"
                         else lay.sch_paths)[p]
                render = lay.render_cfg if kind == "cfg" else \
                    lay.render_sch
                restore = (ppath, render(p))
                _write(ppath, render(p, (j, frag)))
                sp = clean_sp = top_spelling(lay, entry, path, cwd)
            res.evaluations += 1
            with Cwd(cwd):
                out = do_load(ZConfig, what, entry, sp, schema)
                if frag != "":
                    again = [loader_load(ZConfig, ll[what], what, entry, sp)
                             for _ in (1, 2)]
        finally:
            if restore:
                _write(*restore)
        case = {"op": "fragment", "model": model, "variant": v}
        if again:
            res.count("fragment_reused_loader")
            with Cwd(cwd):
                fresh = do_load(ZConfig, what, entry, clean_sp, schema)
                after = loader_load(ZConfig, ll[what], what, entry,
                                    clean_sp)
            problem = None
            for n_, o_ in enumerate(again):
                if not (o_[0] == "reject" and o_[1] == "config"):
                    problem = ("request %d for the reference with '#%s' on "
                               "one loader object was %s" % (
                                   n_ + 1, frag, "accepted" if o_[0] == "ok"
                                   else "answered with %s" % o_[2]))
                    break
            if problem is None and fresh[0] != after[0]:
                problem = ("after the refused reference the same loader "
                           "object answers the clean resource with %s, a "
                           "fresh loader with %s" % (
                               after[0] if after[0] == "ok" else after[2:],
                               fresh[0] if fresh[0] == "ok" else fresh[2:]))
            if problem:
                res.violate("fragment-and-loader-reuse", case,
                            expected="refused each time; later loads as "
                            "with a fresh loader", observed=problem,
                            detail=problem,
                            vsig="F-reuse|%s|%s" % (v["where"], what))
        if frag == "":
            # 'x#': no fragment identifier to speak of; not pinned
            res.count("unjudged")
            res.count("unjudged_empty_fragment")
            res.sig("F|%s|%s|empty|%s" % (v["where"], what, out[0]))
            res.sample("fragment-empty-unjudged",
                       {"variant": v, "named": sp, "outcome": out[0]}, 1)
            if out[0] == "reject" and out[1] == "internal":
                res.violate("fragment-internal-error", case,
                            "ConfigurationError or a load", list(out),
                            vsig="F-int|%s" % v["where"])
            continue
        res.count("judged")
        res.count("judged_fragment")
        res.count("fragment_" + v["where"])
        res.sig("F|%s|%s|%s|%s" % (v["where"], what, entry, out[0]))
        if out[0] == "reject" and out[1] == "config":
            res.count("fragment_rejected")
            res.sample("fragment-%s" % v["where"],
                       {"variant": v, "named": sp,
                        "error": list(out[2:])}, 1)
        else:
            res.violate(
                "fragment-not-rejected", case,
                expected="ConfigurationError (SchemaError for schema "
                         "references)",
                observed=_jsonable(["ok"] if out[0] == "ok"
                                   else list(out)),
                detail="%s reference with '#%s' (%s) was %s" % (
                    v["where"], frag, what,
                    "accepted" if out[0] == "ok" else
                    "answered with %s" % out[2]),
                vsig="F|%s|%s|%s" % (v["where"], what, out[0]))


# =========================================================================
# Part B: helper functions
# =========================================================================
def enum_strings(ctx, bound):
    if ctx.shard == 0:
        for n in range(0, min(3, bound + 1)):
            for t in itertools.product(ALPHABET, repeat=n):
                yield "".join(t)
    prefixes = list(itertools.product(ALPHABET, repeat=3))
    for pi, pre in enumerate(prefixes):
        if not ctx.mine(pi):
            continue
        pre = "".join(pre)
        for n in range(0, bound - 3 + 1):
            for t in itertools.product(ALPHABET, repeat=n):
                yield pre + "".join(t)


FILE_TAIL = {"quick": 4, "thorough": 5}


def enum_file_strings(ctx, tier):
    """'file:' + every string up to FILE_TAIL[tier]: the quick bound of 5
    cannot even spell 'file:/'.  Mixed-case spellings of the scheme are
    outside the property's alphabet; a few short ones are added because
    file URLs are normalised whatever the case of the scheme."""
    i = 0
    # (the scheme in other letter cases: a few short tails only)
    for prefix, bound in (("file:", FILE_TAIL[tier]), ("FILE:", 3),
                          ("File:", 3), ("fiLe:", 2)):
        for n in range(0, bound + 1):
            for t in itertools.product(ALPHABET, repeat=n):
                if ctx.mine(i):
                    yield prefix + "".join(t)
                i += 1


SCHEME_CHARS = "aCfile."


def enum_long_schemes(ctx):
    """Quick tier only (the thorough enumeration contains them all): strings
    of length 6 and 7 whose first ':' sits at index 5 or 6 behind scheme
    characters, so that the colon search and the scheme scan are exercised
    beyond 'file:'."""
    i = 0
    for n, tails, stride in ((5, ("", "/", "#"), 1), (6, ("",), 4)):
        for t in itertools.product(SCHEME_CHARS, repeat=n):
            i += 1
            if i % stride or not ctx.mine(i // stride):
                continue
            for tail in tails:
                yield "".join(t) + ":" + tail


def input_class(s):
    k = refurl.scheme_len(s)
    if k == 0:
        c = "noscheme"
        rest = s
    else:
        c = "drive" if k == 1 else ("file" if s[:k].lower() == "file"
                                    else "scheme")
        rest = s[k + 1:]
    i = rest.find("#")
    head = rest if i < 0 else rest[:i]
    n = 0
    while n < len(head) and head[n] == "/" and n < 3:
        n += 1
    return "%s/%d%s%s%s%s" % (
        c, n, "#" if i >= 0 else "",
        "F" if i >= 0 and rest[i + 1:] else "",
        "." if refurl.has_dot_segment(head) else "",
        "e" if "//" in head[n:] else "")


class Helpers:
    """The functions under test plus cheap local bookkeeping (counters are
    flushed into the Result once per shard)."""

    def __init__(self, ZConfig):
        import ZConfig.loader
        import ZConfig.url
        self.ZConfig = ZConfig
        self.loader = ZConfig.loader.SchemaLoader()
        self.url = ZConfig.url
        self.cwd = os.getcwd()
        self.n = {}
        self.seen = set()
        self.evaluations = 0

    def flush(self, res):
        res.evaluations += self.evaluations
        for k, v in self.n.items():
            res.count(k, v)
        self.n = {}
        self.evaluations = 0

    def note(self, res, fn, cls, ekind, ok, s, base, expected, observed):
        n = self.n
        self.evaluations += 1
        if ok is None:
            n["unjudged"] = n.get("unjudged", 0) + 1
            k = "unjudged_" + fn
            n[k] = n.get(k, 0) + 1
        else:
            n["judged"] = n.get("judged", 0) + 1
            k = "judged_" + fn
            n[k] = n.get(k, 0) + 1
            if ekind == "form":
                n["judged_form_only"] = n.get("judged_form_only", 0) + 1
        key = (fn, cls, ekind, ok)
        if ok is not False and key in self.seen:
            return
        self.seen.add(key)
        if ok is None:
            res.sig("B|%s|%s|unjudged" % (fn, cls))
            res.sample("helper-unjudged",
                       {"fn": fn, "s": s,
                        "observed": _jsonable(observed)}, 1)
            return
        res.sig("B|%s|%s|%s" % (fn, cls, ekind))
        if ok:
            if len(s) >= 4 and ("#" in s or ":" in s):
                res.sample("helper-%s" % fn,
                           {"s": s, "base": base, "judged": ekind,
                            "observed": _jsonable(observed)}, 1)
            return
        case = {"op": "helper", "fn": fn, "s": s}
        if base is not None:
            case["base"] = base
        res.violate("helper-" + fn, case, _jsonable(expected),
                    _jsonable(observed),
                    detail="%s(%s%r)" % (fn, "%r, " % base if base else "",
                                         s),
                    vsig="B|%s|%s" % (fn, cls))


def _call(fn, *a):
    try:
        return ("ok", fn(*a))
    except Exception as e:  # noqa
        return ("raise", type(e).__name__, str(e)[:200])


def check_helper(ctx, H, s, fns=None):
    res = ctx.res
    cls = input_class(s)
    note = H.note
    if fns is None or "ispath" in fns:
        exp = refurl.is_path(s)
        obs = _call(H.loader.isPath, s)
        ok = obs[0] == "ok" and bool(obs[1]) is exp
        note(res, "ispath", cls, "exact", ok, s, None, exp, obs)
        k = "ispath_true" if exp else "ispath_false"
        H.n[k] = H.n.get(k, 0) + 1
    if fns is None or "urlnormalize" in fns:
        e = refurl.exp_urlnormalize(s)
        obs = _call(H.url.urlnormalize, s)
        ok = None if e[0] == "unjudged" else (
            obs[0] == "ok" and refurl.conforms(e, obs[1]))
        note(res, "urlnormalize", cls, e[0], ok, s, None, e, obs)
    if fns is None or "urldefrag" in fns:
        e, frag = refurl.exp_urldefrag(s)
        obs = _call(H.url.urldefrag, s)
        ok = (obs[0] == "ok" and isinstance(obs[1], tuple)
              and len(obs[1]) == 2 and obs[1][1] == frag)
        if ok and e[0] != "unjudged":
            ok = refurl.conforms(e, obs[1][0])
        # the fragment part is always judged
        note(res, "urldefrag", cls,
             e[0] if e[0] != "unjudged" else "fragment-only", ok, s, None,
             [e, frag], obs)
    if fns is None or "normalizeurl" in fns:
        e = refurl.exp_normalize_url(s, H.cwd)
        obs = _call(H.loader.normalizeURL, s)
        if e[0] == "path":
            ok = obs[0] == "ok" and isinstance(obs[1], str) and \
                refurl.url_names_file(obs[1], e[1])
            ek = "path"
        elif e[0] == "reject":
            ok = obs[0] == "raise" and obs[1] in (
                "ConfigurationError", "SchemaError")
            ek = "reject"
        else:
            ek = e[1][0]
            ok = None if ek == "unjudged" else (
                obs[0] == "ok" and refurl.conforms(e[1], obs[1]))
        note(res, "normalizeurl", cls, ek, ok, s, None, e, obs)
    if fns is None or "urljoin" in fns:
        for base in BASES:
            e = refurl.exp_urljoin(base, s)
            obs = _call(H.url.urljoin, base, s)
            ok = obs[0] == "ok" and refurl.conforms(e, obs[1])
            note(res, "urljoin", cls + "|" + base, e[0], ok, s, base, e,
                 obs)


# =========================================================================
def run_loader_reuse(ctx, ZConfig, rng, n):
    """One long-lived SchemaLoader / ConfigLoader, the same relative name
    loaded from different current directories (and by path, URL): every
    load must reach the file the name means *now*."""
    import urllib.request
    res = ctx.res
    root = os.path.join(os.path.realpath(ctx.tmp), "reuse%d" % n)
    name_s = rng.choice(["same.xml", "s p.xml", "sché.xml", "a+b.xml"])
    name_c = rng.choice(["same.conf", "c d.conf", "cö.conf"])
    dirs = []
    for i in range(rng.randint(2, 3)):
        d = os.path.join(root, rng.choice(["d", "dir x", "é"]) + str(i))
        os.makedirs(d)
        _write(os.path.join(d, name_s),
               "<schema><key name='k%d' default='v%d'/>"
               "<key name='shared'/></schema>" % (i, i))
        _write(os.path.join(d, name_c), "shared from-%d\n" % i)
        dirs.append(d)
    sloader = ZConfig.loader.SchemaLoader()
    order = [rng.randrange(len(dirs)) for _ in range(rng.randint(3, 6))]
    for step, i in enumerate(order):
        d = dirs[i]
        how = rng.choice(["rel", "rel", "dotrel", "abs", "url"])
        with Cwd(d):
            sp = {"rel": name_s, "dotrel": "./" + name_s,
                  "abs": os.path.join(d, name_s),
                  "url": "file://" + urllib.request.pathname2url(
                      os.path.join(d, name_s))}[how]
            res.evaluations += 1
            res.count("judged")
            res.count("loader_reuse_loads")
            case = {"op": "loader-reuse", "seed_n": n}
            try:
                schema = sloader.loadURL(sp)
                keys = sorted(k for k, _ in schema if k)
                cfg_loader = ZConfig.loader.ConfigLoader(schema)
                cfg, _ = cfg_loader.loadURL(name_c)
                got = (keys, cfg.shared)
            except Exception as e:  # noqa
                got = ("raised", "%s: %s" % (type(e).__name__, e))
            want = (sorted(["k%d" % i, "shared"]), "from-%d" % i)
            res.sig("L|%s|%s" % (how, "ok" if got == want else "bad"))
            if got != want:
                res.violate("loader-reuse", dict(case, witness={
                    "step": step, "cwd": d, "named": sp, "order": order}),
                    expected=list(want), observed=_jsonable(list(got)),
                    detail="one SchemaLoader reused; step %d loads %r from "
                    "cwd %s" % (step, sp, d), vsig="L|%s" % how)
    import shutil
    shutil.rmtree(root, ignore_errors=True)


DECOY_SCHEMA = ("<schema><sectiontype name='s'>"
                "<multikey name='k' attribute='k'/></sectiontype>"
                "<multikey name='k' attribute='k'/>"
                "<multisection type='s' name='*' attribute='ss'/></schema>")
# (include argument, literal file name, files that a wildcard / fallback
# reading of the argument would pick up instead)
GLOBLIKE = [("x[1].conf", ["x1.conf"]), ("[ab].conf", ["a.conf", "b.conf"]),
            ("s*.conf", ["sx.conf", "s.conf"]), ("q[!z].conf", ["qa.conf"]),
            ("{a,b}.conf", ["a.conf", "b.conf"]), ("~.conf", []),
            ("$$HOME.conf", []), ("a[.conf", []), ("d[0-9]/f.conf",
                                                   ["d1/f.conf"])]


def run_decoys(ctx, ZConfig, n):
    """References name one resource: the file of exactly that name beside
    the resource that holds the reference - not files a wildcard reading
    of the name would match, and not a file of the same relative name in
    the working directory (or anywhere else) when the named one is
    missing."""
    from urllib.request import pathname2url
    res = ctx.res
    rng = ctx.rng("decoys", n)
    world = os.path.join(os.path.realpath(ctx.tmp), "wd %d" % n)
    top = os.path.join(world, rng.choice(["top dir", "t", "T é"]))
    sub = os.path.join(top, rng.choice(["sub dir", "s"]))
    other = os.path.join(world, "other")
    for d in (sub, other):
        os.makedirs(d, exist_ok=True)
    schema = ZConfig.loadSchemaFile(io.StringIO(DECOY_SCHEMA))
    kind = ["glob", "missing", "present"][n % 3]
    if kind == "glob":
        arg, decoys = GLOBLIKE[n // 3 % len(GLOBLIKE)]
        lit = arg.replace("$$", "$")
        os.makedirs(os.path.dirname(os.path.join(sub, lit)), exist_ok=True)
        _write(os.path.join(sub, lit), "k literal\n")
        for dn in decoys:
            for base in (sub, top, other):
                os.makedirs(os.path.dirname(os.path.join(base, dn)),
                            exist_ok=True)
                _write(os.path.join(base, dn), "k decoy\n")
        _write(os.path.join(sub, "mid.conf"),
               "k mid\n%%include %s\n" % arg)
        want = ("ok", ["top", "mid", "literal"])
    else:
        leaf = rng.choice(["leaf.conf", "l f.conf", "x/leaf.conf"])
        for base in (top, other, world):
            os.makedirs(os.path.dirname(os.path.join(base, leaf)),
                        exist_ok=True)
            _write(os.path.join(base, leaf), "k decoy\n")
        if kind == "present":
            os.makedirs(os.path.dirname(os.path.join(sub, leaf)),
                        exist_ok=True)
            _write(os.path.join(sub, leaf), "k leaf\n")
            want = ("ok", ["top", "mid", "leaf"])
        else:
            want = ("reject",)
        _write(os.path.join(sub, "mid.conf"),
               "k mid\n%%include %s\n" % leaf)
    main = os.path.join(top, "top.conf")
    _write(main, "k top\n%%include %s/mid.conf\n" % os.path.basename(sub))
    case = {"op": "decoys", "n": n}
    for cwd in (top, other, world, sub):
        rel = os.path.relpath(main, cwd)
        for entry, spelling in (("abs", main), ("rel", rel),
                                ("url", "file://" + pathname2url(main)),
                                ("fobj-abs", main), ("fobj-rel", rel)):
            with Cwd(cwd):
                o = do_load(ZConfig, "config", entry, spelling, schema)
            res.evaluations += 1
            res.count("decoy_loads")
            got = ("ok", list(o[1].k)) if o[0] == "ok" else \
                ("reject",) if o[1] == "config" else tuple(o)
            res.sig("decoys|%s|%s|%s" % (kind, entry, got[0]))
            if got != want:
                res.violate(
                    "reference-read-as-something-else", case,
                    list(want), list(got),
                    detail="%s: entry=%s cwd=%s mid.conf=%r"
                    % (kind, entry, os.path.relpath(cwd, world),
                       open(os.path.join(sub, "mid.conf")).read()),
                    vsig="decoys|%s|%s|%s" % (kind, entry, got[0]))
    shutil.rmtree(world, ignore_errors=True)


def install_inner_load(ctx, ZConfig):
    """What the top schema's key type does on every key line: load a
    little configuration with an %include of its own from a directory of
    its own."""
    import io
    import zcverif_dt.fam as fam
    d = os.path.join(os.path.realpath(ctx.tmp), "inner dir")
    os.makedirs(os.path.join(d, "sub"), exist_ok=True)
    _write(os.path.join(d, "top.conf"),
           "k one\n%include sub/inc.conf\nk three\n")
    _write(os.path.join(d, "sub", "inc.conf"), "k two\n%include inc2.conf\n")
    _write(os.path.join(d, "sub", "inc2.conf"), "k two-b\n")
    schema = ZConfig.loadSchemaFile(io.StringIO(
        "<schema><multikey name='k' attribute='k'/></schema>"))

    def inner():
        cfg, _ = ZConfig.loadConfig(schema, os.path.join(d, "top.conf"))
        INNER[0] += 1
        if list(cfg.k) != ["one", "two", "two-b", "three"]:
            raise RuntimeError("inner load gave %r" % (list(cfg.k),))
    fam.ALSO[0] = inner


INNER = [0]


def run_shard(ctx):
    import ZConfig
    res = ctx.res
    cwd0 = os.getcwd()
    install_inner_load(ctx, ZConfig)
    try:
        rng = ctx.rng("layouts")
        for n in range(LAYOUTS[ctx.tier]):
            model = gen_model(rng)
            run_layout(ctx, ZConfig, model, n)
            if n % 3 == 0:
                run_loader_reuse(ctx, ZConfig, rng, n)
        for n in range(ctx.shard, 54 if ctx.quick else 540, ctx.nshards):
            run_decoys(ctx, ZConfig, n)
        H = Helpers(ZConfig)
        bound = BOUND[ctx.tier]
        # base URLs that are built, used once and dropped, over and over:
        # a later base string sits where an earlier one sat
        import gc
        for i in range(3000):
            base = "file:///dir%d/sub%d/x.conf" % (i % 7, i % 3)
            rel = ("common.conf", "../base.xml", "inc/f.conf")[i % 3]
            e = refurl.exp_urljoin(base, rel)
            obs = _call(H.url.urljoin, base, rel)
            res.evaluations += 1
            res.count("urljoin_on_short_lived_bases")
            if not (obs[0] == "ok" and refurl.conforms(e, obs[1])):
                res.violate("helper-urljoin",
                            {"op": "helper", "s": rel, "base": base},
                            list(e), _jsonable(list(obs)),
                            detail="urljoin(%r, %r) after %d other bases "
                            "came and went" % (base, rel, i),
                            vsig="urljoin-churn")
                break
            del base
            if i % 50 == 0:
                gc.collect()
        for s in enum_strings(ctx, bound):
            check_helper(ctx, H, s)
        for s in enum_file_strings(ctx, ctx.tier):
            if s[:5] != "file:":
                # mixed-case scheme (outside the statement's alphabet):
                # only the functions whose job is the normalisation; what
                # urljoin returns for it is normalised by every caller
                check_helper(ctx, H, s, fns=("ispath", "normalizeurl",
                                             "urlnormalize", "urldefrag"))
            else:
                check_helper(ctx, H, s)
            H.n["file_prefixed_strings"] = \
                H.n.get("file_prefixed_strings", 0) + 1
        if ctx.quick:
            for s in enum_long_schemes(ctx):
                check_helper(ctx, H, s, fns=("ispath", "normalizeurl",
                                             "urlnormalize", "urldefrag"))
                H.n["long_scheme_strings"] = \
                    H.n.get("long_scheme_strings", 0) + 1
        H.flush(res)
    finally:
        os.chdir(cwd0)
        import zcverif_dt.fam as fam
        fam.ALSO[0] = None
        res.hook("loads_nested_in_a_key_type", INNER[0])
    res.info["bounds"] = {
        "helper_alphabet": ALPHABET, "helper_max_len": bound,
        "file_prefixed_tail_max_len": FILE_TAIL[ctx.tier],
        "urljoin_bases": BASES,
        "layouts_per_shard": LAYOUTS[ctx.tier],
        "name_alphabet": "".join(PLAIN + SPECIAL),
        "entries": ENTRIES, "reference_styles": STYLES}


def finalize(m, tier):
    return {"exhaustive": True,
            "exhaustive_scope": "part B: all %d-symbol strings up to length "
            "%d through isPath, urlnormalize, urldefrag, normalizeURL and "
            "urljoin x %d bases; part A (layouts) is a seeded sample"
            % (len(ALPHABET), BOUND[tier], len(BASES))}


def replay(ctx, case):
    if case.get("op") == "decoys":
        import ZConfig
        return run_decoys(ctx, ZConfig, case["n"])
    import ZConfig
    cwd0 = os.getcwd()
    try:
        if case["op"] == "helper":
            H = Helpers(ZConfig)
            check_helper(ctx, H, case["s"], fns=[case["fn"]])
            H.flush(ctx.res)
        elif case["op"] == "layout":
            run_layout(ctx, ZConfig, case["model"], "replay")
        elif case["op"] == "loader-reuse":
            import random
            for n in range(12):
                run_loader_reuse(ctx, ZConfig,
                                 random.Random(case.get("seed_n", 0) + n),
                                 n)
        elif case["op"] == "fragment":
            world = os.path.join(os.path.realpath(ctx.tmp), "wfrag")
            lay = Layout(case["model"], world)
            lay.build()
            with Monitor(ctx.res):
                run_fragments(ctx, ZConfig, lay, only=case["variant"])
    finally:
        os.chdir(cwd0)
