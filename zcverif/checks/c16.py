"""C16 — the composite handler delivers every handled value exactly once,
all or nothing.

Trace monitor: recording callables receive (name, value); the call sequence
is compared with the reference order model (ref.refmatch handler entries);
values must be identical (is) to values held by the tree.
"""

from . import conf_common as cc
from ..gen import family
from ..mon import outcome

ID = "C16"
LEVEL = "exploration"
TECHNIQUE = ("runtime monitoring: trace of recording handler callables "
             "(exactly-once, order, identity with tree values, "
             "all-or-nothing) checked against a reference order model")
RULE = ("schemas of the C01 family with handler attributes on a random "
        "subset (density 0.2..0.8) of schema, keys, multikeys, sections, "
        "multisections at all depths; accepted texts; for each, handler "
        "maps: complete (names in mixed case), with None entries, with "
        "unused extra names, with one needed name missing, with "
        "case-variant duplicates.  Non-trivial = at least one handler "
        "entry expected; distinct_nontrivial = distinct (number of "
        "entries, distinct names, nesting of the contributing sections, map "
        "kind) signatures."
        " Also: incomplete maps padded with stale names, maps with names differing in '_' / '-' / '.', a schema loaded with a registry whose basic-key differs, and the previous load's handler called after the kept loader's next load.")
LEVEL_TEXT = ("For every accepted pair the real composite handler is called "
              "with recording callables under five kinds of maps; the "
              "recorded trace must equal the reference order, each value "
              "must be the object held by the tree, and an error must come "
              "before any call.")
ASSUMPTIONS = [
    "reference order: post-order over sections in the order they close; "
    "own items in schema order; schema-level handler last; an unfilled "
    "optional slot with a handler contributes an entry holding the tree's "
    "value (None / [])",
]
FLOORS = {"quick": {"handler_calls_checked": 30000, "error_maps": 6000,
                    "with_overrides": 300, "reused_loader_loads": 10000,
                    "duplicate_maps_on_empty_handler": 500},
          "thorough": {"handler_calls_checked": 2000000,
                       "error_maps": 1500000,
                       "reused_loader_loads": 800000,
                       "duplicate_maps_on_empty_handler": 20000}}
N_MODELS = {"quick": 2400, "thorough": 60000}
TEXTS = {"quick": 8, "thorough": 24}


def shards(tier):
    return 16


def tree_value_ids(config):
    ids = {}

    def rec(v):
        if outcome.is_wrapped(v):
            ids[id(v)] = v
            rec(v.section)
        elif hasattr(v, "getSectionAttributes"):
            ids[id(v)] = v
            for a in v.getSectionAttributes():
                x = getattr(v, a)
                ids[id(x)] = x
                rec(x)
        elif isinstance(v, list):
            for x in v:
                rec(x)
    rec(config)
    return ids


class FalsyRecorder:
    """A recording callable that is false in a boolean context (like a
    collector object whose __len__ is still 0)."""

    def __init__(self, calls, key):
        self.calls, self.key = calls, key

    def __call__(self, v):
        self.calls.append((self.key, v))

    def __len__(self):
        return 0


def variant_name(rng, n):
    r = rng.random()
    return n.upper() if r < 0.3 else n.capitalize() if r < 0.5 else n


MAP_KINDS = ["dict", "dict", "proxy", "userdict", "chain"]
MAPS = [0]


def judge(ctx, p, rng):
    import ZConfig
    res = ctx.res
    res.evaluations += 1
    exp, obs = p.exp, p.obs
    if exp[0] != "accept" or obs[0] != "ok":
        res.count("not_accepted")
        return
    entries = exp[2]
    config, handler, _ = obs[3]
    case = p.case()
    if res.evaluations % 7 == 3:
        # the application keeps the handler object only (and pieces of the
        # configuration at most): the entries are the handler's own
        import weakref
        wr = weakref.ref(config)
        keep = [config]
        p.obs = obs[:3] + ((None, handler, None),)
        del config, obs, _
        keep.pop()
        import gc
        gc.collect()
        res.count("handler_used_after_configuration_was_dropped")
        if wr() is None:
            res.hook("configuration_really_collected")
        else:
            res.sample("still-alive", {"referrers": [
                type(x).__name__ + ":" + repr(x)[:80]
                for x in gc.get_referrers(wr())][:6]}, 2)
        try:
            n = len(handler)
        except Exception as e:  # noqa
            n = "raised %s" % type(e).__name__
        calls = []
        names_ = []
        for h, _v in entries:
            if h not in names_:
                names_.append(h)
        try:
            handler(dict((n_, (lambda v, key=n_: calls.append((key, v))))
                         for n_ in names_))
            got = [(k, outcome.canon_value(v)) for k, v in calls]
        except Exception as e:  # noqa
            got = "raised %s: %s" % (type(e).__name__, e)
        want = [(h, v) for h, v in entries]
        if n != len(entries) or got != want:
            res.violate("handler-depends-on-configuration-being-alive",
                        case, [len(entries), [list(x) for x in want][:6]],
                        [n, got if isinstance(got, str)
                         else [list(x) for x in got][:6]],
                        detail="configuration object dropped before the "
                        "handler was used; text=%r" % p.text,
                        vsig="dropped|%s" % (n == len(entries)))
        return
    res.count("accepted")
    names = []
    for h, _v in entries:
        if h not in names:
            names.append(h)
    if entries:
        res.count("with_entries")
    # length
    try:
        n = len(handler)
    except Exception as e:  # noqa
        n = "raised %s" % type(e).__name__
    if n != len(entries):
        res.violate("len-differs", case, len(entries), n,
                    detail="text=%r" % p.text)
        return
    ids = tree_value_ids(config)

    def run(kind, mapping_spec):
        """mapping_spec: list of (supplied name, 'rec'|'none')"""
        calls = []
        mapping = {}
        for supplied, what in mapping_spec:
            if what == "none":
                mapping[supplied] = None
            else:
                key = family.basic_key(supplied)
                if len(mapping) % 2:
                    # a callable need not be "true": only None means skip
                    mapping[supplied] = FalsyRecorder(calls, key)
                else:
                    mapping[supplied] = (lambda v, key=key:
                                         calls.append((key, v)))
        # the map is a name-to-callable mapping: not necessarily a dict
        MAPS[0] += 1
        mk = MAP_KINDS[MAPS[0] % len(MAP_KINDS)]
        if mk == "proxy":
            import types
            mapping = types.MappingProxyType(mapping)
        elif mk == "userdict":
            import collections
            mapping = collections.UserDict(mapping)
        elif mk == "chain":
            import collections
            mapping = collections.ChainMap({}, mapping)
        if mk != "dict":
            res.count("map_" + mk)
        try:
            handler(mapping)
        except ZConfig.ConfigurationError as e:
            return calls, ("config-error", str(e)[:80])
        except Exception as e:  # noqa
            return calls, ("internal", type(e).__name__, str(e)[:80])
        return calls, ("ok",)

    def expect_calls(skip=()):
        return [(h, v) for h, v in entries if h not in skip]

    def check_calls(kind, calls, want):
        got = [(k, outcome.canon_value(v)) for k, v in calls]
        wantl = [(h, v) for h, v in want]
        if got != wantl:
            res.violate("call-trace-differs", dict(case, map=kind),
                        [list(x) for x in wantl], [list(x) for x in got],
                        detail="map=%s text=%r" % (kind, p.text),
                        vsig="trace|%s|%d|%d" % (kind, len(wantl), len(got)))
            return False
        for k, v in calls:
            if v is None or isinstance(v, (str, int, float, bool, tuple)):
                continue
            if id(v) not in ids:
                res.violate("value-not-identical-to-tree", dict(case,
                                                                map=kind),
                            "object held by the tree", repr(v)[:80],
                            detail="handler %s text=%r" % (k, p.text))
                return False
        res.count("handler_calls_checked", len(calls))
        return True

    sigbase = "%d|%d|%s" % (min(len(entries), 9), len(names),
                            cc.model_features(p.model))
    # 1 complete map, mixed case, plus unused extras
    spec = [(variant_name(rng, n_), "rec") for n_ in names]
    spec.append(("unused-extra", "rec"))
    # ('_' and '-' are different characters of a name)
    spec.append(("unused_extra", "rec"))
    spec.append(("Unused.Extra", "none"))
    calls, out = run("complete", spec)
    res.sig(sigbase + "|complete")
    if out != ("ok",):
        res.violate("complete-map-raised", dict(case, map="complete"),
                    "ok", list(out), detail="text=%r" % p.text)
    else:
        check_calls("complete", calls, expect_calls(skip=()))
        if any(k in ("unused-extra", "unused_extra", "unused.extra")
               for k, _ in calls):
            res.violate("unused-name-called", case, [], "unused-extra")
    if names and res.evaluations % 5 == 1:
        # the schema was loaded with the application's own datatype
        # registry, whose basic-key is the stock one except that it also
        # takes a trailing '!': names are matched after *that* conversion
        import io
        import ZConfig.datatypes
        import ZConfig.loader
        stock = dict(ZConfig.datatypes.stock_datatypes)
        bk = stock["basic-key"]
        stock["basic-key"] = lambda s_: (bk(s_[:-1]) + "!") \
            if s_.endswith("!") else bk(s_)
        got = None
        try:
            schema2 = ZConfig.loader.SchemaLoader(
                ZConfig.datatypes.Registry(stock)).loadFile(
                    io.StringIO(p.xml))
            _c2, h2 = ZConfig.loadConfigFile(schema2, io.StringIO(p.text))
            calls2 = []
            m2 = dict((variant_name(rng, n_),
                       (lambda v, key=n_: calls2.append((key, v))))
                      for n_ in names)
            m2["Unused-Extra!"] = lambda v: calls2.append(("!", v))
            h2(m2)
            got = [(k, outcome.canon_value(v)) for k, v in calls2]
        except Exception as e:  # noqa
            got = "raised %s: %s" % (type(e).__name__, str(e)[:120])
        res.count("own_registry_loads")
        want = [(h, v) for h, v in entries]
        if got != want:
            res.violate("names-not-matched-by-the-schema's-own-basic-key",
                        dict(case, map="own-registry"),
                        [list(x) for x in want][:6],
                        got if isinstance(got, str)
                        else [list(x) for x in got][:6],
                        detail="schema loaded with a registry whose "
                        "basic-key also takes a trailing '!'; text=%r"
                        % p.text, vsig="own-registry|%s" % (
                            got[:20] if isinstance(got, str) else "trace"))
    if not names:
        res.sample("no-entries", {"schema": p.xml, "text": p.text}, 1)
        # a handler without entries still refuses two names that normalise
        # to one key
        for pair in ([("unused-extra", "rec"), ("UNUSED-EXTRA", "rec")],
                     [("Abc", "none"), ("abc", "rec")]):
            calls, out = run("duplicate", pair)
            res.count("error_maps")
            res.count("duplicate_maps_on_empty_handler")
            if out[0] != "config-error" or calls:
                res.violate("duplicate-names-not-all-or-nothing",
                            dict(case, map="duplicate", dup=pair[0][0]),
                            ["config-error", []], [list(out), len(calls)],
                            detail="handler without entries, names %r"
                            % [x[0] for x in pair],
                            vsig="dup-empty|%s" % out[0])
        return
    res.sample("entries", {"schema": p.xml, "text": p.text,
                           "expected_calls": entries[:6]}, 2)
    # 2 None entries
    nones = set(n_ for n_ in names if rng.random() < 0.5) or {names[0]}
    spec = [(variant_name(rng, n_), "none" if n_ in nones else "rec")
            for n_ in names]
    calls, out = run("with-none", spec)
    res.sig(sigbase + "|none")
    if out != ("ok",):
        res.violate("none-map-raised", dict(case, map="with-none"), "ok",
                    list(out), detail="text=%r" % p.text)
    else:
        check_calls("with-none", calls, expect_calls(skip=nones))
    # 3 one needed name missing
    missing = rng.choice(names)
    spec = [(variant_name(rng, n_), "rec") for n_ in names if n_ != missing]
    calls, out = run("missing", spec)
    res.count("error_maps")
    res.sig(sigbase + "|missing")
    if out[0] != "config-error" or calls:
        res.violate("missing-name-not-all-or-nothing",
                    dict(case, map="missing", missing=missing),
                    ["config-error", []],
                    [list(out), [list((k, repr(v)[:40])) for k, v in calls]],
                    detail="missing=%s text=%r" % (missing, p.text),
                    vsig="missing|%s|%d" % (out[0], bool(calls)))
    # 3b needed names missing while the map holds as many names as the
    # handler needs, or more (foreign / stale names in their place): the
    # missing name is the last, the first or any one, alone or with others
    for which in ("last", "first", "any", "two"):
        if which == "last":
            gone = {entries[-1][0]} if entries else {names[-1]}
        elif which == "first":
            gone = {entries[0][0]} if entries else {names[0]}
        elif which == "any":
            gone = {rng.choice(names)}
        else:
            gone = set(rng.sample(names, min(2, len(names))))
        gone = set(n_ for n_ in names if n_ in gone) or {names[-1]}
        spec = [(variant_name(rng, n_), "rec") for n_ in names
                if n_ not in gone]
        for k in range(len(gone) + rng.choice([0, 1, 5])):
            spec.insert(rng.randint(0, len(spec)),
                        ("stale-name-%d" % k, rng.choice(["rec", "none"])))
        calls, out = run("missing-surplus", spec)
        res.count("error_maps")
        res.count("error_maps_with_surplus_names")
        res.sig(sigbase + "|missing-surplus|" + which)
        if out[0] != "config-error" or calls:
            res.violate("missing-name-not-all-or-nothing",
                        dict(case, map="missing-surplus",
                             missing=sorted(gone)),
                        ["config-error", []],
                        [list(out), [list((k, repr(v)[:40]))
                                     for k, v in calls]],
                        detail="missing=%s (map with %d names for %d) "
                        "text=%r" % (sorted(gone), len(spec), len(names),
                                     p.text),
                        vsig="missing-surplus|%s|%d" % (out[0], bool(calls)))
    # 4 case-variant duplicates (of a needed or of an unneeded name), the
    # two spellings mapped to callable/callable, None/callable,
    # callable/None or None/None, in either insertion order
    dup = rng.choice(names + ["unused-extra"])
    for flavour in (("rec", "rec"), ("none", "rec"), ("rec", "none"),
                    ("none", "none")):
        spec = [(n_, "rec") for n_ in names if n_ != dup]
        # the two spellings: normalised one first, normalised one last,
        # or neither of them normalised
        a, b = rng.choice([(dup, dup.upper()), (dup.upper(), dup),
                           (dup.upper(), dup.capitalize()),
                           (dup.capitalize(), dup)])
        if a == b:
            a, b = dup.upper(), dup
        pair = [(a, flavour[0]), (b, flavour[1])]
        if rng.random() < 0.5:
            spec = pair + spec
        else:
            spec = spec + pair
        calls, out = run("duplicate", spec)
        res.count("error_maps")
        res.sig(sigbase + "|dup|" + "/".join(flavour))
        if out[0] != "config-error" or calls:
            res.violate("duplicate-names-not-all-or-nothing",
                        dict(case, map="duplicate", dup=dup,
                             flavour=list(flavour)),
                        ["config-error", []],
                        [list(out), [list((k, repr(v)[:40]))
                                     for k, v in calls]],
                        detail="dup=%s %s text=%r" % (dup, flavour, p.text),
                        vsig="dup|%s|%d|%s" % (out[0], bool(calls),
                                               "/".join(flavour)))


def judge_with_overrides(ctx, p, rng):
    """The same text loaded with overrides: the composite handler must be
    the one the *edited* text denotes (entries of sections an override
    path runs through included)."""
    from ..gen import overrides, texts
    from ..ref import refmatch
    res = ctx.res
    if p.exp[0] != "accept" or p.obs[0] != "ok" or \
            not overrides.section_children(p.tree):
        return
    specs, infos = overrides.gen_specs(rng, p.res, p.tree)
    if any(i.get("badvalue") or i.get("badkey") or i.get("missing")
           for i in infos):
        return
    try:
        edited = texts.render(overrides.apply_overrides(p.res, p.tree,
                                                        specs))
    except overrides.NoSuchSection:
        return
    exp = refmatch.conform(p.res, edited)
    if exp[0] != "accept":
        return
    obs = outcome.load_text(p.schema, p.text, overrides=specs)
    if obs[0] != "ok":
        return            # C14's subject
    res.evaluations += 1
    res.count("with_overrides")
    config, handler, _ = obs[3]
    entries = exp[2]
    case = dict(p.case(), overrides=specs)
    n = len(handler)
    if n != len(entries):
        res.violate("len-differs-with-overrides", case, len(entries), n,
                    detail="overrides=%r text=%r" % (specs, p.text))
        return
    calls = []
    mapping = {}
    for h, _v in entries:
        mapping[h] = (lambda v, h=h: calls.append((h, v)))
    try:
        handler(mapping)
    except Exception as e:  # noqa
        res.violate("complete-map-raised-with-overrides", case, "ok",
                    "%s: %s" % (type(e).__name__, e))
        return
    got = [[k, outcome.canon_value(v)] for k, v in calls]
    if got != [list(x) for x in entries]:
        res.violate("call-trace-differs-with-overrides", case,
                    [list(x) for x in entries][:8], got[:8],
                    detail="overrides=%r text=%r" % (specs, p.text))
    else:
        res.count("handler_calls_checked", len(calls))


def fault_plan(rng):
    return 0 if rng.random() < 0.85 else 1


def judge_reused_loader(ctx, p, state):
    """The same texts through one ConfigLoader object per schema: the
    handler of each load has the entries of that load only."""
    import io
    import ZConfig
    from ZConfig.loader import ConfigLoader
    res = ctx.res
    if state.get("schema") is not p.schema:
        state["schema"] = p.schema
        state["loader"] = ConfigLoader(p.schema)
    try:
        config, handler = state["loader"].loadFile(io.StringIO(p.text))
    except ZConfig.ConfigurationError:
        got = "reject"
    except Exception as e:  # noqa
        got = "raised " + type(e).__name__
    else:
        got = [[h, outcome.canon_value(v)] for h, v in handler._handlers]
        if len(handler) != len(got):
            got = "len() says %d, %d entries" % (len(handler), len(got))
    want = p.obs[2] if p.obs[0] == "ok" else "reject"
    if p.obs[0] != "ok" and p.obs[1] != "config":
        return
    # the handler object an earlier load of this loader returned still has
    # that load's entries, whatever the loader has read since
    prev = state.get("previous")
    if prev is not None and prev[0] is state["loader"]:
        _ld, ph, pwant, ptext = prev
        try:
            calls = []
            names_ = sorted(set(h for h, _v in pwant))
            ph(dict((n_, (lambda v, key=n_: calls.append(
                [key, outcome.canon_value(v)]))) for n_ in names_))
            pgot = calls if len(ph) == len(pwant) else \
                "len() says %d" % len(ph)
        except Exception as e:  # noqa
            pgot = "raised %s: %s" % (type(e).__name__, str(e)[:80])
        res.count("earlier_handler_checked_after_next_load")
        if pgot != pwant:
            res.violate("earlier-handler-changed-by-a-later-load", p.case(),
                        len(pwant), pgot if isinstance(pgot, str)
                        else len(pgot),
                        detail="handler of the load of %r, called after the "
                        "same loader read %r" % (ptext, p.text),
                        vsig="earlier-handler|%s" % (
                            pgot[:12] if isinstance(pgot, str) else "trace"))
    state["previous"] = (state["loader"], handler, want, p.text) \
        if isinstance(got, list) and isinstance(want, list) and got == want \
        else None
    res.count("reused_loader_loads")
    if got != want:
        res.violate("handler-entries-differ-on-reused-loader", p.case(),
                    want if isinstance(want, str) else len(want),
                    got if isinstance(got, str) else len(got),
                    detail="one ConfigLoader for every text of the schema; "
                    "text=%r" % p.text,
                    vsig="reused-loader|%s" % (got if isinstance(got, str)
                                               else "entries"))


def run_shard(ctx):
    rng = ctx.rng("maps")
    dens = ctx.rng("density")
    state = {}
    for p in cc.pairs(ctx, N_MODELS[ctx.tier], TEXTS[ctx.tier],
                      systematic=False, handlers=True,
                      handler_density=0.2 + 0.6 * dens.random(),
                      fault_plan=fault_plan, p_bad_value=0.0):
        judge(ctx, p, rng)
        judge_reused_loader(ctx, p, state)
        if rng.random() < 0.4:
            judge_with_overrides(ctx, p, rng)


def replay(ctx, case):
    judge(ctx, cc.replay_pair(case), ctx.rng("maps"))
