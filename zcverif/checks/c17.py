"""C17 — schema-less configurations survive str() and re-reading unchanged.

Monitor: parse -> str -> parse -> str; structural equality computed by an own
walker (keys, value lists, section types/names/order/nesting, imports) and
textual fixpoint; %define / %include must be refused.
"""

import io
import itertools
import os

from ..ref import refparse
from . import c03

ID = "C17"
LEVEL = "exploration"
TECHNIQUE = ("runtime monitoring: round-trip (parse, str, parse, str) "
             "self-consistency monitor with structural walker over "
             "bounded-exhaustive and random texts")
RULE = ("texts of the C03 corpus (all single lines over the 16-symbol class "
        "alphabet up to length 5 quick / 6 thorough, prefixed and "
        "section-wrapped variants, all sequences of <=3/4 pool lines, random "
        "texts) plus a targeted generator (values with '$$', values starting "
        "with < % # (, empty values, repeated keys, mixed-case names, header "
        "tokens ending in '/' or '>', deep and empty sections, %import at "
        "any depth and with '$$').  Non-trivial = accepted by the schemaless "
        "loader with at least one key, section or import; "
        "distinct_nontrivial = distinct structural signatures of accepted "
        "texts (shape of the tree + value/header features).")
LEVEL_TEXT = ("Every accepted text of the bounded corpus is pushed through "
              "the round trip with the real code and compared structurally; "
              "texts with %define/%include are checked to be refused.")
ASSUMPTIONS = [
    "equality of structures is computed by zcverif's own walker, not by "
    "Section.__eq__ (dict equality ignores sections, type, name, imports)",
    "the order of *different* keys inside one section is not part of the "
    "property (str() sorts them); order of values of one key and of "
    "sections is",
]
HOOK_FLOORS = {"quick": {"schema_based_load_with_directives": 2,
                         "nested_sections_printed_on_their_own": 20000},
               "thorough": {"schema_based_load_with_directives": 2}}
FLOORS = {"quick": {"accepted_nontrivial": 500000},
          "thorough": {"accepted_nontrivial": 8000000}}
BOUND = {"quick": 5, "thorough": 6}
RANDOM = {"quick": 6000, "thorough": 300000}


def shards(tier):
    return 16


class ReadlineOnly:
    """A text stream that offers readline() and nothing else (a pipe, a
    socket file, a generator in disguise): no seek, no tell, no name."""

    def __init__(self, text):
        self._f = io.StringIO(text)

    def readline(self):
        return self._f.readline()

    def close(self):
        self._f.close()


class ReentrantFile(io.StringIO):
    """A stream whose readline() now and then loads another schema-less
    text start to finish before it hands out the next line."""
    nested = 0

    def readline(self, *a):
        line = io.StringIO.readline(self, *a)
        if not ReentrantFile.busy and line and len(line) % 3 == 0:
            ReentrantFile.busy = True
            try:
                from ZConfig import schemaless
                inner = schemaless.loadConfigFile(io.StringIO(
                    "%import inner.one\nk v\n<a b>\n  k2 w\n</a>\n"
                    "%import inner.two\n"))
                ReentrantFile.nested += 1
                if tuple(inner.imports) != ("inner.one", "inner.two") or \
                        dict.items(inner) != {"k": ["v"]}.items() or \
                        len(inner.sections) != 1:
                    raise RuntimeError("nested schema-less load broken: %r"
                                       % (inner.imports,))
            finally:
                ReentrantFile.busy = False
        return line


ReentrantFile.busy = False
LOADS = [0]


def ZConfig_error():
    import ZConfig
    return ZConfig.ConfigurationError


def load(text, stream=None):
    """('ok', walked-tree, section) | ('refused', kind) | ('internal', …)"""
    import ZConfig
    from ZConfig import schemaless
    LOADS[0] += 1
    try:
        if stream is None and LOADS[0] % 6 == 0:
            stream = ReentrantFile(text)
        top = schemaless.loadConfigFile(stream if stream is not None
                                        else io.StringIO(text))
    except NotImplementedError:
        return ("refused", "notimpl")
    except ZConfig.ConfigurationError as e:
        return ("refused", type(e).__name__)
    except Exception as e:  # noqa
        return ("internal", type(e).__name__, str(e)[:100])
    return ("ok", c03.walk_schemaless(top), top)


def features(tree):
    f = set()

    def rec(n, depth):
        if n["keys"] or n["sections"]:
            pass
        for k, vs in n["keys"].items():
            if len(vs) > 1:
                f.add("rep")
            for v in vs:
                if v == "":
                    f.add("empty")
                if "$" in v:
                    f.add("dollar")
                if v[:1] in "<%#(":
                    f.add("lead")
                if v != v.strip():
                    f.add("edgews")
            if k != k.lower():
                f.add("Kcase")
        for s in n["sections"]:
            f.add("d%d" % min(depth + 1, 4))
            if s["type"].endswith("/") or (s["name"] or "").endswith("/"):
                f.add("slash")
            if ">" in s["type"] or ">" in (s["name"] or ""):
                f.add("gt")
            if s["name"]:
                f.add("named")
            if not s["keys"] and not s["sections"]:
                f.add("emptysec")
            rec(s, depth + 1)
    rec(tree, 0)
    if tree.get("imports"):
        f.add("imports")
        if any("$" in i for i in tree["imports"]):
            f.add("dollar")
    return f


def shape(tree):
    def rec(n):
        return "(%d%s)" % (min(len(n["keys"]), 3),
                           "".join(rec(s) for s in n["sections"][:4]))
    return rec(tree)[:40]


def render(tree, fix_dollar=False, fix_slash=False):
    """Reference serialiser used only to build *neutralised* inputs."""
    out = []

    def tok(t):
        if fix_slash and t.endswith("/"):
            return t.rstrip("/") + "_"
        return t

    def val(v):
        v = v.replace("$", "S") if fix_dollar else v.replace("$", "$$")
        return v

    for i in tree.get("imports", []):
        out.append("%import " + val(i))

    def rec(n, pre):
        for k, vs in n["keys"].items():
            for v in vs:
                out.append("%s%s %s" % (pre, k, val(v)))
        for s in n["sections"]:
            h = tok(s["type"]) + (" " + tok(s["name"]) if s["name"] else "")
            out.append("%s<%s >" % (pre, h))
            rec(s, pre + " ")
            out.append("%s</%s>" % (pre, tok(s["type"])))
    rec(tree, "")
    return "\n".join(out) + "\n"


def roundtrip(text):
    """None if fine (or text not accepted); else (kind, expected, observed)."""
    r1 = load(text)
    if r1[0] != "ok":
        return None, r1
    t1 = r1[1]
    try:
        s1 = str(r1[2])
    except Exception as e:  # noqa
        return ("str-raised", None, "%s: %s" % (type(e).__name__, e)), r1
    r2 = load(s1)
    if r2[0] != "ok":
        return ("reload-refused", {"tree": t1, "printed": s1},
                list(r2[:3])), r1
    if r2[1] != t1:
        return ("structure-changed", {"tree": t1, "printed": s1},
                {"tree": r2[1]}), r1
    s2 = str(r2[2])
    if s2 != s1:
        return ("not-a-fixpoint", s1, s2), r1
    # a section of the result is printed by str() as well: its text, read
    # again, holds exactly that section
    todo = list(r1[2].sections)
    n = 0
    while todo and n < 6:
        sec = todo.pop(0)
        todo.extend(sec.sections)
        n += 1
        NESTED[0] += 1
        want = {"type": t1["type"], "name": t1["name"], "keys": {},
                "imports": [],
                "sections": [c03.walk_schemaless(sec, False)]}
        try:
            s3 = str(sec)
        except Exception as e:  # noqa
            return ("str-raised", None, "%s: %s" % (type(e).__name__,
                                                    e)), r1
        r3 = load(s3)
        if r3[0] != "ok":
            return ("reload-refused", {"tree": want, "printed": s3},
                    list(r3[:3])), r1
        if r3[1] != want:
            return ("structure-changed", {"tree": want, "printed": s3},
                    {"tree": r3[1]}), r1
    return None, r1


NESTED = [0]


def classify(text, tree):
    """Mechanism slug when the violation disappears once the trigger of a
    known mechanism is removed from the input, else None."""
    f = features(tree)
    if "edgews" in f and "$(" in text:
        # a value that begins or ends with white space can only come from
        # the environment; written out literally (the reference serialiser
        # does that) the same values, stripped, round-trip
        bad, _ = roundtrip(render(tree))
        if bad is None:
            return "value-edge-whitespace-from-environment"
    if "dollar" in f:
        bad, _ = roundtrip(render(tree, fix_dollar=True))
        if bad is None:
            return "dollar-not-reescaped"
    if "slash" in f:
        bad, _ = roundtrip(render(tree, fix_slash=True))
        if bad is None:
            return "header-token-ends-with-slash"
    if "dollar" in f and "slash" in f:
        bad, _ = roundtrip(render(tree, fix_dollar=True, fix_slash=True))
        if bad is None:
            return "dollar-not-reescaped"
    return None


def check_text(ctx, text, family):
    res = ctx.res
    res.evaluations += 1
    case = {"text": text, "family": family}
    # refusal of %define / %include
    _, ref_out, _ = refparse.parse(text, schemaless=True,
                                   env=dict(os.environ))
    bad, r1 = roundtrip(text)
    if r1[0] == "internal" and ref_out[0] != "unjudged":
        res.count("internal")
        res.violate("internal-exception", case, list(ref_out), list(r1),
                    detail="text=%r" % text)
        return
    if ref_out[0] == "notimpl":
        res.count("define_or_include_texts")
        if r1[0] == "refused" and res.evaluations % 3 == 0:
            # the parser class handed a definitions table by its caller
            # (as the schema-based parser can be): a '%define' is refused
            # all the same - also one that repeats what the table says
            from ZConfig import schemaless
            table = {}
            for ln in text.split("\n"):
                w = ln.split(None, 2)
                if len(w) >= 2 and w[0] == "%define":
                    table[w[1].lower()] = w[2].strip() if len(w) > 2 else ""
            ctxo = schemaless.Context()
            try:
                schemaless.Parser(schemaless.Resource(io.StringIO(text), ""),
                                  ctxo, table).parse(ctxo.top)
                r2 = ("accepted",)
            except NotImplementedError:
                r2 = ("refused",)
            except ZConfig_error() as e:
                r2 = ("refused", type(e).__name__)
            except Exception as e:  # noqa
                r2 = ("internal", type(e).__name__, str(e)[:80])
            res.count("parser_with_a_given_table")
            if r2[0] != "refused":
                res.violate("directive-silently-accepted", case,
                            "refused", list(r2),
                            detail="Parser(..., defines=%r): text=%r"
                            % (table, text), vsig="given-table|%s" % r2[0])
        if r1[0] != "refused":
            res.violate("directive-silently-accepted", case,
                        "refused (%s line %d)" % (ref_out[2], ref_out[1]),
                        list(r1[:2]), detail="text=%r" % text)
        else:
            res.sample("refused-directive", case, 1)
        return
    if res.evaluations % 5 == 2 and r1[0] != "internal":
        # the same text from a stream that only has readline()
        r0 = load(text, ReadlineOnly(text))
        res.count("readline_only_loads")
        if r0[:2] != r1[:2]:
            res.violate("outcome-depends-on-stream-type", case,
                        list(r1[:2]), list(r0[:2]),
                        detail="readline()-only stream: text=%r" % text,
                        vsig="rlonly|%s|%s" % (r1[0], r0[0]))
    if r1[0] != "ok":
        res.count("not_accepted")
        return
    tree = r1[1]
    res.count("accepted")
    if tree["keys"] or tree["sections"] or tree.get("imports"):
        res.count("accepted_nontrivial")
        res.sig(shape(tree) + "|" + ",".join(sorted(features(tree))))
        res.sample("roundtrip-" + family, case, 1)
    if bad is not None:
        mech = classify(text, tree)
        res.violate(bad[0], case, bad[1], bad[2], detail="text=%r" % text,
                    mechanism=mech,
                    vsig="%s|%s|%s" % (bad[0], mech,
                                       ",".join(sorted(features(tree)))))


_VALUES = ["v", "", "a$$b", "$$", "<x>", "%define a b", "#c", "(p)", "a  b",
           "</a>", "x/", "é ü", "$$$$x", "v",
           # characters other line splitters treat as line ends; only "\n"
           # ends a line of configuration text
           "first\x0csecond", "a\u2028b", "a\x85b c", "x\ry", "p\x0bq",
           "a\x1cb\x1dc\x1ed", "u\u2029v",
           # quotes, backslashes and other characters that mean something
           # in other configuration languages, not here
           '""x""', '""""', '"a"', "'b'", '"', '" x "', '""a" or "b""',
           "C:\\data\\", "\\", "a\\", "\\n", "x;y", "a,b,", "k=v", "=",
           "a # b", "{a}", "[s]", "@x", "!y", "~", "`z`", "a|b", "*", "+"]
_KEYS = ["k", "K", "key-1", "a.b", "k", "zz", "a#b", "k/", "\ufeffname",
         "\ufeff\ufeffk", "\ufeff%import", "\ufeff<x>", "k$$", "$$k"]
_HTOK = ["a", "A", "sec", "a/", "a>", "x/y", "b//", ">", "/", "$$", "x$$y",
         "$$$$", "Joe$$", "$$usd"]


def targeted_text(rng):
    lines = []
    depth = 0
    stack = []
    for _ in range(rng.randint(1, 18)):
        r = rng.random()
        pre = rng.choice(["", " ", "\t", "   "])
        if r < 0.45:
            lines.append(pre + rng.choice(_KEYS) +
                         rng.choice([" ", "  ", "\t"]) + rng.choice(_VALUES))
        elif r < 0.65 and depth < 6:
            t = rng.choice(_HTOK)
            n = rng.choice(["", "", " " + rng.choice(_HTOK)])
            form = rng.random()
            if form < 0.25:
                lines.append("%s<%s%s/>" % (pre, t, n))
            elif form < 0.4:
                lines.append("%s<%s%s />" % (pre, t, n))
            else:
                sp = rng.choice(["", " ", " "])
                lines.append("%s<%s%s%s>" % (pre, t, n, sp))
                # whether this opened a section depends on the grammar; let
                # the reference decide
                ev, out, _ = refparse.parse(lines[-1] + "\n", schemaless=True)
                opened = [e for e in ev if e[0] == "open"]
                closed = [e for e in ev if e[0] == "close"]
                if opened and not closed:
                    stack.append(opened[0][3])
                    depth += 1
        elif r < 0.8 and stack:
            t = stack.pop()
            depth -= 1
            lines.append("%s</%s>" % (pre, t))
        elif r < 0.9:
            lines.append(pre + "%import " +
                         rng.choice(["p", "p.q", "P", "a$$b", "p", "x y",
                                     "pkg$$$$name", "a$$$$$$$$b", "$$$$",
                                     "$$$$$$x", "q$$"]))
        elif r < 0.95:
            lines.append(rng.choice(["", "# c", "k"]))
        else:
            lines.append(pre + rng.choice(["%include $(ZCV_EMPTY)",
                                           "%import $(ZCV_EMPTY)x",
                                           "k $(ZCV_EMPTY)",
                                           "k tail $(ZCV_EMPTY)",
                                           "k $(ZCV_PAD)",
                                           "%include f.conf",
                                           "%define a b"]))
    while stack:
        lines.append("</%s>" % stack.pop())
    return "\n".join(lines) + "\n"


schema_based_load = c03.schema_based_load


def run_shard(ctx):
    os.environ["ZCV_EMPTY"] = ""     # set but empty (see C03)
    os.environ["ZCV_PAD"] = " pad "
    schema_based_load(ctx, "before")
    try:
        _run_shard(ctx)
    finally:
        schema_based_load(ctx, "after")


def _run_shard(ctx):
    bound = BOUND[ctx.tier]
    for s in c03.enum_lines(ctx, bound, 0):
        check_text(ctx, s, "line")
    for pi, pre in enumerate(c03.PREFIXES):
        for s in c03.enum_lines(ctx, bound - 2, pi + 1):
            check_text(ctx, pre + s, "prefixed")
    for s in c03.enum_lines(ctx, bound - 1, 9):
        check_text(ctx, "<a>\n" + s + "\n</a>\n", "wrapped")
    for s in c03.enum_lines(ctx, bound - 2, 10):
        check_text(ctx, "<" + s + ">\nk v\n</" + s + ">\n", "header")
    for idx, (fam, text) in enumerate(c03.size_texts()):
        if ctx.mine(idx):
            check_text(ctx, text, fam)
    pool = c03.POOL_QUICK if ctx.quick else c03.POOL_THOROUGH
    maxlines = 3 if ctx.quick else 4
    idx = 0
    for n in range(1, maxlines + 1):
        for seq in itertools.product(pool, repeat=n):
            idx += 1
            if ctx.mine(idx):
                check_text(ctx, "\n".join(seq) + "\n", "pool")
    # lines in the syntax of other configuration languages (quoted
    # names and values, assignment signs, ...): whatever is accepted must
    # come back unchanged
    idx = 0
    for line in c03.FOREIGN:
        for tmpl in ("%s\n", "<a>\n%s\n</a>\n", "%s\nk v\n</a>\n",
                     "%s\n</a>\n", "<a b>\n%s\n%s\n</a>\nk %s\n"):
            idx += 1
            if ctx.mine(idx):
                check_text(ctx, tmpl.replace("%s", line), "foreign")
    rng = ctx.rng("random")
    for i in range(RANDOM[ctx.tier] // ctx.nshards):
        check_text(ctx, c03.random_text(rng), "random")
        check_text(ctx, targeted_text(rng), "targeted")
    ctx.res.hook("nested_sections_printed_on_their_own", NESTED[0])
    ctx.res.hook("loads_nested_in_readline", ReentrantFile.nested)
    ctx.res.info["bounds"] = {"single_line_max_len": bound,
                              "pool_size": len(pool),
                              "pool_max_lines": maxlines,
                              "random_texts": 2 * RANDOM[ctx.tier]}


def replay(ctx, case):
    os.environ["ZCV_EMPTY"] = ""
    os.environ["ZCV_PAD"] = " pad "
    schema_based_load(ctx, "before")
    if case.get("family") == "history":
        check_text(ctx, "%define a b\nk $a\n", "history")
        schema_based_load(ctx, "after")
        return
    check_text(ctx, case["text"], case.get("family", "replay"))
