"""C08 — a rejected configuration names the resource and line that caused
the rejection.

Position monitor: exactly one fault with a culprit line known by
construction is injected into an accepted text (optionally moved into an
%include'd resource); the raised error's lineno / url (and value / exception
for conversion errors) are compared with the culprit.
"""

import copy
import os
import shutil
import urllib.request

from . import conf_common as cc
from ..gen import cuts, family, texts
from ..ref import refmatch, refparse

ID = "C08"
LEVEL = "exploration"
TECHNIQUE = ("runtime monitoring: single-fault injection with culprit known "
             "by construction; monitor on lineno/url/value/exception of the "
             "raised error, in main and included resources")
RULE = ("accepted texts of the C01 family; for each, every applicable fault "
        "kind of a 24-kind catalogue (malformed line shapes, bad/"
        "argument-less directives, illegal and conflicting %define, "
        "undefined and malformed $ constructs in values and directive "
        "arguments, unknown / repeated / unconvertible key, unconvertible "
        "value, unknown / abstract / non-admitted type, name-rule faults, "
        "surplus and mismatched closer, unclosed section, missing required "
        "item revealed at a closer or at <t/>, second instance / reused "
        "name) injected at a random applicable position, loaded from the "
        "main file, again with the culprit line cut into a (possibly "
        "nested) included resource, and again from a nameless file object "
        "(no URL); a third of the texts carry comment/blank lines with "
        "form feed, NEL, U+2028 and similar characters that are not line "
        "ends.  A case is judged only if the reference "
        "model confirms the faulted text is rejected while the original is "
        "accepted.  distinct_nontrivial = distinct (fault kind, nesting "
        "depth of culprit, main/included, error class) signatures."
        " Further modes: the culprit's resource has read and left an earlier %include; files without a terminator after the last line; a scratch directory whose name needs URL quoting.")
LEVEL_TEXT = ("For every injected fault the real loader's exception is "
              "inspected: lineno must be the culprit's 1-based number in "
              "the resource that contains it and url that resource's URL; "
              "conversion errors must carry the offending text and the "
              "original exception.")
ASSUMPTIONS = [
    "culprit lines per DESIGN.md Appendix C; for a second instance in a "
    "single slot / reused name the header line of the offending section is "
    "accepted as well as its closing line",
    "top-level 'missing' faults have no identifiable line and are excluded",
]
FLOORS = {"quick": {"judged": 20000, "judged_included": 6000,
                    "judged_without_url": 6000,
                    "judged_with_given_url": 6000,
                    "judged_with_exotic_line_break_chars": 4000},
          "thorough": {"judged": 400000, "judged_included": 100000,
                       "judged_without_url": 100000,
                       "judged_with_given_url": 100000,
                       "judged_with_exotic_line_break_chars": 80000}}
HOOK_FLOORS = {"quick": {"original_exception_compared": 2000},
               "thorough": {"original_exception_compared": 40000}}
N_MODELS = {"quick": 400, "thorough": 10000}
TEXTS = {"quick": 4, "thorough": 10}
PER_TEXT = {"quick": 8, "thorough": 14}

RAW_SYNTAX = ["<a b c>", "(x", "<a", "</a", "<>", "< a>", "<a (b)>",
              "%bogus x", "%define", "%include", "%import", "%Define a b",
              "% define a b", "%define 1x v", "</zz>", "</>",
              # directive names that are pieces of the real ones
              "%inc f", "%def a b", "%imp p", "%e x", "%port p",
              "%fine a b", "%clude f", "%includes f", "%define_ a b"]
BAD_DOLLAR = ["a$", "${x", "$(", "$-", "${x y}"]
EXOTIC = ["\x0c", "\x0b", "\x85", "\u2028", "\u2029", "\x1c", "\x1d",
          "\x1e", "\r"]


class Marked(str):
    """A line that must be found again after cutting."""


def shards(tier):
    return 16


def augment(model):
    """Every C08 model also has a section type whose datatype refuses
    (ValueError) a section with 'marker bad', usable inside a holder."""
    if any(t["name"] == "sdt" for t in model["types"]):
        return
    model["types"].append(
        {"kind": "section", "name": "sdt", "keytype": None, "datatype": None,
         "raw_datatype": "zcverif_dt.fam.needs_marker", "extends": None,
         "implements": None, "children": [
             {"kind": "key", "name": "marker", "datatype": "string",
              "required": False, "handler": None, "attribute": None,
              "default": None, "defaults": []}]})
    model["types"].append(
        {"kind": "section", "name": "sdtholder", "keytype": None,
         "datatype": None, "extends": None, "implements": None,
         "children": [{"kind": "section", "name": "solo", "type": "sdt",
                       "required": False, "handler": None,
                       "attribute": "solo_sdt"},
                      {"kind": "multisection", "name": "*", "type": "sdt",
                       "required": False, "handler": None,
                       "attribute": "inner_sdt"}]})
    model["children"].append(
        {"kind": "multisection", "name": "*", "type": "sdtholder",
         "required": False, "handler": None, "attribute": "sdt_holders"})


# ---------------------------------------------------------------------------
# fault injection on trees: returns (culprit item or node, role) or None

def _nodes(res, root):
    return texts.containers_of(res, root)


def _ins_at(rng, node, item, after=None):
    items = node["items"]
    lo = 0
    if after is not None:
        lo = items.index(after) + 1
    items.insert(rng.randint(lo, len(items)), item)


CONV_DT = [None]      # datatype whose refusal the last injected fault causes
EXPANDS_TO = [None]   # what the injected value expands to, when written with $


def inject(rng, res, root, kind):
    conts = [(n, c, p) for n, c, p in _nodes(res, root) if c is not None]
    rng.shuffle(conts)
    for node, cont, path in conts:
        r = _inject_in(rng, res, root, node, cont, path, kind)
        if r:
            return r
    return None


def _single_keys(cont):
    out = {}
    for c in cont.children:
        if c["kind"] == "key" and c["name"] != "+":
            out[family.norm_key(c.get("_declared_under", cont.keytype),
                                c["name"])] = c
    return out


def _key_child(cont, key):
    try:
        nk = family.norm_key(cont.keytype, key)
    except ValueError:
        return None
    wild = None
    for c in cont.children:
        if c["kind"] in ("key", "multikey"):
            if c["name"] == "+":
                wild = c
            elif family.norm_key(c.get("_declared_under", cont.keytype),
                                 c["name"]) == nk:
                return c
    return wild


def _inject_in(rng, res, root, node, cont, path, kind):
    items = node["items"]
    kt = cont.keytype
    slots = [c for c in cont.children
             if c["kind"] in ("section", "multisection")]
    if kind == "raw-syntax":
        it = ["raw", rng.choice(RAW_SYNTAX)]
        _ins_at(rng, node, it)
        return it, "raw", "syntax"
    if kind == "redefine":
        a = ["raw", "%define qq one"]
        b = ["raw", "%define QQ two"]
        _ins_at(rng, node, a)
        _ins_at(rng, node, b, after=a)
        return b, "raw", "syntax"
    if kind == "undefined-in-directive":
        it = ["raw", rng.choice(["%define x9 $nope", "%include $nope",
                                 "%import ${nope}", "%define x9 a${Nope}b"])]
        _ins_at(rng, node, it)
        return it, "raw", "subst-missing"
    if kind == "bad-dollar-in-directive":
        it = ["raw", rng.choice(["%define x9 a$", "%include ${x",
                                 "%import $-"])]
        _ins_at(rng, node, it)
        return it, "raw", "subst-syntax"
    if kind in ("undefined-in-value", "bad-dollar-in-value"):
        cand = [it for it in items if it[0] == "k"]
        if not cand:
            return None
        it = rng.choice(cand)
        if kind == "undefined-in-value":
            it[2] = rng.choice(["$nope", "a${nope}", "$NOPE b"])
            return it, "key", "subst-missing"
        it[2] = rng.choice(BAD_DOLLAR)
        return it, "key", "subst-syntax"
    if kind == "unknown-key":
        if any(c["kind"] in ("key", "multikey") and c["name"] == "+"
               for c in cont.children):
            return None
        it = ["k", "nosuchkey", "v"]
        _ins_at(rng, node, it)
        return it, "key", "match"
    if kind == "repeat-single":
        singles = _single_keys(cont)
        cand = [it for it in items if it[0] == "k" and
                texts._safe_norm(kt, it[1]) in singles]
        if not cand:
            return None
        src = rng.choice(cand)
        it = ["k", src[1], src[2]]
        _ins_at(rng, node, it, after=src)
        return it, "key", "match"
    if kind == "repeat-wild":
        w = [c for c in cont.children
             if c["kind"] == "key" and c["name"] == "+"]
        if not w:
            return None
        declared = set()
        for d in cont.children:
            if d["name"] not in ("*", "+"):
                declared.add(family.norm_key(
                    d.get("_declared_under", kt), d["name"]))
        cand = [it for it in items if it[0] == "k" and
                texts._safe_norm(kt, it[1]) is not None and
                texts._safe_norm(kt, it[1]) not in declared]
        if cand:
            src = rng.choice(cand)
            it = ["k", texts.variant(rng, src[1], kt != "identifier"),
                  src[2]]
            _ins_at(rng, node, it, after=src)
        else:
            k = rng.choice(family.WILD_KEYS[kt])
            v = family.VALID[w[0]["datatype"]][0][0]
            src = ["k", k, v]
            _ins_at(rng, node, src)
            it = ["k", k, v]
            _ins_at(rng, node, it, after=src)
        return it, "key", "match"
    if kind == "bad-key":
        it = ["k", rng.choice(family.BAD_KEYS[kt]), "v"]
        _ins_at(rng, node, it)
        CONV_DT[0] = kt
        return it, "key", "keyconv"
    if kind == "bad-value":
        cand = []
        for it in items:
            if it[0] == "k":
                c = _key_child(cont, it[1])
                if c is not None and family.INVALID[c["datatype"]]:
                    cand.append((it, c))
        if not cand:
            return None
        it, c = rng.choice(cand)
        bad = [v for v in family.INVALID[c["datatype"]]]
        it[2] = rng.choice(bad)
        CONV_DT[0] = c["datatype"]
        EXPANDS_TO[0] = None
        if rng.random() < 0.3:
            # the offending text reaches the datatype through substitution:
            # what the error carries is the text that was converted
            EXPANDS_TO[0] = it[2]
            os.environ["ZCV_BADVAL"] = it[2]
            it[2] = rng.choice(["$(ZCV_BADVAL)", "$(ZCV_BADVAL)$(ZCV_EMPTY)"])
            os.environ["ZCV_EMPTY"] = ""
        return it, "key", "valueconv"
    if kind in ("unknown-type", "abstract-type", "not-admitted"):
        if kind == "unknown-type":
            t = "nosuchtype"
        elif kind == "abstract-type":
            abs_ = [n for n in res.order if res.is_abstract(n)]
            if not abs_:
                return None
            t = rng.choice(abs_)
        else:
            adm = set()
            for c in slots:
                adm.update(res.admitted(c))
            cand = [n for n in res.concrete_names() if n not in adm]
            if not cand:
                return None
            t = rng.choice(cand)
        n = texts.mknode(t, rng.choice([None, "q1"]),
                         rng.choice(["pair", "empty"]))
        it = ["s", n]
        _ins_at(rng, node, it)
        return it, "header", "match"
    if kind == "unnamed-in-plus":
        plus = [c for c in slots if c["name"] == "+" and res.admitted(c)]
        if not plus:
            return None
        c = rng.choice(plus)
        n = texts.mknode(rng.choice(res.admitted(c)), None,
                         rng.choice(["pair", "empty"]))
        it = ["s", n]
        _ins_at(rng, node, it)
        return it, "header", "match"
    if kind == "star-name":
        cand = [it for it in items if it[0] == "s"]
        if not cand:
            return None
        it = rng.choice(cand)
        it[1]["name"] = rng.choice(["*", "+"])
        return it, "header", "match"
    if kind == "wrong-fixed-name":
        # only a header fault when no unnamed slot would take the section
        # and the vacated fixed slot is not required
        cand = [it for it in items if it[0] == "s" and it[1]["name"] and
                any(c["name"] == it[1]["name"].lower() and
                    not c["required"] for c in slots) and
                not any(c["name"] in ("*", "+") and
                        res.admits(c, it[1]["type"].lower())
                        for c in slots)]
        if not cand:
            return None
        it = rng.choice(cand)
        it[1]["name"] = "othername"
        return it, "header", "match"
    if kind == "missing-required":
        if not path:
            return None          # top level: no identifiable line
        req = [c for c in cont.children if c["required"]]
        if not req:
            return None
        c = rng.choice(req)
        if c["kind"] in ("key", "multikey"):
            if c["name"] == "+":
                declared = set()
                for d in cont.children:
                    if d["name"] not in ("*", "+"):
                        declared.add(family.norm_key(
                            d.get("_declared_under", kt), d["name"]))
                keep = [it for it in items if not (
                    it[0] == "k" and
                    texts._safe_norm(kt, it[1]) not in declared)]
            else:
                nk = family.norm_key(c.get("_declared_under", kt), c["name"])
                keep = [it for it in items if not (
                    it[0] == "k" and texts._safe_norm(kt, it[1]) == nk)]
        else:
            adm = set(res.admitted(c))
            keep = [it for it in items if not (
                it[0] == "s" and it[1]["type"].lower() in adm)]
        if len(keep) == len(items):
            return None
        node["items"][:] = keep
        if not keep and rng.random() < 0.6:
            node["form"] = "empty"
        # the culprit is this node's own closing line
        parent = root
        for i in path[:-1]:
            parent = parent["items"][i][1]
        holder = [it for it in parent["items"]
                  if it[0] == "s" and it[1] is node][0]
        return holder, "closer", "match"
    if kind in ("second-in-single", "reuse-name"):
        cand = []
        for it in items:
            if it[0] != "s":
                continue
            if kind == "reuse-name":
                if it[1]["name"]:
                    cand.append(it)
            else:
                t = it[1]["type"].lower()
                fixed = [c["name"] for c in slots
                         if c["name"] not in ("*", "+")]
                if (it[1]["name"] or "").lower() in fixed:
                    continue
                if any(c["kind"] == "section" and c["name"] == "*" and
                       res.admits(c, t) for c in slots):
                    cand.append(it)
        if not cand:
            return None
        src = rng.choice(cand)
        dup = copy.deepcopy(src[1])
        if kind == "second-in-single":
            dup["name"] = "second"
        it = ["s", dup]
        _ins_at(rng, node, it, after=src)
        return it, "closer-or-header", "match"
    if kind == "section-datatype":
        # the section datatype of a section nested in a holder refuses it;
        # revealed when the holder closes
        if cont.name != "sdtholder":
            return None
        # into the multi slot, or (named 'solo') into the single slot
        nm = rng.choice([None, "sd1", "solo", "solo"])
        if nm == "solo" and any(x[0] == "s" and
                                (x[1]["name"] or "").lower() == "solo"
                                for x in node["items"]):
            nm = "sd1"
        bad = texts.mknode("sdt", nm, "pair")
        bad["items"].append(["k", "marker", "bad"])
        it = ["s", bad]
        _ins_at(rng, node, it)
        if node["form"] == "empty":
            node["form"] = "pair"
        parent = root
        for i in path[:-1]:
            parent = parent["items"][i][1]
        holder = [x for x in parent["items"]
                  if x[0] == "s" and x[1] is node][0]
        return holder, "closer+inner", "sectionconv", it
    if kind == "unclosed":
        cand = []
        for c in slots:
            if c["name"] in ("*", "+"):
                for t in res.admitted(c):
                    cand.append(t)
        if not cand or path:
            return None
        it = ["raw", "<%s unclosed9>" % rng.choice(cand)]
        root["items"].append(it)
        return it, "eof", "syntax"
    return None


KINDS = ["repeat-wild", "section-datatype", "section-datatype",
         "raw-syntax", "raw-syntax",
         "redefine", "undefined-in-directive",
         "bad-dollar-in-directive", "undefined-in-value",
         "bad-dollar-in-value", "unknown-key", "repeat-single", "bad-key",
         "bad-value", "bad-value", "unknown-type", "abstract-type",
         "not-admitted", "unnamed-in-plus", "star-name", "wrong-fixed-name",
         "missing-required", "missing-required", "second-in-single",
         "reuse-name", "unclosed"]


def find_path(root, target):
    def rec(node, path):
        for i, it in enumerate(node["items"]):
            if it is target:
                return path + (i,)
            if it[0] == "s":
                r = rec(it[1], path + (i,))
                if r:
                    return r
        return None
    return rec(root, ())


def culprit_lines(root, target, role):
    """Indices (0-based) into the rendered line list that are acceptable
    culprit lines, primary first; plus the rendered lines."""
    rl = texts.render_lines(root)
    path = find_path(root, target)
    if path is None:
        return None, rl
    idx = {}
    for i, (line, (p, r)) in enumerate(rl):
        if p == path:
            idx[r] = i
    if role in ("raw", "key"):
        return [idx.get("raw", idx.get("key"))], rl
    if role == "header":
        return [idx.get("open", idx.get("empty"))], rl
    if role == "closer":
        return [idx.get("close", idx.get("empty"))], rl
    if role == "closer-or-header":
        a = idx.get("close", idx.get("empty"))
        b = idx.get("open", idx.get("empty"))
        return [a, b], rl
    if role == "eof":
        return [idx.get("raw")], rl
    return None, rl


def file_url(path):
    return "file://" + urllib.request.pathname2url(os.path.abspath(path))


def observe(schema, main, overrides=()):
    import ZConfig
    try:
        ZConfig.loadConfig(schema, main, overrides)
    except Exception as e:  # noqa
        return e
    return None


def harmless_override(rng, p):
    """'newkey=value' for a top-level wildcard key, or an existing optional
    top-level string key; checked to keep the unfaulted text acceptable."""
    from ..mon import outcome
    top = p.res.top
    cand = []
    for c in top.children:
        if c["kind"] in ("key", "multikey") and not c["required"] and \
                c["datatype"] in ("string", "null"):
            if c["name"] == "+":
                cand.append("ovr9key=v")
            else:
                cand.append(c["name"] + "=v")
    if not cand:
        return None
    spec = rng.choice(cand)
    o = outcome.load_text(p.schema, p.text, overrides=[spec])
    return spec if o[0] == "ok" else None


def observe_file_with_url(schema, path, url):
    import ZConfig
    try:
        # newline="\n": no universal-newline translation, the loader sees
        # the text as it is in the file
        with open(path, encoding="utf-8", newline="\n") as f:
            ZConfig.loadConfigFile(schema, f, url=url)
    except Exception as e:  # noqa
        return e
    return None


def observe_open_file(schema, path, relative, bytes_name=False):
    """loadConfigFile on an open file whose name is the absolute path, or
    (after changing into its directory) the bare file name."""
    import ZConfig
    old = os.getcwd()
    try:
        if relative:
            os.chdir(os.path.dirname(path))
            path = os.path.basename(path)
        try:
            with open(os.fsencode(path) if bytes_name else path,
                      encoding="utf-8", newline="\n") as f:
                ZConfig.loadConfigFile(schema, f)
        except Exception as e:  # noqa
            return e
        return None
    finally:
        os.chdir(old)


def observe_text(schema, text):
    import io
    import ZConfig
    try:
        ZConfig.loadConfigFile(schema, io.StringIO(text))
    except Exception as e:  # noqa
        return e
    return None


def judge(ctx, p, rng, dirpath):
    import ZConfig
    res = ctx.res
    if p.exp[0] != "accept" or p.obs[0] != "ok":
        return
    kinds = rng.sample(KINDS, min(PER_TEXT[ctx.tier], len(KINDS)))
    for kind in kinds:
        root = copy.deepcopy(p.tree)
        CONV_DT[0] = None
        EXPANDS_TO[0] = None
        r = inject(rng, p.res, root, kind)
        conv_dt = CONV_DT[0]
        expands_to = EXPANDS_TO[0]
        if r is None:
            res.count("not_applicable")
            continue
        inner = None
        if len(r) == 4:
            target, role, stage, inner = r
        else:
            target, role, stage = r
        ok_idx, rl = culprit_lines(root, target,
                                   "closer" if inner else role)
        if inner is not None and ok_idx and ok_idx[0] is not None:
            more, _ = culprit_lines(root, inner, "closer")
            ok_idx = list(ok_idx) + [i for i in (more or []) if i is not None]
        if not ok_idx or ok_idx[0] is None:
            res.count("culprit_not_found")
            continue
        lines = [l for l, _ in rl]
        exotic = False
        if rng.random() < 0.35:
            # comment / blank lines carrying characters that other line
            # splitters (str.splitlines) treat as line ends; only "\n" ends
            # a line of configuration text
            exotic = True
            for _ in range(rng.randint(1, 3)):
                pos = rng.randint(0, len(lines))
                ch = rng.choice(EXOTIC)
                extra = rng.choice(["# page" + ch, ch, "# a" + ch + "b",
                                    "  #" + ch + ch])
                lines.insert(pos, extra)
                ok_idx = [i + 1 if (i is not None and i >= pos) else i
                          for i in ok_idx]
        text = "".join(l + "\n" for l in lines)
        # the reference must agree the fault is effective
        if stage == "sectionconv":
            exp = ("reject", "convert", "section datatype")
        elif stage not in ("syntax", "subst-missing", "subst-syntax"):
            exp = refmatch.conform(p.res, text)
        else:
            exp = _syntax_expect(text)
        if exp[0] != "reject":
            res.count("fault_not_effective")
            continue
        # an override list that is fine on the unfaulted text and does not
        # touch the culprit: positions must not depend on its presence
        spec = None
        if stage in ("match", "keyconv", "valueconv") and rng.random() < 0.5:
            spec = harmless_override(rng, p)
            if spec is not None:
                # the fault must survive the override (it would not if the
                # override replaces the culprit's own key)
                from ..gen import overrides as ovr
                try:
                    edited = texts.render(ovr.apply_overrides(
                        p.res, root, [spec]))
                    if refmatch.conform(p.res, edited)[0] != "reject":
                        spec = None
                except ovr.NoSuchSection:
                    spec = None
        for included in (False, True, "nourl", "given-url", "after-inc",
                         rng.choice(["fobj", "fobj-rel", "fobj-bytes"])) + (
                ("override",) if spec else ()):
            marked = list(lines)
            for i in ok_idx:
                if i is not None:
                    marked[i] = Marked(marked[i])
            layout = None
            if included is True:
                layout = _cut_around(rng, marked, ok_idx[0])
                if layout is None:
                    res.count("not_cuttable")
                    continue
            elif included in ("fobj", "fobj-rel", "fobj-bytes"):
                # the culprit in an included resource (when the text can be
                # cut), the outer one handed over as an open file
                layout = _cut_around(rng, marked, ok_idx[0])
            elif included == "after-inc" and rng.random() < 0.4:
                layout = _cut_around(rng, marked, ok_idx[0])
            if layout is None:
                layout = cuts.Layout()
                layout.files["b/main.conf"] = marked
            if included == "after-inc":
                # the resource that holds the culprit has read (and left)
                # an included resource before it gets to the culprit
                if not _healthy_include_before(rng, layout):
                    res.count("no_room_for_an_earlier_include")
                    continue
                res.count("judged_after_an_earlier_include")
            if rng.random() < 0.3:
                # the last line of a resource need not end in a line break
                # (every file that holds a culprit, or every file)
                hold = [rel for rel, fl in layout.files.items()
                        if any(isinstance(l, Marked) for l in fl)]
                layout.unterminated = set(
                    hold if rng.random() < 0.7 else layout.files)
                res.count("judged_with_unterminated_last_line")
            res.evaluations += 1
            shutil.rmtree(dirpath, ignore_errors=True)
            main = layout.write(dirpath)
            # expected positions: where did the marked lines end up?
            want = []
            for rel, flines in layout.files.items():
                for n, l in enumerate(flines, 1):
                    if isinstance(l, Marked):
                        fp = os.path.join(dirpath, *rel.split("/"))
                        ln = len(flines) if role == "eof" else n
                        want.append((ln, file_url(fp)))
            if included == "nourl":
                # the same text from a file object without a name: no URL
                want = [(ln, None) for ln, _ in want]
                e = observe_text(p.schema, layout.texts()["b/main.conf"])
                res.count("judged_without_url")
            elif included == "given-url":
                # an open, named file together with an explicit url=: the
                # resource's URL is the one given, not the file's own
                given = "file:///zcv-given/dir%20x/main.conf"
                want = [(ln, given) for ln, _ in want]
                e = observe_file_with_url(p.schema, main, given)
                res.count("judged_with_given_url")
            elif included == "override":
                e = observe(p.schema, main, [spec])
                res.count("judged_with_override")
            elif included in ("fobj", "fobj-rel", "fobj-bytes"):
                e = observe_open_file(p.schema, main, included == "fobj-rel",
                                      included == "fobj-bytes")
                res.count("judged_from_open_file")
            else:
                e = observe(p.schema, main)
            res.count("judged")
            res.count("kind:" + kind)
            if exotic:
                res.count("judged_with_exotic_line_break_chars")
            if included is True:
                res.count("judged_included")
            depth = len(find_path(root, target) or ()) - 1
            cls = type(e).__name__ if e is not None else "none"
            res.sig("%s|%d|%s|%s|%s" % (kind, depth, included if
                                        isinstance(included, str) else
                                        "inc" if included else "main",
                                        cls, exotic))
            case = {"model": p.model, "files": layout.texts(),
                    "kind": kind, "expected_positions": want,
                    "stage": stage, "conv_datatype": conv_dt,
                    "expanded_value": expands_to,
                    "mode": str(included)}
            res.sample("%s-%s" % (kind, included if isinstance(included, str)
                                  else "inc" if included else "main"),
                       dict(case, error=cls), 1)
            check(res, case, e, want, stage, target, kind)


def _syntax_expect(text):
    ev, out, _ = refparse.parse(text)
    if out[0] in ("syntax", "subst-syntax", "subst-missing", "reject-any"):
        return ("reject", out[0], "")
    return ("accept",)


def _healthy_include_before(rng, layout):
    """Give the file that holds the (first) marked line an %include of a
    healthy fragment somewhere before that line: a balanced run of its own
    earlier lines, or a fragment of comment lines.  The fragment has
    another number of lines than the position of the culprit."""
    for path, flines in list(layout.files.items()):
        ks = [n for n, l in enumerate(flines) if isinstance(l, Marked)]
        if not ks:
            continue
        k = ks[0]
        ranges = [r for r in cuts.balanced_ranges(flines[:k])
                  if not any(isinstance(l, tuple) for l in flines[r[0]:r[1]])]
        frag_path, _ = layout.new_path(rng)
        if ranges and rng.random() < 0.5:
            i, j = rng.choice(ranges)
            layout.files[frag_path] = list(flines[i:j])
            layout.files[path] = flines[:i] + \
                [("inc", frag_path, rng.choice(["", " "]))] + flines[j:]
        else:
            pos = rng.randint(0, k)
            n = rng.choice([1, 2, 3, 5, 8, 13, 40])
            layout.files[frag_path] = ["# line %d of a healthy fragment" % x
                                       for x in range(n)]
            layout.files[path] = flines[:pos] + \
                [("inc", frag_path, rng.choice(["", "\t"]))] + flines[pos:]
        return True
    return False


def _cut_around(rng, marked, idx):
    """A layout whose cuts put line *idx* into an included file."""
    for _ in range(6):
        layout = cuts.Layout()
        ranges = [r for r in cuts.balanced_ranges(marked)
                  if r[0] <= idx < r[1]]
        if not ranges:
            return None
        i, j = rng.choice(ranges)
        frag_path, place = layout.new_path(rng)
        frag = list(marked[i:j])
        layout.cuts.append({"file": frag_path, "place": place})
        if rng.random() < 0.4:
            # nest once more around the culprit
            inner = [r for r in cuts.balanced_ranges(frag)
                     if r[0] <= idx - i < r[1]]
            if inner:
                a, b = rng.choice(inner)
                p2, _ = layout.new_path(rng)
                layout.files[p2] = frag[a:b]
                frag = frag[:a] + [("inc", p2, "")] + frag[b:]
        layout.files[frag_path] = frag
        layout.files["b/main.conf"] = marked[:i] + \
            [("inc", frag_path, rng.choice(["", "  "]))] + marked[j:]
        return layout
    return None


def check(res, case, e, want, stage, target, kind):
    import ZConfig
    if e is None:
        res.violate("faulted-text-accepted", case, "rejection", "accepted",
                    detail="kind=%s files=%r" % (kind, case["files"]))
        return
    if not isinstance(e, ZConfig.ConfigurationError):
        res.violate("non-configuration-error", case, "configuration error",
                    "%s: %s" % (type(e).__name__, e),
                    detail="kind=%s files=%r" % (kind, case["files"]),
                    vsig="nce|%s|%s" % (kind, type(e).__name__))
        return
    got = (getattr(e, "lineno", None), getattr(e, "url", None) or None)
    if got not in want:
        mech = None
        res.violate("wrong-position", case, [list(w) for w in want],
                    list(got),
                    detail="kind=%s error=%s: %s files=%r"
                    % (kind, type(e).__name__, e, case["files"]),
                    mechanism=mech,
                    vsig="pos|%s|%s|%s|%s" % (
                        kind, type(e).__name__,
                        "nolineno" if got[0] in (None, -1) else "line",
                        "nourl" if not got[1] else "url"))
        return
    if stage == "sectionconv":
        ex = getattr(e, "exception", None)
        ok = (isinstance(e, ZConfig.DataConversionError)
              and type(ex) is ValueError and str(ex) == "marker is bad"
              and hasattr(getattr(e, "value", None), "getSectionAttributes"))
        if not ok:
            res.violate("conversion-error-lacks-details", case,
                        {"class": "DataConversionError",
                         "exception": "ValueError('marker is bad')",
                         "value": "the section value"},
                        {"class": type(e).__name__,
                         "exception": repr(ex)[:120],
                         "value": repr(getattr(e, "value", None))[:80]},
                        detail="kind=%s files=%r" % (kind, case["files"]),
                        vsig="sectionconv|%s" % type(ex).__name__)
        return
    if stage in ("keyconv", "valueconv"):
        text = target[1] if stage == "keyconv" else target[2]
        if stage == "valueconv" and case.get("expanded_value") is not None:
            text = case["expanded_value"]
            res.count("offending_text_via_substitution")
        ok = (isinstance(e, ZConfig.DataConversionError)
              and getattr(e, "value", None) == text
              and isinstance(getattr(e, "exception", None), Exception))
        orig = None
        if ok and case.get("conv_datatype"):
            # "the original exception": what the datatype itself raises
            # for that text (class and arguments)
            from ZConfig import datatypes
            try:
                datatypes.Registry().get(case["conv_datatype"])(text)
            except Exception as o:  # noqa
                orig = o
            res.hook("original_exception_compared")
            if orig is not None:
                ex = e.exception
                ok = type(ex) is type(orig) and ex.args == orig.args
        if not ok:
            res.violate("conversion-error-lacks-details", case,
                        {"class": "DataConversionError", "value": text,
                         "exception": repr(orig)},
                        {"class": type(e).__name__,
                         "value": repr(getattr(e, "value", None)),
                         "exception": repr(getattr(e, "exception", None))},
                        detail="kind=%s files=%r" % (kind, case["files"]))


def run_shard(ctx):
    rng = ctx.rng("faults")
    # (a directory whose name holds characters that are quoted in a URL:
    # a file opened by a relative name gets the URL of its absolute path)
    dirpath = os.path.join(ctx.tmp, "c08 d#1 ?q %41 \u00e9")
    for p in cc.pairs(ctx, N_MODELS[ctx.tier], TEXTS[ctx.tier],
                      fault_plan=lambda r: 0, p_bad_value=0.0,
                      augment=augment):
        judge(ctx, p, rng, dirpath)


def replay(ctx, case):
    import ZConfig
    schema = cc.load_schema(family.render_xml(case["model"]))
    d = os.path.join(ctx.tmp, "c08r")
    for rel, text in case["files"].items():
        fp = os.path.join(d, *rel.split("/"))
        os.makedirs(os.path.dirname(fp), exist_ok=True)
        with open(fp, "w") as f:
            f.write(text)
    if case.get("mode") in ("fobj", "fobj-rel", "fobj-bytes"):
        e = observe_open_file(schema, os.path.join(d, "b", "main.conf"),
                              case["mode"] == "fobj-rel",
                              case["mode"] == "fobj-bytes")
    else:
        e = observe(schema, os.path.join(d, "b", "main.conf"))
    # expected positions were recorded with the original scratch directory;
    # rebase them
    want = []
    for ln, url in case["expected_positions"]:
        tail = url.split("/c08/", 1)[-1]
        want.append((ln, file_url(os.path.join(d, *tail.split("/")))))
    if e is None or not isinstance(e, ZConfig.ConfigurationError) or \
            (getattr(e, "lineno", None), getattr(e, "url", None)) not in want:
        ctx.res.violate("wrong-position", case, [list(w) for w in want],
                        [getattr(e, "lineno", None), getattr(e, "url", None),
                         type(e).__name__])
