"""C04 — $-substitution computes exactly the documented replacement function.

Oracle: ref.refsubst (independent scanner) vs ZConfig.substitution.substitute
and isname, on exhaustively enumerated strings over the class alphabet under
every defined/undefined assignment of the names they reference, plus random
Unicode strings.
"""

import itertools
import os

from ..ref import refsubst

ID = "C04"
LEVEL = "exploration"
TECHNIQUE = ("runtime monitoring: reference substitution scanner vs "
             "substitute()/isname() on bounded-exhaustive strings under "
             "every defined/undefined assignment in both namespaces, plus "
             "random Unicode strings")
LEVEL_TEXT = ("Every string of the bounded alphabet space is executed "
              "through the real function under every assignment of its "
              "names (mapping and environment, separately and crossed) and "
              "compared with an independent scanner: result text, error "
              "class, the name and source carried by the error.  Exhaustive "
              "within the bound, a sample beyond.")
RULE = ("exhaustive strings over {$ { } ( ) a B _ 1 -} up to the tier's "
        "length bound (quick 5, thorough 7), each under every "
        "defined/undefined assignment (<=8) of the names it references with "
        "values that themselves contain '$' constructs, environment "
        "variables set or unset in-process; plus random strings <=200 over "
        "full Unicode; plus isname on all strings <=5 and random Unicode. "
        "A case is non-trivial when the string contains '$'; "
        "distinct_nontrivial counts distinct (token-shape, error kind, "
        "outcome kind) signatures observed among those.")
ASSUMPTIONS = [
    "reference scanner zcverif/ref/refsubst.py encodes the documented "
    "function; names are ASCII ([A-Za-z_][A-Za-z0-9_]*) as the docs' pattern "
    "says, the only reading under which the statement holds for the pinned "
    "tree: a non-ASCII letter or digit is never part of a name",
    "the name carried by the replacement error is compared "
    "case-insensitively for $name / ${name} (the statement does not fix "
    "its case) and exactly for $(NAME), whose case is significant",
]
FLOORS = {"quick": {"judged": 100000, "judged_isname": 10000},
          "thorough": {"judged": 10000000, "judged_isname": 100000}}

ALPHABET = "${}()aB_1-"
VALUES = ["X", "", "$a", "$$", "${", "v w", "$(B)"]
BOUND = {"quick": 5, "thorough": 7}
RANDOM = {"quick": 12000, "thorough": 1000000}


def shards(tier):
    return 8 if tier == "quick" else 16


class GetOnly:
    """'a dict or any type that supports the get() method of the mapping
    protocol' (substitute's own description of its second argument)."""

    def __init__(self, d):
        self._d = d

    def get(self, key, default=None):
        return self._d.get(key, default)


class Scoped(dict):
    """A dict subclass whose get() also consults an enclosing scope."""

    def __init__(self, outer):
        dict.__init__(self)
        self.outer = outer

    def get(self, key, default=None):
        if key in self:
            return self[key]
        return self.outer.get(key, default)


class Lazy:
    """A mapping that works out its values on demand and uses ZConfig's
    own substitution for that (nested definitions expanded lazily): every
    get() runs substitute() on another string first."""
    calls = 0

    def __init__(self, d):
        self._d = d

    def get(self, key, default=None):
        v = self._d.get(key, default)
        if not Lazy.busy:
            Lazy.busy = True
            try:
                from ZConfig.substitution import substitute
                Lazy.calls += 1
                if substitute("pre-$$-${in}-$In.x", {"in": "NESTED"}) != \
                        "pre-$-NESTED-NESTED.x":
                    raise RuntimeError("nested substitute() broken")
            finally:
                Lazy.busy = False
        return v


Lazy.busy = False
MAPPING_KINDS = ["dict", "get-only", "scoped", "proxy", "chain", "lazy"]


def as_kind(mapping, kind):
    if kind == "get-only":
        return GetOnly(mapping)
    if kind == "lazy":
        return Lazy(mapping)
    if kind == "scoped":
        return Scoped(mapping)
    if kind == "proxy":
        import types
        return types.MappingProxyType(mapping)
    if kind == "chain":
        import collections
        return collections.ChainMap({}, mapping)
    return mapping


def observe(substitute, ZConfig, s, mapping, kind="dict"):
    mapping = as_kind(mapping, kind)
    try:
        r = substitute(s, mapping)
    except ZConfig.SubstitutionReplacementError as e:
        return ("missing", getattr(e, "name", None),
                getattr(e, "source", None))
    except ZConfig.SubstitutionSyntaxError:
        return ("syntax",)
    except Exception as e:  # noqa
        return ("internal", type(e).__name__, str(e)[:100])
    return ("ok", r)


def agree(exp, obs, s):
    if exp[0] == "ok":
        return obs[0] == "ok" and obs[1] == exp[1] and isinstance(obs[1], str)
    if exp[0] == "syntax":
        return obs[0] == "syntax"
    if exp[0] == "missing":
        if not (obs[0] == "missing" and isinstance(obs[1], str)
                and obs[2] == s):
            return False
        if exp[2] == "env":
            # an environment variable's name is case-sensitive: the error
            # names the variable that is missing, as written
            return obs[1] == exp[1]
        # a define-style name: as written or lower-cased, both name it
        return obs[1].lower() == exp[1].lower()
    return False


def assignments(dnames, enames, rng=None):
    """Yield (mapping, env) pairs: every defined/undefined subset of up to
    three names (a sample of 8 beyond that), values rotating through VALUES."""
    allnames = [("d", n) for n in dnames] + [("e", n) for n in enames]
    k = len(allnames)
    if k == 0:
        yield {}, {}
        return
    if k <= 3:
        masks = range(1 << k)
    else:
        full = (1 << k) - 1
        masks = {0, full}
        while len(masks) < 8:
            masks.add(rng.randrange(1 << k) if rng else (len(masks) * 37)
                      & full)
        masks = sorted(masks)
    for mask in masks:
        mapping, env = {}, {}
        for idx, (kind, n) in enumerate(allnames):
            if mask >> idx & 1:
                v = VALUES[(mask + idx * 3) % len(VALUES)]
                if kind == "d":
                    mapping[n] = v
                else:
                    env[n] = v
        yield mapping, env
        # the same assignment with every name ALSO (or ONLY) present in the
        # other namespace: '$name' must never see the environment and
        # '$(NAME)' never the mapping
        for also in (True, False):
            m2 = dict(mapping) if also else {}
            e2 = dict(env) if also else {}
            for idx, (kind, n) in enumerate(allnames):
                v = "OTHER%d" % idx
                if kind == "d":
                    e2[n] = v
                    e2[n.upper()] = v
                else:
                    m2[n.lower()] = v
            if not also:
                # undefined in its own namespace, defined in the other one
                for kind, n in allnames:
                    if kind == "d":
                        m2.pop(n, None)
                    else:
                        e2.pop(n, None)
                        # ... and set in the environment under the other
                        # spellings of its name only: an environment
                        # variable's name is taken as written
                        for sp in (n.upper(), n.lower(), n.swapcase()):
                            if sp != n and sp not in enames:
                                e2[sp] = "OTHER-CASE"
            yield m2, e2


class EnvPatch:
    """Set exactly the given variables for the referenced names, restore."""

    def __init__(self, enames, env):
        self.enames = enames
        self.env = env

    count = 0

    def __enter__(self):
        EnvPatch.count += 1
        self.replaced = None
        if EnvPatch.count % 4 == 0:
            # the way test fixtures and sandboxes do it: os.environ itself
            # is exchanged for another mapping for the duration
            self.replaced = os.environ
            new = dict(os.environ)
            for n in self.enames:
                if n in self.env:
                    new[n] = self.env[n]
                else:
                    new.pop(n, None)
            os.environ = new
            return
        self.saved = {n: os.environ.get(n) for n in self.enames}
        for n in self.enames:
            if n in self.env:
                os.environ[n] = self.env[n]
            else:
                os.environ.pop(n, None)

    def __exit__(self, *a):
        if self.replaced is not None:
            os.environ = self.replaced
            return
        for n, v in self.saved.items():
            if v is None:
                os.environ.pop(n, None)
            else:
                os.environ[n] = v


def check_string(ctx, substitute, ZConfig, s, rng=None, family="enum"):
    res = ctx.res
    dnames, enames = refsubst.names(s)
    nontrivial = "$" in s
    # decoys: keys spelled as written (or upper-cased); the lookup uses the
    # lower-cased name, so they must never be found
    toks, _, _ = refsubst.scan(s)
    decoys = {}
    for t in toks:
        if t[0] == "ref" and t[1] != "env":
            for sp in (t[2], t[2].upper()):
                if sp != sp.lower():
                    decoys[sp] = "DECOY"
    for mapping, env in assignments(dnames, enames, rng):
        if decoys:
            mapping = dict(decoys, **mapping)
        res.evaluations += 1
        exp = refsubst.subst(s, mapping, env)
        touched = sorted(set(enames) | set(env))
        # the mapping is whatever supports get(): rotate the kinds
        kind = MAPPING_KINDS[res.evaluations % len(MAPPING_KINDS)] \
            if dnames else "dict"
        if kind != "dict":
            res.count("mapping_" + kind)
        if touched:
            with EnvPatch(touched, env):
                obs = observe(substitute, ZConfig, s, mapping, kind)
        else:
            obs = observe(substitute, ZConfig, s, mapping, kind)
        case = {"op": "substitute", "s": s, "mapping": mapping, "env": env,
                "mapping_kind": kind}
        if exp[0] == "unjudged":
            res.count("unjudged")
            res.sample("unjudged", case, 1)
            if obs[0] == "internal":
                res.violate("internal-exception", case, "no internal error",
                            obs)
            continue
        res.count("judged")
        res.count("expect_" + exp[0])
        if nontrivial:
            res.sig("%s|%s" % (refsubst.shape(s), exp[0]))
            res.sample(family + "-" + exp[0],
                       dict(case, expected=list(exp)), 1)
        ok = agree(exp, obs, s)
        if ok and not nontrivial and obs[1] is not s:
            # "a string without '$' is returned as is"
            res.count("identity_copies")
            ok = obs[1] == s
        if not ok:
            res.violate("substitute-disagrees", case, list(exp), list(obs),
                        detail="substitute(%r, %r) env=%r" % (s, mapping,
                                                               env),
                        vsig="subst|%s|%s|%s" % (exp[0], obs[0],
                                                 refsubst.shape(s)))


def check_isname(ctx, isname_impl, s):
    res = ctx.res
    res.evaluations += 1
    exp = refsubst.isname(s)
    try:
        obs = isname_impl(s)
    except Exception as e:  # noqa
        obs = "raised " + type(e).__name__
    if exp is None:
        res.count("unjudged_isname")
        return
    res.count("judged_isname")
    if exp:
        res.count("isname_true")
    if obs is not exp:
        res.violate("isname-disagrees", {"op": "isname", "s": s}, exp, obs,
                    detail="isname(%r)" % s, vsig="isname|%s" % exp)


def enum_strings(ctx, bound):
    """All strings over ALPHABET up to *bound*, partitioned over shards by
    their first three characters."""
    if ctx.shard == 0:
        for n in range(0, min(3, bound + 1)):
            for t in itertools.product(ALPHABET, repeat=n):
                yield "".join(t)
    prefixes = list(itertools.product(ALPHABET, repeat=3))
    for pi, pre in enumerate(prefixes):
        if not ctx.mine(pi):
            continue
        pre = "".join(pre)
        for n in range(0, bound - 3 + 1):
            for t in itertools.product(ALPHABET, repeat=n):
                yield pre + "".join(t)


_TOKENS = ["$", "$$", "${", "}", "$(", ")", "$a", "$B_1", "${a}", "${Xy}",
           "$(ZCV_e)", "$(zcv_E)", " ", "-", "{", "(", "a", "1", "_",
           "é", "ß", "中", "٣", " ", "\U0001f600",
           "\n", "\t", "$é", "${é}", "$aé", "\0", "\x01", "\ue000"]


def random_string(rng):
    n = rng.randint(0, 40)
    parts = []
    total = 0
    for _ in range(n):
        r = rng.random()
        if r < 0.6:
            p = rng.choice(_TOKENS)
        elif r < 0.8:
            p = chr(rng.choice([rng.randint(32, 126), rng.randint(160, 0x24f),
                                rng.randint(0x370, 0x3ff),
                                rng.randint(0x4e00, 0x4eff),
                                rng.randint(0x10000, 0x100ff)]))
        else:
            p = "".join(rng.choice("abcXYZ_019") for _ in
                        range(rng.randint(1, 6)))
        total += len(p)
        if total > 200:
            break
        parts.append(p)
    return "".join(parts)


# characters that are letters/digits for Unicode-aware or case-insensitive
# patterns but not for the documented ASCII name pattern; the first four
# case-fold into ASCII letters
_FOREIGN = ["\u212a", "\u017f", "\u0130", "\u0131", "\u2126", "\u212b",
            "\xe9", "\xdf", "\u01c5", "\uff11", "\u0663", "\xb2", "\xaa",
            "\xb5", "\u4e2d", "\uff41", "\u0391", "\u203f", "\uff3f",
            # ASCII neighbours of A-Z, a-z, 0-9 (a class written 'A-z')
            "[", "\\", "]", "^", "`", "@", "|", "/", ":",
            # characters an implementation might use as private markers
            "\0", "\x01", "\x7f", "\ufffe", "\uffff", "\ue000"]
_BOUNDARY = ["$%s", "${%s}", "$(%s)", "$a%s", "${a%s}", "$(a%s)", "$a%s b",
             "$%sa", "${%sa}", "$(%sa)", "x$_%s", "$a1%s$a", "$$%s", "$a%s}",
             "${a}%s", "$A%s", "$a\n", "${a}\n", "$a%s\n", "%s$a",
             "$$%s$$", "%s$$", "$$x%s", "%s"]


def boundary_strings():
    for f in _FOREIGN:
        for t in _BOUNDARY:
            yield t.replace("%s", f)
    # names are "taken maximally", however long they are
    for n in (15, 16, 17, 31, 32, 33, 63, 64, 65, 66, 127, 128, 129, 255,
              256, 257, 1000, 5000):
        for first in ("a", "_", "Z"):
            name = (first + "b1_Q" * (n // 4 + 1))[:n]
            for t in ("$%s", "${%s}", "$(%s)", "x $%s.y", "${%s}${%s}",
                      "$%s-$%s", "$(%s)$%s"):
                yield t.replace("%s", name)


def run_shard(ctx):
    import ZConfig
    from ZConfig.substitution import isname, substitute
    bound = BOUND[ctx.tier]
    # name boundaries next to non-ASCII letters and digits (every shard
    # takes its share)
    for bi, s in enumerate(boundary_strings()):
        if ctx.mine(bi):
            check_string(ctx, substitute, ZConfig, s, family="boundary")
            ctx.res.count("boundary_strings")
    for n in (31, 32, 33, 63, 64, 65, 255, 256, 257, 5000):
        if ctx.mine(n):
            check_isname(ctx, isname, "a" * n)
            check_isname(ctx, isname, "_" + "9" * (n - 1))
            check_isname(ctx, isname, "a" * n + "-")
    for fi, f in enumerate(_FOREIGN):
        if ctx.mine(fi):
            for t in ("%s", "a%s", "%sa", "_%s", "a%s1", "a\n", "%s\n"):
                check_isname(ctx, isname, t.replace("%s", f))
    for s in enum_strings(ctx, bound):
        check_string(ctx, substitute, ZConfig, s)
    rng = ctx.rng("random")
    for i in range(RANDOM[ctx.tier] // ctx.nshards):
        s = random_string(rng)
        check_string(ctx, substitute, ZConfig, s, rng, family="random")
        ctx.res.count("random_strings")
    # isname
    ib = 5 if ctx.tier == "thorough" else 4
    for s in enum_strings(ctx, ib):
        check_isname(ctx, isname, s)
    for i in range(RANDOM[ctx.tier] // ctx.nshards // 4):
        r = rng.random()
        if r < 0.5:
            s = "".join(rng.choice("aZ_09é-. \n$") for _ in
                        range(rng.randint(0, 8)))
        else:
            s = random_string(rng)[:10]
        check_isname(ctx, isname, s)
    ctx.res.info["bounds"] = {"alphabet": ALPHABET, "max_len": bound,
                              "isname_max_len": ib,
                              "random_strings": RANDOM[ctx.tier]}


def finalize(m, tier):
    return {"exhaustive": True,
            "exhaustive_scope": "all strings over the 10-symbol alphabet up "
            "to length %d x every defined/undefined assignment of <=3 "
            "referenced names; the random Unicode part is a sample"
            % BOUND[tier]}


def replay(ctx, case):
    import ZConfig
    from ZConfig.substitution import isname, substitute
    if case.get("op") == "isname":
        check_isname(ctx, isname, case["s"])
        return
    s = case["s"]
    mapping, env = case["mapping"], case["env"]
    _, enames = refsubst.names(s)
    enames = sorted(set(enames) | set(env))
    exp = refsubst.subst(s, mapping, env)
    with EnvPatch(enames, env):
        obs = observe(substitute, ZConfig, s, mapping,
                      case.get("mapping_kind", "dict"))
    if exp[0] != "unjudged" and not agree(exp, obs, s):
        ctx.res.violate("substitute-disagrees", case, list(exp), list(obs))
