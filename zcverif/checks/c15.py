"""C15 — the result of a load does not depend on how the text is laid out.

Metamorphic monitor: outcome(original) must equal outcome(rewritten) for
compositions of the listed layout rewrites; both sides are decided by the
real loader.
"""

import io
import os

from . import conf_common as cc
from ..gen import family, overrides, rewrites, texts
from ..mon import outcome

ID = "C15"
LEVEL = "exploration"
TECHNIQUE = ("runtime monitoring: metamorphic comparator (outcome invariant "
             "under layout rewrites) over generated texts for the schema "
             "family, the logger component and the basic mapping component")
RULE = ("texts of the C01 corpus (valid and faulted; 40% with values moved "
        "into %define'd names) plus generated texts for the shipped logger "
        "and basic-mapping components; each rewritten by a composition of "
        "1..5 of {re-indent, trailing whitespace, blank lines, comment "
        "lines, case of section types / section names / keys under a "
        "case-insensitive key type / defined names and references, "
        "<t/> <-> <t></t>, reordering key lines within a section keeping "
        "the order of repeated keys, sections and directives}, 3 rewrites "
        "per text.  Non-trivial = the rewritten text differs from the "
        "original; distinct_nontrivial = distinct (corpus, rewrite set, "
        "outcome) signatures.")
LEVEL_TEXT = ("Each (original, rewritten) pair is loaded with the real "
              "loader on both sides and the canonical value trees (or the "
              "fact of rejection) are compared; no reference model is "
              "involved, so a model error cannot mask or fake a violation.")
ASSUMPTIONS = [
    "values are never rewritten; keys are re-cased only under basic-key "
    "and ipaddr-or-hostname key types; key lines are not moved across "
    "directive lines",
    "'the fact of rejection' = any exception leaving the load (which "
    "exception is C07/C08's subject)",
]
FLOORS = {"quick": {"compared": 15000, "compared_ok": 5000,
                    "compared_reject": 2000, "logger_compared": 300,
                    "mapping_compared": 300},
          "thorough": {"compared": 1500000, "compared_ok": 500000,
                       "compared_reject": 800000, "logger_compared": 100000,
                       "mapping_compared": 100000}}
N_MODELS = {"quick": 800, "thorough": 40000}
TEXTS = {"quick": 8, "thorough": 20}
N_COMPONENT = {"quick": 800, "thorough": 160000}

LOGGER_SCHEMA = """<schema>
  <import package='ZConfig.components.logger'/>
  <section type='eventlog' name='*' attribute='eventlog'/>
  <multisection type='logger' name='*' attribute='loggers'/>
</schema>"""
MAPPING_SCHEMA = """<schema>
  <import package='ZConfig.components.basic' file='mapping.xml'/>
  <sectiontype name='my-map' extends='ZConfig.basic.mapping'/>
  <sectiontype name='id-map' extends='ZConfig.basic.mapping'
               keytype='identifier'/>
  <multisection type='my-map' name='*' attribute='maps'/>
  <section type='id-map' name='ids' attribute='ids'/>
</schema>"""


def shards(tier):
    return 16


def load_as(ctx, schema, text, entry, specs):
    if entry == "path":
        try:
            text.encode("utf-8")
        except UnicodeError:
            return outcome.load_text(schema, text)
        path = os.path.join(ctx.tmp, "c15 layout.conf")
        outcome.write_text(path, text)
        return outcome.load_path(schema, path)
    if entry == "override":
        return outcome.load_text(schema, text, overrides=specs)
    return outcome.load_text(schema, text)


def attr_orders(config):
    """getSectionAttributes() of every section value, in traversal order."""
    out = []
    seen = set()

    def rec(v):
        if id(v) in seen:
            return
        if isinstance(v, (list, tuple)):
            for x in v:
                rec(x)
        elif isinstance(v, dict):
            for k in v:
                rec(v[k])
        elif outcome.is_wrapped(v):
            rec(v.section)
        elif hasattr(v, "getSectionAttributes"):
            seen.add(id(v))
            names = list(v.getSectionAttributes())
            out.append(names)
            for a in names:
                rec(getattr(v, a, None))
    rec(config)
    return out


def compare(ctx, schema, corpus, base_text, root, case_extra, n_rewrites=3,
            ovr=None):
    res = ctx.res
    rng = ctx.rng("rw", res.evaluations)
    # both texts are read the same way: from a string, from a file named by
    # its path, or under one and the same list of command-line overrides
    entry, specs = "text", None
    r = rng.random()
    if r < 0.25:
        entry = "path"
    elif r < 0.45 and ovr is not None and \
            overrides.section_children(ovr[1]) is not None:
        specs = []
        for _ in range(rng.randint(1, 3)):
            sp, _i = overrides.gen_spec(rng, ovr[0], ovr[1], 0.0, 0.0, 0.0)
            if sp is not None:
                specs.append(sp)
        if specs:
            entry = "override"
    res.count("read_as_" + entry)
    o0 = load_as(ctx, schema, base_text, entry, specs)
    for _ in range(n_rewrites):
        res.evaluations += 1
        text, kinds = rewrites.rewrite(rng, root)
        if text == base_text:
            res.count("identical_rewrite")
            continue
        o1 = load_as(ctx, schema, text, entry, specs)
        case_extra = dict(case_extra, entry=entry, overrides=specs)
        res.count("compared")
        res.count(corpus + "_compared")
        res.count("compared_" + o0[0])
        res.sig("%s|%s|%s" % (corpus, "+".join(kinds), o0[0]))
        case = dict(case_extra, original=base_text, rewritten=text,
                    kinds=kinds, corpus=corpus)
        res.sample("%s-%s" % (corpus, o0[0]), case, 1)
        k0 = o0[:2] if o0[0] == "ok" else ("reject",)
        k1 = o1[:2] if o1[0] == "ok" else ("reject",)
        if k0 == k1 and o0[0] == "ok":
            # the sequence in which a section value lists its attributes
            # does not depend on the order of the lines either
            a0, a1 = attr_orders(o0[3][0]), attr_orders(o1[3][0])
            res.count("attribute_orders_compared")
            if a0 != a1:
                res.violate("attribute-order-changed-by-layout", case,
                            a0[:6], a1[:6],
                            detail="kinds=%s original=%r rewritten=%r"
                            % (kinds, base_text, text),
                            vsig="attrorder|%s" % "+".join(kinds))
        if k0 != k1:
            res.violate(
                "outcome-changed-by-layout", case,
                list(o0[:2]) if o0[0] == "ok" else list(o0[:6]),
                list(o1[:2]) if o1[0] == "ok" else list(o1[:6]),
                detail="kinds=%s original=%r rewritten=%r" % (kinds,
                                                              base_text,
                                                              text),
                vsig="layout|%s|%s|%s" % (o0[0], o1[0], "+".join(kinds)))


def logger_tree(rng, tmp):
    root = texts.mknode()
    root["_ci"] = True
    root["_kt"] = "basic-key"

    def handler_node():
        kind = rng.random()
        if kind < 0.75:
            n = texts.mknode("logfile", rng.choice([None, "h1", "Out"]))
            path = rng.choice(["STDOUT", "STDERR", tmp + "/x.log"])
            n["items"].append(["k", "path", path])
            if rng.random() < 0.5:
                n["items"].append(["k", "level", rng.choice(
                    ["debug", "INFO", "Warn", "error", "25", "all",
                     "bogus"])])
            if rng.random() < 0.5:
                n["items"].append(["k", "format", rng.choice(
                    ["%(message)s", "%(levelname)s  %(name)s %(message)s",
                     "%(asctime)s $$ %(message)s", "%(nosuch)s"])])
            if rng.random() < 0.3:
                n["items"].append(["k", "dateformat", "%H:%M"])
            if path not in ("STDOUT", "STDERR") and rng.random() < 0.4:
                n["items"].append(["k", "max-size", rng.choice(["1mb",
                                                                 "10kb"])])
                if rng.random() < 0.7:
                    n["items"].append(["k", "old-files", "3"])
            if rng.random() < 0.2:
                n["items"].append(["k", "delay", rng.choice(["yes", "no"])])
        elif kind < 0.9:
            n = texts.mknode("syslog")
            if rng.random() < 0.5:
                n["items"].append(["k", "facility", rng.choice(
                    ["user", "Local3", "nope"])])
            n["items"].append(["k", "address", rng.choice(
                ["localhost:514", "/dev/log"])])
        else:
            n = texts.mknode("http-logger")
            n["items"].append(["k", "url", "http://localhost:8080/log"])
            n["items"].append(["k", "method", rng.choice(["get", "POST"])])
        n["_ci"] = True
        n["_kt"] = "basic-key"
        return n

    def logger_node(t):
        n = texts.mknode(t)
        n["_ci"] = True
        n["_kt"] = "basic-key"
        if rng.random() < 0.7:
            n["items"].append(["k", "level", rng.choice(
                ["info", "DEBUG", "blather", "notset", "10", "51"])])
        if t == "logger":
            n["items"].append(["k", "name", rng.choice(
                ["app", "app.sub", "zcv.X", "bad name"])])
            if rng.random() < 0.4:
                n["items"].append(["k", "propagate", rng.choice(
                    ["yes", "no", "False"])])
        for _ in range(rng.randint(0, 3)):
            n["items"].append(["s", handler_node()])
        return n
    if rng.random() < 0.7:
        root["items"].append(["s", logger_node("eventlog")])
    for _ in range(rng.randint(0, 2)):
        root["items"].append(["s", logger_node("logger")])
    if rng.random() < 0.1:
        root["items"].append(["k", "stray", "v"])
    return root


def mapping_tree(rng):
    root = texts.mknode()
    root["_ci"] = True
    root["_kt"] = "basic-key"
    for _ in range(rng.randint(0, 3)):
        n = texts.mknode("my-map", rng.choice([None, "m1", "M2", "m3"]))
        n["_ci"] = True
        n["_kt"] = "basic-key"
        for _ in range(rng.randint(0, 5)):
            n["items"].append(["k", rng.choice(
                ["alpha", "Alpha", "beta", "b-2", "c.d", "1bad"]),
                rng.choice(["v", "", "a  b", "x$$y", "(p)"])])
        root["items"].append(["s", n])
    if rng.random() < 0.6:
        n = texts.mknode("id-map", "ids")
        n["_ci"] = False
        n["_kt"] = "identifier"
        for _ in range(rng.randint(0, 4)):
            n["items"].append(["k", rng.choice(
                ["alpha", "Alpha", "beta_2", "b-2"]),
                rng.choice(["v", "", "w w"])])
        root["items"].append(["s", n])
    return root


_DOLLAR_SERIAL = [0]


def dollar_fault(rng, root):
    """Give one key a value with a malformed or undefined '$' construct
    (unique text each time): the text is rejected, and so must every
    re-laid-out copy of it be - values are never touched by a rewrite."""
    keys = []

    def walk(n):
        for it in n["items"]:
            if it[0] == "k":
                keys.append(it)
            elif it[0] == "s":
                walk(it[1])
    walk(root)
    if not keys:
        return False
    _DOLLAR_SERIAL[0] += 1
    n = _DOLLAR_SERIAL[0]
    rng.choice(keys)[2] = rng.choice(
        ["pre%d ${app%d", "x%d$", "$-%d", "a%d $(ZCV_NOPE%d", "${q%d}$ z",
         "$$ok%d ${", "$nosuchname%d", "${NoSuch%d}x", "v%d $(",
         # set in the environment, defined nowhere in the text
         "$ZCV_SET", "${ZCV_SET}", "$ZCV_SET"]) \
        .replace("%d", str(n))
    return True


def run_shard(ctx):
    drng = ctx.rng("definify")
    for p in cc.pairs(ctx, N_MODELS[ctx.tier], TEXTS[ctx.tier]):
        root = rewrites.annotate(p.res, p.tree)
        text = p.text
        if drng.random() < 0.4:
            if rewrites.definify(drng, root):
                text = texts.render(root)
                ctx.res.count("with_defines")
        if drng.random() < 0.1 and dollar_fault(drng, root):
            text = texts.render(root)
            ctx.res.count("with_dollar_fault")
        compare(ctx, p.schema, "family", text, root, {"model": p.model},
                ovr=(p.res, root))
    # shipped components
    lschema = cc.load_schema(LOGGER_SCHEMA)
    mschema = cc.load_schema(MAPPING_SCHEMA)
    rng = ctx.rng("components")
    for i in range(N_COMPONENT[ctx.tier] // ctx.nshards):
        root = logger_tree(rng, ctx.tmp)
        if rng.random() < 0.3:
            rewrites.definify(rng, root)
        compare(ctx, lschema, "logger", texts.render(root), root,
                {"schema": "logger"}, 2)
        root = mapping_tree(rng)
        if rng.random() < 0.3:
            rewrites.definify(rng, root)
        compare(ctx, mschema, "mapping", texts.render(root), root,
                {"schema": "mapping"}, 2)


def replay(ctx, case):
    if "model" in case:
        schema = cc.load_schema(family.render_xml(case["model"]))
    elif case.get("schema") == "logger":
        schema = cc.load_schema(LOGGER_SCHEMA)
    else:
        schema = cc.load_schema(MAPPING_SCHEMA)
    o0 = load_as(ctx, schema, case["original"], case.get("entry"),
                 case.get("overrides"))
    o1 = load_as(ctx, schema, case["rewritten"], case.get("entry"),
                 case.get("overrides"))
    k0 = o0[:2] if o0[0] == "ok" else ("reject",)
    k1 = o1[:2] if o1[0] == "ok" else ("reject",)
    if k0 != k1:
        ctx.res.violate("outcome-changed-by-layout", case, list(o0[:2]),
                        list(o1[:2]))
