"""C02 — an accepted configuration yields exactly the typed value tree the
schema defines.

Oracle: ref.refmatch evaluation (expected canonical tree) vs a structural
walk of the object returned by loadConfigFile via getSectionAttributes().
"""

from . import conf_common as cc
from ..gen import rewrites, texts
from ..mon import outcome
from ..ref import refmatch

ID = "C02"
LEVEL = "exploration"
TECHNIQUE = ("runtime monitoring: reference evaluator builds the expected "
             "value tree; structural monitor walks the returned section "
             "values (attributes, types, names, order, defaults, wrapping)")
RULE = ("the accepted (schema, text) pairs of the C01 family (generator "
        "biased to valid texts), datatypes restricted to the 12 with a "
        "table-driven reference conversion plus two wrapping section "
        "datatypes.  Non-trivial = accepted text with at least one key or "
        "section; distinct_nontrivial = distinct (model features, shape of "
        "the expected tree) signatures.")
LEVEL_TEXT = ("Every accepted pair's returned object graph is compared "
              "attribute by attribute with the tree an independent "
              "evaluator derives from schema model and text: missing/extra "
              "attributes, wrong values, order, defaults, names, types and "
              "missing datatype application are observed directly.")
ASSUMPTIONS = [
    "zcverif/ref/refmatch.py evaluation rules (Appendix B) are what the "
    "schema 'defines'; scalar types are compared exactly (1, True, '1', 1.0 "
    "differ)",
]
FLOORS = {"quick": {"accepted_compared": 20000},
          "thorough": {"accepted_compared": 600000}}
HOOK_FLOORS = {"quick": {"reloaded_after_poisoning_result": 5000},
               "thorough": {"reloaded_after_poisoning_result": 100000}}
N_MODELS = {"quick": 1500, "thorough": 50000}
TEXTS = {"quick": 20, "thorough": 36}


def shards(tier):
    return 16


def tree_shape(v, depth=0):
    """Bounded structural signature of a canonical tree."""
    if v is None:
        return "N"
    tag = v[0]
    if tag == "S":
        inner = "".join(sorted(tree_shape(x, depth + 1)
                               for x in v[3].values()))[:24]
        return "S%s(%s)" % ("n" if v[2] else "", inner)
    if tag == "W":
        return "W" + tree_shape(v[2], depth)
    if tag == "list":
        return "L%d[%s]" % (min(len(v[1]), 3),
                            tree_shape(v[1][0], depth + 1) if v[1] else "")
    if tag == "dict":
        vals = list(v[1].values())
        return "D%d[%s]" % (min(len(vals), 3),
                            tree_shape(vals[0], depth + 1) if vals else "")
    return tag[0]


def first_diff(a, b, path=""):
    if type(a) != type(b):
        return path, a, b
    if isinstance(a, list):
        if len(a) != len(b):
            return path + "/len", a, b
        for i, (x, y) in enumerate(zip(a, b)):
            d = first_diff(x, y, "%s/%d" % (path, i))
            if d:
                return d
        return None
    if isinstance(a, dict):
        if set(a) != set(b):
            return path + "/keys", sorted(a), sorted(b)
        for k in a:
            d = first_diff(a[k], b[k], "%s/%s" % (path, k))
            if d:
                return d
        return None
    if a != b:
        return path, a, b
    return None


def judge(ctx, p, rng=None):
    judge_one(ctx, p, p.exp, p.obs, p.case())
    if rng is None or p.exp[0] != "accept" or p.obs[0] != "ok" or \
            rng.random() >= 0.15:
        return
    # the same text through the other ways in, and with its values moved
    # into %define'd names that the environment happens to have as well
    for label, exp, obs in cc.entry_variants(
            ctx, p, rng, [rng.choice(["path", "padded", "fobj", "fobj-bytes"])]):
        ctx.res.count("entry_" + label)
        judge_one(ctx, p, exp, obs, dict(p.case(), entry=label), False)
    if p.tree is not None:
        import copy
        root = copy.deepcopy(p.tree)
        if rewrites.definify(rng, root, 0.7):
            text = texts.render(root)
            ctx.res.count("with_defines")
            obs = outcome.load_text(p.schema, text)
            judge_one(ctx, p, refmatch.conform(p.res, text), obs,
                      dict(p.case(), text=text), False)


def judge_one(ctx, p, exp, obs, case, reload=True):
    res = ctx.res
    res.evaluations += 1
    if exp[0] != "accept":
        res.count("not_accepted_by_reference")
        return
    if obs[0] != "ok":
        # C01's subject; not judged here
        res.count("reference_accepts_but_rejected")
        res.sample("rejected", dict(case, error=list(obs[:6])), 3)
        return
    res.count("accepted_compared")
    res.sig(cc.model_features(p.model) + "|" + tree_shape(exp[1])[:60])
    res.sample("accepted", {"schema": p.xml, "text": p.text,
                            "expected_tree": exp[1]}, 2)
    d = first_diff(exp[1], obs[1])
    if d:
        res.violate("value-tree-differs", case,
                    {"at": d[0], "expected": d[1]},
                    {"at": d[0], "observed": d[2]},
                    detail="text=%r at %s expected %r observed %r"
                    % (case["text"], d[0], d[1], d[2]),
                    vsig="tree|%s|%s" % (d[0].split("/")[-1][:12],
                                         str(d[1])[:20]))
        return
    config = obs[3][0]
    extra = outcome.extra_public_attributes(config)
    if extra:
        res.violate("attributes-differ-from-declared", case, [],
                    [[list(map(str, a)), b] for a, b in extra],
                    detail="text=%r" % case["text"])
        return
    odd = outcome.odd_mappings(config)
    res.count("mappings_probed_with_an_absent_key")
    if odd:
        res.violate("mapping-does-not-behave-like-one", case, [], odd[:4],
                    detail="text=%r: %s" % (case["text"], odd[:2]),
                    vsig="oddmap|%s" % odd[0].split(":")[-1][:30])
        return
    # the application changes every list / mapping of the result in place,
    # then reads the same text again: the second tree must be the schema's
    # again (converted values or defaults remembered by reference show here)
    if reload and outcome.poison(config):
        res.hook("reloaded_after_poisoning_result")
        again = outcome.load_text(p.schema, p.text)
        d = (("", "accepted", again[:2]) if again[0] != "ok"
             else first_diff(exp[1], again[1]))
        if d:
            res.violate("value-tree-differs-on-reload", case,
                        {"at": d[0], "expected": d[1]},
                        {"at": d[0], "observed": d[2]},
                        detail="after the first result was modified in "
                        "place: text=%r at %s expected %r observed %r"
                        % (case["text"], d[0], d[1], d[2]),
                        vsig="reload|%s|%s" % (d[0].split("/")[-1][:12],
                                               str(d[1])[:20]))


def fault_plan(rng):
    r = rng.random()
    return 0 if r < 0.8 else 1


def run_shard(ctx):
    try:
        _run_shard(ctx)
    finally:
        # the wrapping section datatypes of the family load a schema and a
        # configuration of their own while the outer load is in progress
        import zcverif_dt.fam
        ctx.res.hook("nested_loads_from_datatypes",
                     zcverif_dt.fam.REENTRIES[0])


def _run_shard(ctx):
    rng = ctx.rng("entries")
    for p in cc.pairs(ctx, N_MODELS[ctx.tier], TEXTS[ctx.tier],
                      fault_plan=fault_plan, p_bad_value=0.01):
        judge(ctx, p, rng)


def replay(ctx, case):
    p = cc.replay_pair(case)
    if case.get("entry"):
        exp, obs = cc.replay_entry(ctx, p, case)
        judge_one(ctx, p, exp, obs, case, False)
    else:
        judge(ctx, p)
