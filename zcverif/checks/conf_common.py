"""Shared driver for the conformance engine (C01, C02, C16, C08 …):
iterate (schema model, text) pairs of the generated family."""

import io

from ..gen import family, texts
from ..mon import outcome
from ..ref import refmatch


def load_schema(xml):
    import ZConfig
    return ZConfig.loadSchemaFile(io.StringIO(xml))


def models_for(ctx, n_random, systematic=True, handlers=False,
               handler_density=None, augment=None):
    """Yield (index, origin, model) for this shard."""
    idx = 0
    if systematic:
        for m in family.systematic_models():
            idx += 1
            if ctx.mine(idx):
                if augment:
                    augment(m)
                yield idx, "systematic", m
    rng = ctx.rng("models")
    for i in range(n_random):
        idx += 1
        # every shard draws its own models: index only for bookkeeping
        if i % ctx.nshards != ctx.shard:
            continue
        mrng = ctx.rng("model", i)
        if i % 12 == 11:
            m = family.targeted_extends_model(mrng)
        else:
            m = family.random_model(mrng, handlers=handlers)
        if handler_density is not None:
            family.add_handlers(mrng, m, handler_density)
        if augment:
            augment(m)
        yield idx, "random", m


def why_slug(why):
    return "-".join(str(why).split()[:3]).replace("'", "")[:32]


def model_features(model):
    f = set()
    f.add("kt=" + (model.get("keytype") or "basic-key")[:5])
    if model.get("datatype"):
        f.add("topwrap")
    for t in model["types"]:
        if t["kind"] == "abstract":
            f.add("abs")
        else:
            if t.get("extends"):
                f.add("ext")
            if t.get("implements"):
                f.add("impl")
    return ",".join(sorted(f))


class Pair:
    """One (model, text) execution with both sides evaluated."""

    def __init__(self, model, res, schema, xml, tree, faults, text):
        self.model, self.res, self.schema, self.xml = model, res, schema, xml
        self.tree, self.faults, self.text = tree, faults, text
        self.exp = refmatch.conform(res, text)
        self.obs = outcome.load_text(schema, text)

    def case(self):
        return {"model": self.model, "text": self.text,
                "faults": [f["kind"] for f in self.faults]}


def pairs(ctx, n_random_models, texts_per_model, systematic=True,
          handlers=False, handler_density=None, p_bad_value=0.04,
          fault_plan=None, augment=None):
    """Yield Pair objects; schema-load failures are counted (generator or
    C10 problem) and skipped."""
    for idx, origin, model in models_for(ctx, n_random_models, systematic,
                                         handlers, handler_density,
                                         augment):
        xml = family.render_xml(model)
        try:
            schema = load_schema(xml)
        except Exception as e:  # noqa
            ctx.res.count("schema_load_failed")
            ctx.res.sample("schema-load-failed",
                           {"xml": xml, "error": "%s: %s"
                            % (type(e).__name__, e)}, 3)
            continue
        ctx.res.count("schemas")
        res = family.Resolved(model)
        trng = ctx.rng("texts", idx)
        for j in range(texts_per_model):
            nf = fault_plan(trng) if fault_plan else None
            tree, faults = texts.generate(trng, res, nf, p_bad_value)
            text = texts.render(tree)
            yield Pair(model, res, schema, xml, tree, faults, text)


def replay_pair(case):
    model = case["model"]
    xml = family.render_xml(model)
    schema = load_schema(xml)
    res = family.Resolved(model)
    return Pair(model, res, schema, xml, None, [], case["text"])
