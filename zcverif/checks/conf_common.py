"""Shared driver for the conformance engine (C01, C02, C16, C08 …):
iterate (schema model, text) pairs of the generated family."""

import io

from ..gen import family, texts
from ..mon import outcome
from ..ref import refmatch


SCHEMA_FORMS = ["str", "str", "str-declared-latin1", "bytes-utf16",
                "bytes-latin1", "str", "bytes-utf8", "pseudo-named"]
_SF = [0]
SCHEMA_FORM_COUNT = {}
_SHARED_LOADER = [None]


class PseudoNamed(io.StringIO):
    """A text stream with a placeholder name, as sys.stdin has."""
    name = "<stdin>"


def load_schema(xml):
    """The schema document reaches the loader as a str stream (with or
    without an encoding declaration, which means nothing for text that is
    decoded already), as bytes in UTF-8, UTF-16 or declared Latin-1, or
    from a stream with a placeholder name read by one long-lived
    SchemaLoader: the same schema every time."""
    import ZConfig
    import ZConfig.loader
    _SF[0] += 1
    form = SCHEMA_FORMS[_SF[0] % len(SCHEMA_FORMS)]
    if form == "bytes-latin1":
        try:
            data = ('<?xml version="1.0" encoding="iso-8859-1"?>\n' +
                    xml).encode("latin-1")
        except UnicodeEncodeError:
            form = "bytes-utf16"
    SCHEMA_FORM_COUNT[form] = SCHEMA_FORM_COUNT.get(form, 0) + 1
    if form == "str":
        return ZConfig.loadSchemaFile(io.StringIO(xml))
    if form == "str-declared-latin1":
        return ZConfig.loadSchemaFile(io.StringIO(
            '<?xml version="1.0" encoding="iso-8859-1"?>\n' + xml))
    if form == "bytes-utf16":
        return ZConfig.loadSchemaFile(io.BytesIO(xml.encode("utf-16")))
    if form == "bytes-utf8":
        return ZConfig.loadSchemaFile(io.BytesIO(xml.encode("utf-8")))
    if form == "bytes-latin1":
        return ZConfig.loadSchemaFile(io.BytesIO(data))
    if _SHARED_LOADER[0] is None:
        _SHARED_LOADER[0] = ZConfig.loader.SchemaLoader()
    return _SHARED_LOADER[0].loadFile(PseudoNamed(xml))


def models_for(ctx, n_random, systematic=True, handlers=False,
               handler_density=None, augment=None):
    """Yield (index, origin, model) for this shard."""
    idx = 0
    if systematic:
        for m in family.systematic_models():
            idx += 1
            if ctx.mine(idx):
                if augment:
                    augment(m)
                yield idx, "systematic", m
    rng = ctx.rng("models")
    for i in range(n_random):
        idx += 1
        # every shard draws its own models: index only for bookkeeping
        if i % ctx.nshards != ctx.shard:
            continue
        mrng = ctx.rng("model", i)
        if i % 12 == 11:
            m = family.targeted_extends_model(mrng)
        else:
            m = family.random_model(mrng, handlers=handlers)
        if handler_density is not None:
            family.add_handlers(mrng, m, handler_density)
        if augment:
            augment(m)
        yield idx, "random", m


def why_slug(why):
    return "-".join(str(why).split()[:3]).replace("'", "")[:32]


def model_features(model):
    f = set()
    f.add("kt=" + (model.get("keytype") or "basic-key")[:5])
    if model.get("datatype"):
        f.add("topwrap")
    for t in model["types"]:
        if t["kind"] == "abstract":
            f.add("abs")
        else:
            if t.get("extends"):
                f.add("ext")
            if t.get("implements"):
                f.add("impl")
    return ",".join(sorted(f))


class Pair:
    """One (model, text) execution with both sides evaluated."""

    def __init__(self, model, res, schema, xml, tree, faults, text):
        self.model, self.res, self.schema, self.xml = model, res, schema, xml
        self.tree, self.faults, self.text = tree, faults, text
        self.exp = refmatch.conform(res, text)
        self.obs = outcome.load_text(schema, text)

    def case(self):
        return {"model": self.model, "text": self.text,
                "faults": [f["kind"] for f in self.faults]}


def entry_variants(ctx, p, rng, want=("path", "padded", "fobj", "override")):
    """Yield (label, expected, observed) for the same pair reached through
    the other documented entry points: ZConfig.loadConfig on a path, the
    same with the text pushed beyond 64 KiB by comment lines, loadConfigFile
    on a real open file, and a load with command-line overrides (expected =
    conformance of the text edited as the override list denotes)."""
    import os
    from ..gen import overrides as ov
    try:
        p.text.encode("utf-8")
    except UnicodeError:
        return
    path = os.path.join(ctx.tmp, "entry.conf")
    for label in want:
        if label == "path":
            outcome.write_text(path, p.text)
            yield label, p.exp, outcome.load_path(p.schema, path)
        elif label == "padded":
            outcome.write_text(path, p.text, pad=rng.choice(
                [65536 - 40, 65536, 70000, 140000]))
            yield label, p.exp, outcome.load_path(p.schema, path)
        elif label == "fobj":
            outcome.write_text(path, p.text)
            yield label, p.exp, outcome.load_open_file(p.schema, path)
        elif label == "fobj-bytes":
            outcome.write_text(path, p.text)
            yield label, p.exp, outcome.load_open_file(p.schema, path,
                                                       bytes_name=True)
        elif label == "override":
            if p.tree is None or not ov.section_children(p.tree):
                continue
            specs, infos = ov.gen_specs(rng, p.res, p.tree)
            try:
                edited = texts.render(ov.apply_overrides(p.res, p.tree,
                                                         specs))
                exp = refmatch.conform(p.res, edited)
            except ov.NoSuchSection:
                exp = ("reject", "match", "override addresses no section")
            obs = outcome.load_text(p.schema, p.text, overrides=specs)
            yield "override " + repr(specs), exp, obs


def replay_entry(ctx, p, case):
    """(expected, observed) of a recorded entry-point variant."""
    import os
    import random
    from ..gen import overrides as ov
    from ..ref import refparse
    entry = case["entry"]
    if entry.startswith("override "):
        import ast
        specs = ast.literal_eval(entry[len("override "):])
        ev, out, _ = refparse.parse(p.text)
        top = texts.mknode()
        nodes = {0: top}
        for e in ev:
            if e[0] == "open":
                n = texts.mknode(e[3], e[4])
                nodes[e[1]] = n
                nodes[e[2]]["items"].append(["s", n])
            elif e[0] == "key":
                nodes[e[1]]["items"].append(["k", e[2],
                                             e[3].replace("$", "$$")])
        try:
            edited = texts.render(ov.apply_overrides(p.res, top, specs))
            exp = refmatch.conform(p.res, edited)
        except ov.NoSuchSection:
            exp = ("reject", "match", "override addresses no section")
        return exp, outcome.load_text(p.schema, p.text, overrides=specs)
    for lab, exp, obs in entry_variants(ctx, p, random.Random(0), [entry]):
        return exp, obs
    return p.exp, p.obs


def pairs(ctx, n_random_models, texts_per_model, systematic=True,
          handlers=False, handler_density=None, p_bad_value=0.04,
          fault_plan=None, augment=None):
    """Yield Pair objects; schema-load failures are counted (generator or
    C10 problem) and skipped."""
    for idx, origin, model in models_for(ctx, n_random_models, systematic,
                                         handlers, handler_density,
                                         augment):
        xml = family.render_xml(model)
        try:
            schema = load_schema(xml)
        except Exception as e:  # noqa
            ctx.res.count("schema_load_failed")
            ctx.res.sample("schema-load-failed",
                           {"xml": xml, "error": "%s: %s"
                            % (type(e).__name__, e)}, 3)
            continue
        ctx.res.count("schemas")
        res = family.Resolved(model)
        trng = ctx.rng("texts", idx)
        for j in range(texts_per_model):
            nf = fault_plan(trng) if fault_plan else None
            tree, faults = texts.generate(trng, res, nf, p_bad_value)
            text = texts.render(tree)
            yield Pair(model, res, schema, xml, tree, faults, text)


def replay_pair(case):
    model = case["model"]
    xml = family.render_xml(model)
    schema = load_schema(xml)
    res = family.Resolved(model)
    return Pair(model, res, schema, xml, None, [], case["text"])
