"""C09 — every stock datatype is a total function honouring its documented
contract.

Oracle: ref.refdt (independent reference conversions, hand-written automata)
against ``ZConfig.datatypes.Registry().get(<Mixed-Case-Name>)(string)`` for
every entry of ``stock_datatypes``.
"""

import itertools
import os
import unicodedata

from ..ref import refdt

ID = "C09"
LEVEL = "exploration"
RULE = ("per stock datatype: (a) every string up to the tier's length bound "
        "over an alphabet with one representative of each character class "
        "the type distinguishes (see coverage.bounds), (b) structured "
        "boundary families (numeric range endpoints, every letter-case "
        "variant of the keywords and suffixes, dotted quads from a pool of "
        "boundary octets, IPv6 texts built from group pools with every '::' "
        "position, host x port products for the address types, path "
        "component products against a fixture directory), (c) random Unicode "
        "strings and mutated valid exemplars.  A case is one (datatype, "
        "string) pair executed through the live registry; it is non-trivial "
        "when the reference judges it (accept with value / reject).  "
        "distinct_nontrivial counts distinct (datatype, expected outcome, "
        "run-collapsed character-class word of the string) signatures.")
LEVEL_TEXT = ("Bounded-exhaustive plus sampled comparison of each live "
              "converter with an independent reference; for the four "
              "regular-expression types the exhaustive part is a W-method "
              "conformance test of the live pattern against a hand-written "
              "automaton (thorough: all strings up to states+3).")
LEVEL_NOTE = ("Trusts zcverif/ref/refdt.py as the reading of "
              "docs/standard-datatypes.rst and of the property statement; "
              "says nothing about strings outside the bounds except through "
              "the random sample; language equivalence of the regex types "
              "holds against implementations with at most states+k states, "
              "not for every length.")
TECHNIQUE = ("runtime monitoring: differential execution against an "
             "independent reference model, bounded exhaustive enumeration, "
             "W-method conformance, idempotence and locale-restoration "
             "post-conditions")
ASSUMPTIONS = [
    "reference conversions in zcverif/ref/refdt.py encode the documented "
    "contracts; numbers are judged only in plain decimal shape "
    "(-?digits, and -?digits[.digits][e[+-]digits] for floats): surrounding "
    "white space, '_' separators, a leading '+', non-ASCII digits are "
    "unjudged because the documentation does not mention them; float "
    "inf/nan and literals overflowing to infinity are unjudged",
    "ipaddr-or-hostname: host-name grammar as in DESIGN.md (letter or '_', "
    "then letters/digits/'-'/'_'/'.', not ending in '.'); one-character "
    "names and octets with leading zeros are unjudged; anything that is "
    "not ASCII is refused (host names are ASCII); "
    "IPv6 validity is RFC 4291 section 2.2 decided by a hand-written parser",
    "inet/socket address types: white space, the empty string, brackets "
    "outside the [addr]:port form and a bare out-of-range number are "
    "unjudged; identifier family: non-ASCII identifier characters and "
    "Python keywords are unjudged; timedelta: upper-case unit letters, a "
    "repeated unit and magnitudes beyond datetime.timedelta are unjudged "
    "(but must still end in ValueError/TypeError); existing-*: '~' forms, "
    "dangling symlinks and a directory given to existing-file are unjudged",
    "locale and existing-* are decided against this machine's C library "
    "and a fixture directory created by the check",
    "totality (nothing but ValueError, or TypeError for timedelta) is "
    "checked on every executed case, judged or not",
]

NAMES = sorted(refdt.REFERENCE)
_NEVER_REJECT = ("string", "null", "string-list")

FLOORS = {
    "quick": dict({"judged": 3000000, "unjudged": 1000,
                   "random_strings": 100000},
                  **{n + ":accepted": 20 for n in NAMES},
                  **{n + ":rejected": 20 for n in NAMES
                     if n not in _NEVER_REJECT}),
    "thorough": dict({"judged": 30000000, "unjudged": 100000,
                      "random_strings": 5000000},
                     **{n + ":accepted": 100 for n in NAMES},
                     **{n + ":rejected": 100 for n in NAMES
                        if n not in _NEVER_REJECT}),
}
HOOK_FLOORS = {
    "quick": {"registry_get_mixed_case": 26, "idempotence_checked": 1000,
              "locale_restored": 100, "cross_talk_strings": 100},
    "thorough": {"registry_get_mixed_case": 26, "idempotence_checked": 100000,
                 "locale_restored": 1000, "cross_talk_strings": 100},
}

# (alphabet, quick bound, thorough bound)
_INET_A = ("aZ18:[].-", 5, 6)
_INET_B = ("a1:[]Z", 6, 8)
_SOCK_A = ("aZ18:[]./", 5, 6)
_TEXT = ("a \t\né\u00a0", 5, 6)
ENUM = {
    "basic-key": [("aZ0-._ \u20ac\n", 5, 6)],
    "identifier": [("aZ_0.- \u20ac\n", 5, 6)],
    "dotted-name": [("aZ_0.-\u20ac\n", 6, 7)],
    "dotted-suffix": [("aZ_0.-\u20ac\n", 6, 7)],
    "boolean": [("onfyesNO1 ", 5, 6)],
    "integer": [("019-+ _.ax\u0661", 5, 6)],
    "float": [("019.eE-+_ naifx", 5, 6)],
    "port-number": [("03569-+ a_", 6, 6)],
    "byte-size": [("01-+kKmgbB ", 5, 6)],
    "time-interval": [("01-+sSmhdD x", 5, 6)],
    "timedelta": [("01.-wdsmhxW e", 5, 6)],
    "inet-address": [_INET_A, _INET_B],
    "inet-binding-address": [_INET_A, _INET_B],
    "inet-connection-address": [_INET_A, _INET_B],
    "socket-address": [_SOCK_A],
    "socket-binding-address": [_SOCK_A],
    "socket-connection-address": [_SOCK_A],
    "ipaddr-or-hostname": [("01259afgZ_-.:", 5, 6), ("125.:a", 8, 9)],
    "string": [_TEXT],
    "null": [_TEXT],
    "string-list": [("a \t\né\u00a0\x1c", 5, 6)],
    "locale": [("CPOSIX.utf8- c", 3, 4)],
}
REGEX_TYPES = ("basic-key", "identifier", "dotted-name", "dotted-suffix")
RANDOM = {"quick": 10000, "thorough": 1000000}
RANDOM_SLOW = {"quick": 1000, "thorough": 20000}     # locale, existing-*
SLOW_TYPES = ("locale", "existing-directory", "existing-path",
              "existing-file", "existing-dirpath")
FIX = "{FIX}"

GROUP = {}
for _n in NAMES:
    GROUP[_n] = ("regex" if _n in REGEX_TYPES else
                 "number" if _n in ("integer", "float", "port-number",
                                    "byte-size", "time-interval",
                                    "timedelta", "boolean") else
                 "address" if ("address" in _n or "ipaddr" in _n) else
                 "environment" if _n in SLOW_TYPES else "text")


def shards(tier):
    return 16


def mixed_case(name):
    return "".join(c.upper() if i % 2 == 0 else c
                   for i, c in enumerate(name))


# ---------------------------------------------------------------------------
# observation and judgement


def observe(conv, s):
    try:
        v = conv(s)
    except ValueError:
        return ("ValueError",)
    except TypeError:
        return ("TypeError",)
    except Exception as e:  # noqa
        return ("other", type(e).__name__, str(e)[:120])
    return ("ok", v)


def _family_name(fam):
    import socket
    if fam is None:
        return "AF_UNIX" if not hasattr(socket, "AF_UNIX") else "None"
    for n in ("AF_UNIX", "AF_INET", "AF_INET6"):
        if hasattr(socket, n) and fam == getattr(socket, n):
            return n
    return repr(fam)


def _inet_equal(exp, obs):
    return (type(obs) is tuple and len(obs) == 2 and type(obs[0]) is str
            and obs[0] == exp[0]
            and ((exp[1] is None and obs[1] is None) or
                 (type(obs[1]) is int and obs[1] == exp[1])))


def value_equal(name, exp, obs, s):
    import datetime
    import math
    if name == "boolean":
        return obs is exp
    if name in ("integer", "port-number"):
        return type(obs) is int and obs == exp
    if name in ("byte-size", "time-interval"):
        return type(obs) in (int, float) and obs == exp
    if name == "float":
        return (type(obs) is float and obs == exp and
                math.copysign(1.0, obs) == math.copysign(1.0, exp))
    if name == "null":
        return obs is s
    if name == "string-list":
        return (type(obs) is list and obs == exp and
                all(type(x) is str for x in obs))
    if name.startswith("inet-"):
        return _inet_equal(exp, obs)
    if name.startswith("socket-"):
        fam = _family_name(getattr(obs, "family", "missing"))
        addr = getattr(obs, "address", None)
        if fam != exp[0]:
            return False
        if exp[0] == "AF_UNIX":
            return type(addr) is str and addr == exp[1]
        return _inet_equal(exp[1], addr)
    if name == "timedelta":
        return isinstance(obs, datetime.timedelta) and obs == exp
    return type(obs) is str and obs == exp


def show(name, obs):
    """JSON-friendly rendering of an observation."""
    if obs[0] != "ok":
        return list(obs)
    v = obs[1]
    if name.startswith("socket-"):
        return ["ok", _family_name(getattr(v, "family", "missing")),
                repr(getattr(v, "address", None))]
    if isinstance(v, (str, int, float, bool, list)) or v is None:
        return ["ok", v]
    return ["ok", repr(v)]


def judge(name, s, exp, obs):
    """-> None when the observation satisfies the contract, else a slug."""
    if obs[0] == "other":
        return "unexpected-exception-class"
    if obs[0] == "TypeError" and not (
            name == "timedelta" and exp[0] in (refdt.TYPEERR, refdt.ANYERR,
                                               refdt.UNJ)):
        return "typeerror-instead-of-valueerror"
    k = exp[0]
    if k == refdt.UNJ:
        return None
    if k == refdt.OK:
        if obs[0] != "ok":
            return "rejects-what-the-contract-accepts"
        if not value_equal(name, exp[1], obs[1], s):
            return "wrong-value"
        return None
    if k == refdt.OKQ:
        return None if obs[0] == "ok" else "rejects-what-the-contract-accepts"
    if k == refdt.ERR:
        if obs[0] == "ok":
            return "accepts-what-the-contract-rejects"
        return None if obs[0] == "ValueError" else "wrong-exception-class"
    if k == refdt.TYPEERR:
        if obs[0] == "ok":
            return "accepts-what-the-contract-rejects"
        return None if obs[0] == "TypeError" else \
            "valueerror-for-unknown-unit-letter"
    if k == refdt.ANYERR:
        return "accepts-what-the-contract-rejects" if obs[0] == "ok" else None
    return "reference-returned-nonsense"


def mechanism(name, s, exp, obs):
    """Classify a disagreement by mechanism (features of the input and of
    the observed failure only)."""
    if name == "ipaddr-or-hostname":
        if (":" in s and exp[0] == refdt.OK and s[:1] != "" and
                s[0] in "abcdefABCDEF" and obs[0] == "ValueError"):
            return "ipv6-starts-with-hex-letter"
        nonascii = [c for c in s if ord(c) > 127]
        if (nonascii and exp[0] == refdt.ERR and obs[0] == "ok" and
                all(unicodedata.category(c) == "Nd" for c in nonascii)):
            return "non-ascii-digit-in-dotted-quad"
    if name == "timedelta" and obs[0] == "other" and \
            obs[1] == "OverflowError":
        return "timedelta-overflowerror"
    return None


class Env:
    """Per-worker state: live converters and the fixture directory."""

    def __init__(self, ctx):
        import locale

        from ZConfig import datatypes
        self.ctx = ctx
        self.datatypes = datatypes
        self.registry = datatypes.Registry()
        self.conv = {}
        self.via = {}
        self.locale = locale
        self.fixture = None
        res = ctx.res
        stock = datatypes.stock_datatypes
        for n in sorted(stock):
            if n not in refdt.REFERENCE:
                res.inconclusive_because(
                    "stock datatype %r has no reference conversion" % n)
        for n in NAMES:
            via = mixed_case(n)
            self.via[n] = via
            try:
                c = self.registry.get(via)
                c2 = self.registry.get(n.upper())
                c3 = self.registry.get(n)
            except Exception as e:  # noqa
                res.violate("registry-get-fails", {"type": n, "via": via,
                                                   "op": "get"},
                            "the stock converter", "%s: %s"
                            % (type(e).__name__, e),
                            vsig="registry|%s" % n)
                if callable(stock.get(n)):
                    self.conv[n] = stock[n]   # keep judging the converter
                continue
            res.hook("registry_get_mixed_case")
            if not (c is c2 is c3 and c is stock.get(n) and callable(c)):
                res.violate("registry-name-normalisation",
                            {"type": n, "via": via, "op": "get"},
                            "same object as stock_datatypes[%r]" % n,
                            repr((c, c2, c3)), vsig="registry|%s" % n)
                if callable(stock.get(n)):
                    c = stock[n]
                else:
                    continue
            self.conv[n] = c

    def fix(self):
        if self.fixture is None:
            base = os.path.join(self.ctx.tmp, "fx")
            os.makedirs(os.path.join(base, "d", "sub"))
            with open(os.path.join(base, "d", "f"), "w") as f:
                f.write("x")
            with open(os.path.join(base, "f"), "w") as f:
                f.write("x")
            os.symlink(os.path.join("d", "f"), os.path.join(base, "l"))
            os.symlink("d", os.path.join(base, "ld"))
            os.symlink("nope", os.path.join(base, "dang"))
            self.fixture = base
        return self.fixture


class StrSub(str):
    pass


def plain_strings(v):
    """A converter may hand back (part of) what it was given: compare by
    value, not by the subclass of the argument."""
    if type(v) is StrSub:
        return str.__str__(v)
    if isinstance(v, tuple):
        return tuple(plain_strings(x) for x in v)
    if isinstance(v, list):
        return [plain_strings(x) for x in v]
    if hasattr(v, "address") and hasattr(v, "family"):
        try:
            v.address = plain_strings(v.address)
        except Exception:  # noqa
            pass
    return v


def thread_stress(env, n_threads=4, rounds=6000):
    """The stock converter objects are shared by everything in the process:
    several threads convert different texts with them at the same time
    (switch interval 1 microsecond); every result must be the thread's
    own."""
    import sys
    import threading
    res = env.ctx.res
    names = [n for n in ("inet-address", "inet-binding-address",
                         "inet-connection-address", "socket-address",
                         "byte-size", "time-interval", "timedelta",
                         "ipaddr-or-hostname", "basic-key")
             if n in env.conv]
    bad = []
    lock = threading.Lock()

    def work(i):
        host = "Host%d.Example.COM" % i
        want = {
            "inet-address": (host.lower(), 8000 + i),
            "inet-binding-address": (host.lower(), 8000 + i),
            "inet-connection-address": (host.lower(), 8000 + i),
            "byte-size": (i + 1) * 1024, "time-interval": (i + 1) * 60,
            "ipaddr-or-hostname": host.lower(), "basic-key": host.lower(),
        }
        arg = {"inet-address": "%s:%d" % (host, 8000 + i),
               "inet-binding-address": "%s:%d" % (host, 8000 + i),
               "inet-connection-address": "%s:%d" % (host, 8000 + i),
               "socket-address": "%s:%d" % (host, 8000 + i),
               "byte-size": "%dKB" % (i + 1), "time-interval": "%dm" % (i + 1),
               "timedelta": "%dd %dh" % (i + 1, i),
               "ipaddr-or-hostname": host, "basic-key": host}
        for r in range(rounds):
            for n in names:
                try:
                    got = env.conv[n](arg[n])
                except Exception as e:  # noqa
                    got = "%s: %s" % (type(e).__name__, e)
                if n == "socket-address":
                    got = getattr(got, "address", got)
                    w = (host.lower(), 8000 + i)
                elif n == "timedelta":
                    import datetime
                    w = datetime.timedelta(days=i + 1, hours=i)
                else:
                    w = want[n]
                if got != w:
                    with lock:
                        if len(bad) < 5:
                            bad.append((n, arg[n], repr(w), repr(got)))
                    return
    old = sys.getswitchinterval()
    sys.setswitchinterval(1e-6)
    try:
        ts = [threading.Thread(target=work, args=(i,))
              for i in range(n_threads)]
        for t in ts:
            t.start()
        for t in ts:
            t.join()
    finally:
        sys.setswitchinterval(old)
    res.evaluations += n_threads * rounds * len(names)
    res.hook("conversions_under_thread_stress",
             n_threads * rounds * len(names))
    for n, a, w, g in bad:
        res.violate("result-is-another-thread's",
                    {"op": "threads", "type": n, "s": a}, w, g,
                    detail="%d threads converting at once: %s(%r) -> %s, "
                    "expected %s" % (n_threads, n, a, g, w),
                    vsig="threads|%s" % n)


def check_one(env, name, s, family):
    """Execute one (datatype, string) case and judge it."""
    res = env.ctx.res
    conv = env.conv.get(name)
    if conv is None:
        return
    case = {"type": name, "s": s, "via": env.via[name]}
    tmpl = s
    if name in SLOW_TYPES and FIX in s:
        s = s.replace(FIX, env.fix())
    res.evaluations += 1
    if name == "locale":
        before = env.locale.setlocale(env.locale.LC_ALL)
    ref = refdt.REFERENCE[name]
    try:
        exp = ref(s)
    except Exception as e:  # noqa
        res.inconclusive_because("reference %s raised %s on %r"
                                 % (name, type(e).__name__, s))
        return
    if family in ("structured", "cross") and res.evaluations % 4 == 1 and \
            name not in SLOW_TYPES and name != "null":
        # the text as an instance of a str subclass (what a templating or
        # i18n layer hands on): a string like any other
        res.count("str_subclass_arguments")
        obs = plain_strings(observe(conv, StrSub(s)))
    else:
        obs = observe(conv, s)
    if name == "locale":
        after = env.locale.setlocale(env.locale.LC_ALL)
        if after != before:
            env.locale.setlocale(env.locale.LC_ALL, before)
            res.violate("locale-not-restored", case, before, after,
                        detail="process locale changed by the locale "
                        "datatype", vsig="locale-not-restored")
        else:
            res.hook("locale_restored")
    k = exp[0]
    if k == refdt.UNJ:
        res.count("unjudged")
        res.count(name + ":unjudged")
        res.sample("unjudged-" + GROUP[name],
                   dict(case, why=exp[1], observed=show(name, obs)), 1)
    else:
        res.count("judged")
        if k in (refdt.OK, refdt.OKQ):
            res.count("accepted")
            res.count(name + ":accepted")
            res.sample("accepted-" + GROUP[name],
                       dict(case, observed=show(name, obs)), 1)
        else:
            res.count("rejected")
            res.count(name + ":rejected")
            res.sample(("typeerror-" if k == refdt.TYPEERR else "rejected-")
                       + GROUP[name], dict(case, observed=show(name, obs)),
                       1)
        res.sig("%s|%s|%s" % (name, k, refdt.shape(tmpl, 4)))
    bad = judge(name, s, exp, obs)
    if bad:
        mech = mechanism(name, s, exp, obs)
        res.violate(bad, case, list(exp[:1]) + [repr(exp[1])
                                                if len(exp) > 1 else None],
                    show(name, obs),
                    detail="%s(%r): reference %s, implementation %s"
                    % (name, s, exp[0], show(name, obs)),
                    mechanism=mech,
                    vsig=("%s|%s" % (name, mech)) if mech else
                    "%s|%s|%s|%s|%s" % (name, bad, k, obs[0],
                                        refdt.shape(tmpl, 4)))
        return
    if name in refdt.KEY_NORMALISERS and obs[0] == "ok":
        res.hook("idempotence_checked")
        again = observe(conv, obs[1])
        if again[0] != "ok" or again[1] != obs[1]:
            res.violate("not-idempotent", case, show(name, obs),
                        show(name, again),
                        detail="f(f(x)) != f(x) for %s, x=%r" % (name, s),
                        vsig="%s|idem|%s" % (name, refdt.shape(tmpl, 4)))


# ---------------------------------------------------------------------------
# workload: bounded exhaustive enumeration


def enum_units(tier):
    """Work units (type, alphabet, bound, prefix); a unit with prefix None
    yields the strings shorter than 2, a unit with a 2-character prefix
    yields prefix + every string of length 0..bound-2."""
    units = []
    for name in NAMES:
        for alpha, qb, tb in ENUM.get(name, ()):
            bound = qb if tier == "quick" else tb
            units.append((name, alpha, bound, None))
            if bound >= 2:
                for a in alpha:
                    for b in alpha:
                        units.append((name, alpha, bound, a + b))
    return units


def unit_strings(alpha, bound, prefix):
    if prefix is None:
        yield ""
        if bound >= 1:
            for a in alpha:
                yield a
        return
    for n in range(0, bound - 2 + 1):
        for t in itertools.product(alpha, repeat=n):
            yield prefix + "".join(t)


# ---------------------------------------------------------------------------
# workload: structured boundary families


def case_variants(word):
    for mask in range(1 << len(word)):
        yield "".join(c.upper() if mask >> i & 1 else c
                      for i, c in enumerate(word))


def single_edits(word, chars):
    for i in range(len(word) + 1):
        for c in chars:
            yield word[:i] + c + word[i:]
        if i < len(word):
            yield word[:i] + word[i + 1:]
            for c in chars:
                yield word[:i] + c + word[i + 1:]


_INT_BOUNDARY = [0, 1, 2, 9, 10, 255, 256, 1023, 1024, 4095, 4096, 32767,
                 32768, 65534, 65535, 65536, 65537, 99999, 100000, 131071,
                 2 ** 31 - 1, 2 ** 31, 2 ** 32, 2 ** 32 + 80, 2 ** 64,
                 10 ** 20]


def int_forms():
    for n in _INT_BOUNDARY:
        d = str(n)
        for f in (d, "-" + d, "0" + d, "000" + d, d + ".0", d + "L",
                  hex(n), oct(n), " " + d, d + " ", "+" + d, d + "\n",
                  d[:1] + "_" + d[1:], d + "e0", "--" + d, "- " + d):
            yield f


_OCTETS = ["0", "1", "9", "10", "99", "100", "199", "200", "249", "250",
           "255", "256", "260", "299", "300", "999", "00", "01", "001",
           "1000", "", "a", "-1", "٢"]
_V6_SMALL = ["1", "a", "FE"]
_V6_GROUPS = ["0", "1", "a", "F", "fe80", "FFFF", "dead", "BEEF", "12345",
              "g", "", "0000", "00000", "1.2.3.4", "255.255.255.255",
              "256.1.1.1", "01.2.3.4", "1.2.3", "A0b1"]


def v6_join(groups, zpos):
    """Join groups with ':' and put a '::' before group *zpos* (None: no
    compression; len(groups): trailing)."""
    if zpos is None:
        return ":".join(groups)
    return ":".join(groups[:zpos]) + "::" + ":".join(groups[zpos:])


def ipaddr_family(tier, rng):
    # dotted quads
    if tier == "thorough":
        for t in itertools.product(_OCTETS, repeat=4):
            yield ".".join(t)
    else:
        for i, j in itertools.combinations(range(4), 2):
            for a in _OCTETS:
                for b in _OCTETS:
                    q = ["1", "20", "255", "4"]
                    q[i], q[j] = a, b
                    yield ".".join(q)
    for q in ("1.2.3", "1.2.3.4.5", "1.2.3.4.", ".1.2.3.4", "1..2.3",
              "1.2.3.4\n", "1.2.3.4 ", " 1.2.3.4", "1,2,3,4", "1.2.3.4/8",
              "0x1.2.3.4", "1.2.3.4a", "١.٢.٣.٤", "1.2.3.٤", "１.2.3.4",
              "1", "12", "1234", "3com", "1a", "1-2"):
        yield q
    # IPv6: every structure up to 9 groups over a small pool
    for k in range(0, 10):
        kmax = 8 if tier == "thorough" else 7
        if k <= kmax:
            combos = itertools.product(_V6_SMALL, repeat=k)
        else:
            combos = [tuple(rng.choice(_V6_SMALL) for _ in range(k))
                      for _ in range(200)]
        for g in combos:
            for zpos in [None] + list(range(k + 1)):
                yield v6_join(list(g), zpos)
    # IPv6: wide pool, sampled
    for _ in range(4000 if tier == "quick" else 200000):
        k = rng.randint(0, 9)
        g = [rng.choice(_V6_GROUPS) for _ in range(k)]
        zpos = rng.choice([None] + list(range(k + 1)))
        s = v6_join(g, zpos)
        if rng.random() < 0.1:
            s = v6_join(g, zpos).replace(":", "::", 1)
        yield s
    for h in ("a", "ab", "a.b", "A.B", "a-", "a.", "a..b", "-a", "_a", "a_b",
              "_", "__", "x" * 64, "example.com.", "Example.COM", "a b",
              "a\n", "ab\n", "a/b", "a:b", "com3", "a.1", "a-1.b_2",
              "localhost", "LocalHost", "fe80::1", "FE80::1", "dead:beef::1",
              "ABC::1", "::FFFF:1.2.3.4", "::ffff:256.2.3.4", "1::", "::",
              ":", ":::", "1:2:3:4:5:6:7:8", "1:2:3:4:5:6:7:8:9",
              "1:2:3:4:5:6:1.2.3.4", "1:2:3:4:5:6:7:1.2.3.4", "::1%eth0",
              "[::1]", "::1\n", "é.com", "İ", "a.é", "µ"):
        yield h


_HOSTS = ["unix", "UNIX", "tcp", "udp", "inet", "file", "localhost", "", "a", "Host", "EXAMPLE.com", "127.0.0.1", "::1", "FE80::1",
          "[::1]", "[FE80::1]", "[a]", "[A.b]", "[]", "1:2:3", "*", "a_b",
          "é", "İ", "[", "]", "a]", "[a", "x y"]
_PORTS = ["", "0", "1", "80", "65535", "65536", "99999", "-1", "-0", "0080",
          "http", "8 0", " 80", "+80", "8_0", "1e3", "٨٠", "80]", "8.0"]
_PATHS = ["/tmp/sock", "a/b", "./s", "/", "C:/x", "/a:80", "\\\\pipe",
          "a:80/", "[::1]:80/x", " /", "/ "]


def address_family(name):
    for h in _HOSTS:
        for p in _PORTS:
            yield h + ":" + p
            if not h:
                yield p
            if not p:
                yield h
    if name.startswith("socket-"):
        for p in _PATHS:
            yield p


_TD_PARTS = ["4w", "2.5d", "7h", "12m", "0.001s", "-1d", "1e3s", ".5h",
             "1.w", "0s", "1x", "1W", "x", "5", "1.2.3s", "--1s", "1e", "e5s",
             "1_0s", "infd", "nans", "9e9w", "1e400s", "1µ", "1é", "s", "1S",
             "-.5m", "+1s", "1ms", "1.5"]


def timedelta_family(tier, rng):
    yield ""
    yield " "
    for a in _TD_PARTS:
        yield a
        yield " " + a + "\t"
        for b in _TD_PARTS:
            yield a + " " + b
            yield a + b
    n = 3000 if tier == "quick" else 60000
    for _ in range(n):
        k = rng.randint(3, 5)
        yield rng.choice([" ", "  ", "\t", "\n"]).join(
            rng.choice(_TD_PARTS) for _ in range(k))
    yield "4w 2d 7h 12m 0.00001s"
    yield "4w 2.5d 7h 12m 0.001s"
    # parts that fit datetime.timedelta one by one while their sum does not
    # (and the other way round): the result is a value or a ValueError
    edge = ["999999999d", "-999999999d", "142857142w", "23999999976h",
            "86399999999999s", "1439999999940m", "9e8d", "2e7w", "1d", "24h",
            "-1s", "1s", "-24h", "0.000001s", "-0.000001s", "86399s",
            "999999999.9d", "1e9d", "-1e9d"]
    for a in edge:
        yield a
        for b in edge:
            yield a + " " + b
    for _ in range(300 if tier == "quick" else 5000):
        yield " ".join(rng.choice(edge) for _ in range(rng.randint(3, 5)))


_COMPONENTS = ["", ".", "..", "d", "f", "sub", "l", "ld", "dang", "nope",
               "d ", "D", "é", "a\0b"]


def path_family():
    for n in range(0, 4):
        for t in itertools.product(_COMPONENTS, repeat=n):
            p = "/".join((FIX,) + t)
            yield p
            yield p + "/"
    for p in ("", ".", "..", "/", "//", "///x", "~", "~/", "~/x",
              "~nosuchuser_zcv/x", "x~", FIX + "/~", "zcv_nope_1",
              "zcv_nope_dir/x", "zcv_nope_dir/", "nope/", "/zcv_nope/x",
              "/x", "//x", " ", "\n", FIX[:0] + "a\0b/c", "é/x"):
        yield p


_LOCALES = ["C", "POSIX", "C.utf8", "C.UTF-8", "en_US.UTF-8", "en_US",
            "de_DE", "", "c", "posix", "xx_YY", "C ", " C", "C\n", "a\0b",
            "LC_ALL=C", "C;POSIX", "LC_CTYPE=C;LC_NUMERIC=C", "é", "/",
            "../C", "x" * 300, "garbage", "C.", ".utf8", "POSIX.utf8",
            "en_US.ISO8859-1", "@euro", "C@euro"]


def structured(name, tier, rng):
    """Structured boundary cases of one datatype (deterministic given rng)."""
    if name == "boolean":
        for w in refdt._TRUE + refdt._FALSE:
            for v in case_variants(w):
                yield v
            for e in single_edits(w, "yesnotrufal10 "):
                yield e
        for w in ("1", "0", "t", "f", "y", "n", "", "none", "enable",
                  "disabled", "yes ", " yes", "yes\n", "on\0", "oui",
                  "truee", "TRUE", "ÿes", "o\u0146", "ｏｎ"):
            yield w
    elif name in ("integer", "port-number", "float"):
        for f in int_forms():
            yield f
        if name == "float":
            for f in ("1.5", "-1.5", ".5", "5.", "1e5", "1E5", "1e-5",
                      "1e+5", "1.5e300", "1e308", "1.8e308", "1e-400",
                      "4.9e-324", "2.5e-324", "0.1", "-0", "-0.0", "1e",
                      "e1", ".", "-.", "1.2.3", "inf", "-inf", "Inf", "NaN",
                      "nan", "infinity", "-Infinity", "+inf", "1,5", "0x1p3",
                      "1d5", "1f", "9007199254740993", "0.30000000000000004",
                      "123456789012345678901234567890e-30", "1e2000",
                      "1e-2000"):
                yield f
    elif name == "byte-size":
        for n in ("0", "1", "7", "10", "128", "1023", "1024", "2147483648",
                  "-1", "-5", "007", "", "+1", "1.5", "1 ", "1_0", "x"):
            for suf in ("kb", "mb", "gb"):
                for v in case_variants(suf):
                    yield n + v
            for suf in ("", "k", "b", "m", "g", "tb", "kib", "bk", "kbb",
                        " kb", "kb ", "KB\n", "kB", "kb"):
                yield n + suf
    elif name == "time-interval":
        for n in ("0", "1", "7", "12", "90", "86400", "-1", "-5", "007", "",
                  "+1", "1.5", "1 ", "1_0", "x"):
            for suf in ("s", "m", "h", "d", "S", "M", "H", "D", "w", "W", "",
                        "ms", "sec", "ss", " s", "s ", "d\n", "y", "µ"):
                yield n + suf
    elif name == "timedelta":
        for s in timedelta_family(tier, rng):
            yield s
    elif name.startswith("inet-") or name.startswith("socket-"):
        for s in address_family(name):
            yield s
    elif name == "ipaddr-or-hostname":
        for s in ipaddr_family(tier, rng):
            yield s
    elif name in REGEX_TYPES:
        for s in ("a", "A", "_", "a1", "1a", "a.b", "A.b", ".a", "a.", "a..b",
                  ".a.b", "..a", ".", "", "a-b", "a_b", "a b", "a\n", "\na",
                  "class", "a.class", "def.x", ".if", "None", "é", "aé",
                  "a.é", "x" * 200, "a." * 50 + "a", "ａ", "a\0", "A-B.c_D",
                  "Z9", "z.9", "a-", "a._-", "-a", "İx", "K1"):
            yield s
    elif name in ("string", "null", "string-list"):
        for s in ("", " ", "a", "a b", " a  b ", "a\tb\nc", "a\u00a0b",
                  "a\u2003b", "a\x1cb", "a\x00b", "é ü", "a\u200bb",
                  "a\x85b", "a\u3000b", "\u180eab", "a\x0bb\x0cc\rd"):
            yield s
    elif name == "locale":
        for s in _LOCALES:
            yield s
    elif name.startswith("existing-"):
        for s in path_family():
            yield s


# ---------------------------------------------------------------------------
# workload: random Unicode strings and mutated exemplars

_UNI = ["١", "٣", "１", "\u212a", "İ", "ı", "ß", "é", "Ω", "\u00a0", "\u2003",
        "\u200b", "\n", "\t", "\x00", "\x1c", "中", "\U0001f600", "ſ", "²",
        "½", "µ", "\u0660", "\uff10", "\u0966", "\r", "\x7f", "\ufeff"]
_EXEMPLARS = {
    "basic-key": ["key", "Some-Key.name_1", "a", "Z9"],
    "identifier": ["name", "_x1", "CamelCase"],
    "dotted-name": ["a.b.c", "ZConfig.datatypes", "_x"],
    "dotted-suffix": [".a.b", "a.b", ".x"],
    "boolean": ["yes", "No", "TRUE", "off", "on", "false"],
    "integer": ["0", "-12", "123456"],
    "float": ["1.5", "-2e10", ".5", "3."],
    "port-number": ["80", "65535", "0", "8080"],
    "byte-size": ["128MB", "1kb", "5Gb", "1024"],
    "time-interval": ["12h", "30m", "7D", "60"],
    "timedelta": ["4w 2.5d 7h 12m 0.001s", "1d", "5s 3m"],
    "inet-address": ["host:80", "[::1]:80", "8080", "Example.COM", "::1"],
    "socket-address": ["/tmp/sock", "host:80", "[fe80::1]:22", "::1"],
    "ipaddr-or-hostname": ["127.0.0.1", "fe80::1", "::ffff:1.2.3.4",
                           "Example.com", "1:2:3:4:5:6:7:8", "255.255.255.0"],
    "string-list": ["a b  c", " x "],
    "locale": ["C", "POSIX", "C.utf8"],
    "existing-directory": [FIX + "/d", FIX + "/ld"],
    "existing-path": [FIX + "/d/f", FIX + "/l"],
    "existing-file": [FIX + "/f", FIX + "/d/f"],
    "existing-dirpath": [FIX + "/d/new", FIX + "/nope/x"],
}
for _n in NAMES:
    if _n not in _EXEMPLARS:
        base = (_n.replace("-binding", "").replace("-connection", ""))
        _EXEMPLARS[_n] = _EXEMPLARS.get(base, ["a"])


def pool_of(name):
    chars = "".join(a for a, _, _ in ENUM.get(name, ()))
    if name.startswith("existing-"):
        chars = "/.~dfl x"
    return chars or "a ."


def random_string(rng, name, pool):
    r = rng.random()
    if r < 0.4:
        s = rng.choice(_EXEMPLARS[name])
        for _ in range(rng.randint(0, 2)):
            i = rng.randint(0, len(s))
            op = rng.random()
            c = rng.choice(pool) if rng.random() < 0.7 else rng.choice(_UNI)
            if op < 0.35:
                s = s[:i] + c + s[i:]
            elif op < 0.6:
                s = s[:i] + s[i + 1:]
            elif op < 0.85:
                s = s[:i] + c + s[i + 1:]
            else:
                s = s[:i] + s[i:].swapcase()
        return s
    n = rng.randint(0, 12)
    out = []
    for _ in range(n):
        r = rng.random()
        if r < 0.65:
            out.append(rng.choice(pool))
        elif r < 0.8:
            out.append(rng.choice(_UNI))
        else:
            cp = rng.choice((rng.randint(32, 126), rng.randint(0xa0, 0x24f),
                             rng.randint(0x370, 0x52f),
                             rng.randint(0x600, 0x6ff),
                             rng.randint(0x4e00, 0x4eff),
                             rng.randint(0x1d7ce, 0x1d7ff),
                             rng.randint(0, 31)))
            out.append(chr(cp))
    return "".join(out)


# ---------------------------------------------------------------------------


_FOLD_TO_ASCII = ["\u212a", "\u017f", "\u0130", "\u0131", "\u2126",
                  "\u212b", "\uff41", "\uff21", "\u0660", "\uff10",
                  # the ASCII neighbours of the ranges A-Z, a-z and 0-9: what
                  # a class written 'A-z' or '/-:' lets in
                  "[", "\\", "]", "^", "`", "@", "{", "|", "/", ":"]


def fold_specials(name):
    """Exemplars of the type with one character inserted or replaced by a
    code point that lower-casing / case-folding / digit conversion turns
    into something ASCII (Kelvin sign -> k, long s, dotted and dotless i,
    Ohm, Angstrom, full-width letters and digits, Arabic-Indic zero): a
    converter that normalises before it validates accepts these."""
    for e in _EXEMPLARS[name]:
        if FIX in e:
            continue
        for c in _FOLD_TO_ASCII:
            for pos in range(min(len(e), 10) + 1):
                yield e[:pos] + c + e[pos:]
                if pos < len(e):
                    yield e[:pos] + c + e[pos + 1:]


def cross_pool():
    """Strings that at least one datatype accepts (exemplars), in their
    case variants: what a converter may wrongly remember for another."""
    out = []
    seen = set()
    for n in NAMES:
        if n in SLOW_TYPES:
            continue
        for e in _EXEMPLARS[n]:
            for v in (e, e.lower(), e.upper(), e.swapcase()):
                if v not in seen:
                    seen.add(v)
                    out.append(v)
    for n in ("5m", "5M", "3kb", "3KB", "1d", "1D", "10s", "2g", "2GB", "1h",
              "0", "1", "80", "on", "ON", "no", "a", "A", "a.b", ".a", "::1",
              "1.2.3.4", "Host:80", "[::1]:80", ":80", "localhost"):
        if n not in seen:
            seen.add(n)
            out.append(n)
    return out


def run_shard(ctx):
    env = Env(ctx)
    res = ctx.res
    tier = ctx.tier
    prev_locale = env.locale.setlocale(env.locale.LC_ALL)
    try:
        # (a) bounded exhaustive
        for ui, (name, alpha, bound, prefix) in enumerate(enum_units(tier)):
            if not ctx.mine(ui):
                continue
            for s in unit_strings(alpha, bound, prefix):
                check_one(env, name, s, "enum")
                res.count("enumerated_strings")
        # (b) structured families (generated identically in every shard,
        # dealt out by index)
        i = 0
        for name in NAMES:
            rng = ctx_free_rng(ctx, "structured", name)
            for s in structured(name, tier, rng):
                i += 1
                if ctx.mine(i):
                    check_one(env, name, s, "structured")
                    res.count("structured_cases")
            if name not in SLOW_TYPES:
                for s in fold_specials(name):
                    i += 1
                    if ctx.mine(i):
                        check_one(env, name, s, "fold")
                        res.count("fold_special_cases")
        # (c) random
        for name in NAMES:
            rng = ctx.rng("random", name)
            total = (RANDOM_SLOW if name in SLOW_TYPES else RANDOM)[tier]
            pool = pool_of(name)
            for _ in range(total // ctx.nshards):
                check_one(env, name, random_string(rng, name, pool),
                          "random")
                res.count("random_strings")
        # (d) cross-talk: the same string handed to every datatype one
        # after the other in one process (shuffled order, twice), so that
        # state shared between converters - a memo keyed by the text only,
        # a class-level cache - shows as a disagreement with the reference
        cross = cross_pool()
        for ci, s in enumerate(cross):
            if not ctx.mine(ci):
                continue
            rng = ctx_free_rng(ctx, "cross", ci)
            for _ in range(2):
                order = [n for n in NAMES if n not in SLOW_TYPES]
                rng.shuffle(order)
                for name in order:
                    check_one(env, name, s, "cross")
                    res.count("cross_talk_calls")
            res.hook("cross_talk_strings")
        platform_default_hosts(ctx)
        if ctx.shard % 4 == 0:
            thread_stress(env)
    finally:
        env.locale.setlocale(env.locale.LC_ALL, prev_locale)
    res.info["bounds"] = {
        n: [{"alphabet": a, "max_len": (q if tier == "quick" else t)}
            for a, q, t in ENUM[n]] for n in sorted(ENUM)}
    res.info["wmethod"] = {
        n: {"dfa_states_incl_dead": refdt.DFAS[n].nstates,
            "all_strings_up_to": (ENUM[n][0][1] if tier == "quick"
                                  else ENUM[n][0][2]),
            "extra_states_k": (ENUM[n][0][1] if tier == "quick"
                               else ENUM[n][0][2]) - refdt.DFAS[n].nstates}
        for n in REGEX_TYPES}
    res.info["random_strings_per_type"] = RANDOM[tier]
    res.info["stock_datatypes_covered"] = sorted(env.conv)


PLATFORMS = [("linux", ""), ("darwin", ""), ("freebsd14", ""),
             ("sunos5", ""), ("aix", ""), ("win32", "localhost"),
             ("emscripten", ""), ("wasi", "")]


def platform_default_hosts(ctx, only=None):
    """The documented default host of inet-address (and socket-address) is
    'localhost' on Windows and '' everywhere else; it is computed when the
    module is executed.  A private copy of the real datatypes.py is executed
    once per platform name (sys.platform patched for the duration) and asked
    for host-less values."""
    import importlib.util
    import sys
    import ZConfig.datatypes as real
    res = ctx.res
    for pi, (plat, want_host) in enumerate(PLATFORMS):
        if only is not None and plat != only:
            continue
        if only is None and not ctx.mine(pi):
            continue
        spec = importlib.util.spec_from_file_location(
            "zcv_private_datatypes_%s" % plat, real.__file__)
        mod = importlib.util.module_from_spec(spec)
        saved = sys.platform
        sys.platform = plat
        try:
            spec.loader.exec_module(mod)
        finally:
            sys.platform = saved
        reg = mod.Registry()
        for name, value, want in (
                ("inet-address", "8080", (want_host, 8080)),
                ("inet-address", ":8080", (want_host, 8080)),
                ("inet-address", "Host:80", ("host", 80)),
                ("inet-binding-address", "8080", ("", 8080)),
                ("inet-connection-address", "8080", ("127.0.0.1", 8080))):
            res.evaluations += 1
            res.count("platform_default_host_cases")
            try:
                got = reg.get(name)(value)
            except Exception as e:  # noqa
                got = "%s: %s" % (type(e).__name__, e)
            if got != want:
                res.violate("default-host-differs",
                            {"op": "platform", "platform": plat,
                             "type": name, "s": value}, list(want),
                            list(got) if isinstance(got, tuple) else got,
                            detail="sys.platform=%r %s(%r) -> %r, "
                            "documented %r" % (plat, name, value, got, want),
                            vsig="platform|%s" % name)
        # socket-address builds on the same default
        try:
            sa = reg.get("socket-address")("8080")
            got = sa.address
        except Exception as e:  # noqa
            got = "%s: %s" % (type(e).__name__, e)
        res.evaluations += 1
        res.count("platform_default_host_cases")
        if got != (want_host, 8080):
            res.violate("default-host-differs",
                        {"op": "platform", "platform": plat,
                         "type": "socket-address", "s": "8080"},
                        [want_host, 8080],
                        list(got) if isinstance(got, tuple) else got,
                        detail="sys.platform=%r socket-address('8080')"
                        ".address -> %r" % (plat, got),
                        vsig="platform|socket-address")


def ctx_free_rng(ctx, *salt):
    """Seeded generator that does NOT depend on the shard number, so every
    shard generates the same structured list and takes its share of it."""
    import hashlib
    import random
    key = "%s|%s|%s" % (ctx.prop, ctx.seed, "|".join(map(str, salt)))
    return random.Random(int(hashlib.sha1(key.encode()).hexdigest()[:16],
                             16))


def finalize(m, tier):
    per_type = {}
    for n in NAMES:
        per_type[n] = {k: m["counters"].get(n + ":" + k, 0)
                       for k in ("accepted", "rejected", "unjudged")}
    return {"exhaustive": True,
            "exhaustive_scope": "all strings over each type's class "
            "alphabet up to the length bound listed in coverage.bounds; "
            "structured and random parts are samples",
            "per_type": per_type}


def replay(ctx, case):
    env = Env(ctx)
    if case.get("op") == "get":
        return          # Env() re-ran the registry checks
    if case.get("op") == "platform":
        return platform_default_hosts(ctx, only=case["platform"])
    if case.get("op") == "threads":
        return thread_stress(env)
    prev = env.locale.setlocale(env.locale.LC_ALL)
    try:
        check_one(env, case["type"], case["s"], "replay")
    finally:
        env.locale.setlocale(env.locale.LC_ALL, prev)
