"""Runtime-monitoring machinery for the ZConfig properties C01-C20.

Everything here is standard library only and is run by /venv/bin/python.
See /verif/DESIGN.md.
"""
