"""CLI: setup | check <id> --tier quick|thorough | replay <file> | worker …"""

import argparse
import os
import sys


def main(argv=None):
    ap = argparse.ArgumentParser(prog="zcverif.run")
    sub = ap.add_subparsers(dest="cmd", required=True)
    sub.add_parser("setup")
    c = sub.add_parser("check")
    c.add_argument("prop")
    c.add_argument("--tier", default=None)
    c.add_argument("--seed", type=int, default=None)
    w = sub.add_parser("worker")
    w.add_argument("prop")
    w.add_argument("--tier", required=True)
    w.add_argument("--seed", type=int, required=True)
    w.add_argument("--shard", type=int, required=True)
    w.add_argument("--nshards", type=int, required=True)
    w.add_argument("--out", required=True)
    r = sub.add_parser("replay")
    r.add_argument("path")
    args = ap.parse_args(argv)

    from zcverif.core import driver, tree
    if args.cmd == "setup":
        if sys.version_info < (3, 12) or not hasattr(sys, "monitoring"):
            print("INCONCLUSIVE reason=python >= 3.12 with sys.monitoring "
                  "required, got %s" % sys.version.split()[0])
            return 2
        f = tree.bind()
        for d in ("evidence", "replays"):
            os.makedirs(os.path.join(tree.VERIF_ROOT, d), exist_ok=True)
        h, n = tree.source_hash()
        print("setup ok: ZConfig from %s (%d source files, sha1 %s)"
              % (f, n, h))
        return 0
    if args.cmd == "check":
        tier = args.tier or os.environ.get("VERIF_TIER") or "quick"
        if tier not in ("quick", "thorough"):
            tier = "quick"
        seed = args.seed
        if seed is None:
            try:
                seed = int(os.environ.get("VERIF_SEED", "0"))
            except ValueError:
                seed = 0
        return driver.run_check(args.prop.upper(), tier, seed)
    if args.cmd == "worker":
        return driver.run_worker(args.prop.upper(), args.tier, args.seed,
                                 args.shard, args.nshards, args.out)
    if args.cmd == "replay":
        return driver.run_replay(args.path)


if __name__ == "__main__":
    sys.exit(main())
