"""Generated component packages (C11, C12, C13, C19-style %import).

Layout (the shipped logger's pattern): a base package holds 'abstract.xml'
with the abstract types; the application schema imports that file at schema
level; every implementer package's component.xml imports the same file (it is
skipped as already merged) and adds section types.
"""

import importlib
import os
import sys
from xml.sax.saxutils import quoteattr

from . import family

_serial = [0]


class PackageSpace:
    """A directory on sys.path holding uniquely named generated packages;
    cleaned up (sys.path, sys.modules, importlib caches) by close()."""

    def __init__(self, root, tag):
        self.root = root
        self.tag = tag
        os.makedirs(root, exist_ok=True)
        if root not in sys.path:
            sys.path.insert(0, root)
        self.names = []
        # every n-th package gets a second, earlier __path__ entry that
        # holds an unreadable (not UTF-8) copy of its files or nothing: the
        # component must still be found in the package's real directory
        self.split_every = 0
        self.odd_every = 0
        self.lead_every = 0
        self._written = 0

    def new_name(self, hint="p"):
        _serial[0] += 1
        n = "zcvpkg_%s_%d_%s" % (self.tag, _serial[0], hint)
        if self.odd_every and _serial[0] % self.odd_every == 0:
            # directory names that no import statement could spell but
            # that import fine by name: a hyphen, a leading digit
            n = ("zcvpkg-%s-%d-%s" if _serial[0] % (2 * self.odd_every)
                 else "%s9zcvpkg_%d_%s") % (
                     self.tag if _serial[0] % (2 * self.odd_every)
                     else "7", _serial[0], hint)
            if n[0] == "7":
                n = "7" + self.tag + n[1:]
        if self.lead_every and _serial[0] % self.lead_every == 0 \
                and n.startswith("zcvpkg_"):
            # names beginning with letters of the word 'package' (and one
            # that begins with that word)
            n = ["pkg_", "cache_", "egg_", "app_", "k_", "gamma_",
                 "package_", "e"][_serial[0] // self.lead_every % 8] + n
        self.names.append(n)
        return n

    def write(self, name, files, module_only=False):
        """files: {filename: text}.  A package directory with __init__.py,
        or (module_only) a plain module name.py."""
        if module_only:
            with open(os.path.join(self.root, name + ".py"), "w") as f:
                f.write("# not a package\n")
            importlib.invalidate_caches()
            return
        d = os.path.join(self.root, *name.split("."))
        os.makedirs(d, exist_ok=True)
        init = os.path.join(d, "__init__.py")
        if not os.path.exists(init):
            self._written += 1
            split = bool(self.split_every and files and "." not in name and
                         self._written % self.split_every == 0)
            with open(init, "w") as f:
                if split:
                    alt = os.path.join(self.root, "_alt_" + name)
                    os.makedirs(alt, exist_ok=True)
                    if self._written % (2 * self.split_every) == 0:
                        for fn in files:
                            with open(os.path.join(alt, fn), "wb") as g:
                                g.write(b"<component>\xe9\xff</component>")
                    f.write("__path__.insert(0, %r)\n" % alt)
                    if self._written % 3 == 0:
                        # ... and further entries in front of it: the
                        # package's own directory is the third or fourth
                        for k in range(1 + self._written % 2):
                            more = os.path.join(self.root,
                                                "_alt%d_%s" % (k, name))
                            os.makedirs(more, exist_ok=True)
                            f.write("__path__.insert(0, %r)\n" % more)
                    self.split_packages = getattr(self, "split_packages",
                                                  0) + 1
                else:
                    f.write("")
        for fn, text in files.items():
            with open(os.path.join(d, fn), "w") as f:
                f.write(text)
        importlib.invalidate_caches()

    def purge(self):
        mine = set(self.names)
        for n in list(sys.modules):
            if n.startswith("zcvpkg_%s_" % self.tag) or \
                    n.split(".")[0] in mine:
                del sys.modules[n]
        importlib.invalidate_caches()

    def close(self):
        self.purge()
        if self.root in sys.path:
            sys.path.remove(self.root)


def abstract_xml(model):
    out = ["<component>"]
    for t in model["types"]:
        if t["kind"] == "abstract":
            out.append("  <abstracttype name=%s/>" % quoteattr(t["name"]))
    out.append("</component>")
    return "\n".join(out) + "\n"


def component_xml(types, base_pkg=None, imports=(), explicit_file=0):
    """component.xml defining *types* (typedef dicts of the family format)."""
    out = ["<component>"]
    if base_pkg:
        out.append("  <import package=%s file='abstract.xml'/>"
                   % quoteattr(base_pkg))
    for i, pkg in enumerate(imports):
        if explicit_file and (i + explicit_file) % 2:
            out.append("  <import package=%s file='component.xml'/>"
                       % quoteattr(pkg))
        else:
            out.append("  <import package=%s/>" % quoteattr(pkg))
    family.render_types(types, out)
    out.append("</component>")
    return "\n".join(out) + "\n"


def gen_component_types(rng, model, prefix, n=None):
    """Section types a component contributes: implementers of the model's
    abstract types, plus now and then a plain type and an extender."""
    abstracts = [t["name"] for t in model["types"] if t["kind"] == "abstract"]
    types = []
    n = n or rng.randint(1, 3)
    for i in range(n):
        name = "%s-t%d" % (prefix, i + 1)
        t = {"kind": "section", "name": name, "keytype": None,
             "datatype": None, "extends": None, "implements": None,
             "children": [
                 {"kind": "key", "name": "alpha", "datatype": "integer",
                  "required": False, "handler": None, "attribute": None,
                  "default": "42", "defaults": []}]}
        if abstracts and rng.random() < 0.8:
            t["implements"] = rng.choice(abstracts)
        if types and rng.random() < 0.3:
            t["extends"] = types[0]["name"]
            t["children"] = [
                {"kind": "multikey", "name": "beta", "datatype": "string",
                 "required": False, "handler": None, "attribute": None,
                 "default": None, "defaults": []}]
        types.append(t)
    return types
