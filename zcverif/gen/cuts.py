"""Cut balanced line ranges of a text into %include files (C06, C08)."""

import os
import posixpath
import zlib

from ..ref import refparse


def classify(line):
    """'open' | 'close' | 'other' for nesting purposes."""
    if isinstance(line, tuple):
        return "other"          # an %include line produced by a cut
    s = refparse.strip(line)
    if s[:2] == "</" and s[-1:] == ">":
        return "close"
    if s[:1] == "<" and s[-1:] == ">" and s[:2] != "</":
        body = s[1:-1]
        empty = body[-1:] == "/"
        if refparse.header(body[:-1] if empty else body) is None:
            return "other"
        return "other" if empty else "open"
    return "other"


def depths(lines):
    """depth before each line (len+1 entries)."""
    d = [0]
    for l in lines:
        c = classify(l)
        d.append(d[-1] + (1 if c == "open" else -1 if c == "close" else 0))
    return d


def balanced_ranges(lines, max_ranges=400):
    d = depths(lines)
    out = []
    n = len(lines)
    for i in range(n):
        low = d[i]
        for j in range(i + 1, n + 1):
            if d[j] < low:
                break
            if d[j] == low:
                out.append((i, j))
                if len(out) >= max_ranges:
                    return out
    return out


def unbalanced_ranges(lines, max_ranges=200):
    d = depths(lines)
    out = []
    n = len(lines)
    for i in range(n):
        low = d[i]
        dipped = False
        for j in range(i + 1, n + 1):
            if d[j] < low:
                dipped = True
            if dipped or d[j] != low:
                out.append((i, j))
                if len(out) >= max_ranges:
                    return out
    return out


PLACES = ["same", "sub", "parent", "subsub"]


class Layout:
    """files: posix path relative to the case root -> list of lines.
    The main file is 'b/main.conf'."""

    def __init__(self, styled=False):
        self.files = {}
        self.serial = 0
        self.cuts = []
        # how an %include line names its target: relative to the including
        # file (default), './'-relative, by absolute path or by file: URL
        self.styled = styled
        self.ref_styles = {}
        # files written without a line terminator after their last line
        self.unterminated = set()

    def new_path(self, rng, place=None):
        self.serial += 1
        place = place or rng.choice(PLACES)
        name = "f%d.conf" % self.serial
        if self.serial % 4 == 3:
            # a '$' in a file name is written '$$' in the reference
            name = "p$%d.conf" % self.serial
        return {"same": "b/" + name, "sub": "b/sub/" + name,
                "parent": name, "subsub": "b/sub/deep/" + name}[place], place

    def write(self, root):
        for rel, text in self.texts().items():
            p = os.path.join(root, *rel.split("/"))
            os.makedirs(os.path.dirname(p), exist_ok=True)
            with open(p, "w") as f:
                f.write(materialise(text, root))
        return os.path.join(root, "b", "main.conf")

    def texts(self):
        """Render; include lines reference their target relative to the
        directory of the file that finally contains them."""
        out = {}
        for path, lines in self.files.items():
            r = []
            for l in lines:
                if isinstance(l, tuple):
                    ref = posixpath.relpath(l[1], posixpath.dirname(path))
                    ref = ref.replace("$", "$$")
                    style = self.ref_styles.get(l[1], "rel")
                    pre = ""
                    if style == "dot":
                        ref = "./" + ref
                    elif style == "abs":
                        ref = ROOT_MARK + "/" + l[1].replace("$", "$$")
                    elif style == "url":
                        ref = ROOT_URL_MARK + "/" + l[1].replace("$", "$$")
                    elif style == "defabs":
                        # the whole reference comes from a definition that
                        # holds an absolute path
                        dn = "zcvref%d" % zlib.crc32(
                            ("%s|%d|%s" % (path, len(r), l[1])).encode())
                        pre = "%s%%define %s %s/%s\n" % (
                            l[2], dn, ROOT_MARK, l[1].replace("$", "$$"))
                        ref = "$" + dn
                    elif style == "defup":
                        # ... or its first segments, followed by as many
                        # '..': the reference is the text after expansion
                        dn = "zcvdir%d" % zlib.crc32(
                            ("%s|%d|%s" % (path, len(r), l[1])).encode())
                        pre = "%s%%define %s zcv-a/zcv-b\n" % (l[2], dn)
                        ref = "${%s}/../../%s" % (dn, ref)
                    l = pre + l[2] + "%include " + ref
                r.append(l)
            out[path] = "".join(x + "\n" for x in r)
            if path in self.unterminated and out[path].endswith("\n"):
                out[path] = out[path][:-1]
        return out


ROOT_MARK = "@ZCV-ROOT@"
ROOT_URL_MARK = "@ZCV-ROOT-URL@"


def materialise(text, root):
    """Replace the markers of absolute references by the case root."""
    if "@ZCV-ROOT" not in text:
        return text
    import urllib.request
    return text.replace(ROOT_URL_MARK, "file://" +
                        urllib.request.pathname2url(root)) \
        .replace(ROOT_MARK, root)


def _cut_into(rng, layout, lines, my_path, budget, ranges_fn):
    """Cut one range of *lines* (a file at my_path) into a new file;
    returns the new outer lines and remaining budget."""
    ranges = ranges_fn(lines)
    if not ranges or budget <= 0:
        return lines, budget
    i, j = rng.choice(ranges)
    frag_path, place = layout.new_path(rng)
    if layout.styled:
        layout.ref_styles[frag_path] = rng.choice(
            ["rel", "rel", "rel", "dot", "url", "defup"] +
            ([] if layout.styled == "noabs" else ["defabs"]) +
            # (a bare absolute path cannot be written when it contains
            # characters that mean something in a URL reference)
            ([] if layout.styled == "noabs" else ["abs"]))
    frag = list(lines[i:j])
    budget -= 1
    layout.cuts.append({"file": frag_path, "place": place,
                        "from": my_path, "lines": [i + 1, j]})
    if budget > 0 and rng.random() < 0.5:
        frag, budget = _cut_into(rng, layout, frag, frag_path, budget,
                                 balanced_ranges)
    layout.files[frag_path] = frag
    indent = rng.choice(["", "  ", "\t"])
    outer = lines[:i] + [("inc", frag_path, indent)] + lines[j:]
    return outer, budget


def cut_text(rng, text, n_cuts=None, unbalanced=False, styled=False):
    """-> Layout with 1..3 cuts (the first one unbalanced if requested)."""
    lines = refparse.split_lines(text)
    layout = Layout(styled)
    budget = n_cuts or rng.randint(1, 3)
    main = lines
    if unbalanced:
        main, budget = _cut_into(rng, layout, main, "b/main.conf", 1,
                                 unbalanced_ranges)
        if not layout.cuts:
            return None
    else:
        tries = 0
        while budget > 0 and tries < 4:
            tries += 1
            before = budget
            main, budget = _cut_into(rng, layout, main, "b/main.conf",
                                     budget, balanced_ranges)
            if budget == before:
                break
            if rng.random() < 0.4:
                break
        if not layout.cuts:
            return None
    layout.files["b/main.conf"] = main
    return layout
