"""Layout rewrites (C15) and define-introduction on text trees.

Trees are the node dicts of gen.texts.  A node may carry '_ci' (True when
the container's key type is case-insensitive; set by annotate()).
"""

import copy

from . import family, texts

KINDS = ["indent", "trailing", "blank", "comment", "case-type", "case-name",
         "case-key", "empty-form", "reorder", "define-case"]


def annotate(res, root):
    """Mark every node with whether its key type is case-insensitive."""
    for node, cont, _ in texts.containers_of(res, root):
        node["_ci"] = bool(cont is not None and cont.keytype != "identifier")
        node["_kt"] = cont.keytype if cont is not None else None
    return root


def definify(rng, root, p=0.5):
    """Replace some key values by references to new top-level defines.
    Returns the number of defines introduced."""
    defs = []
    serial = [0]

    local = rng.random() < 0.35

    def rec(node, depth=0):
        out = []
        for it in node["items"]:
            out.append(it)
            if it[0] == "k" and "$" not in it[2] and it[2] != "" \
                    and rng.random() < p:
                serial[0] += 1
                name = "Def%d" % serial[0]
                d = "%%define %s %s" % (name, it[2])
                if local and depth > 0 and rng.random() < 0.7:
                    # the definition stands inside the section, right
                    # before its use (a definition may stand anywhere)
                    out.insert(len(out) - 1, ["raw", d])
                    count[0] += 1
                else:
                    defs.append(d)
                form = rng.random()
                it[2] = ("$" + name) if form < 0.5 else "${%s}" % name
            elif it[0] == "k" and it[2] == "" and rng.random() < p:
                # a definition without a value (the empty string)
                serial[0] += 1
                name = "Nil%d" % serial[0]
                defs.append("%%define %s" % name)
                it[2] = ("$" + name) if rng.random() < 0.5 \
                    else "${%s}" % name
            elif it[0] == "s":
                rec(it[1], depth + 1)
        node["items"][:] = out
    count = [0]
    rec(root)
    if rng.random() < 0.15:
        # a value-less definition nobody refers to, now and then defined
        # again: without a value (accepted) or with one (rejected)
        serial[0] += 1
        defs.append("%%define Void%d" % serial[0])
        r = rng.random()
        if r < 0.3:
            defs.append("%%define Void%d" % serial[0])
        elif r < 0.6:
            defs.append("%%define Void%d -x" % serial[0])
    if defs and rng.random() < 0.3:
        # a re-definition: the same value (accepted) or another value
        # (rejected); its name may later be re-cased by a rewrite
        d = defs[rng.randrange(len(defs))]
        parts = (d.split(None, 2) + [""])[:3]
        same = rng.random() < 0.5
        defs.append(("%%define %s %s" % (parts[1], parts[2] if same
                                         else parts[2] + "x")).rstrip())
    root["items"][0:0] = [["raw", d] for d in defs]
    return len(defs) + count[0]


def _swapcase(rng, s):
    r = rng.random()
    if r < 0.4:
        t = s.upper()
    elif r < 0.7:
        t = s.lower()
    else:
        t = "".join(c.upper() if rng.random() < 0.5 else c.lower()
                    for c in s)
    # only a change of letter case: 'ß'.upper() == 'SS' and 'ſ'.upper() ==
    # 'S' would change the name itself
    if t.lower() != s.lower():
        return s
    return t


def _reorder(rng, node, norm):
    """Random interleaving that keeps the relative order of sections, of raw
    lines, of key lines normalising to the same key, and never moves a key
    line across a raw line (directives)."""
    items = node["items"]
    segs = [[]]
    for it in items:
        if it[0] == "raw":
            segs.append([it])
            segs.append([])
        else:
            segs[-1].append(it)
    out = []
    for seg in segs:
        if len(seg) < 2 or seg[0][0] == "raw":
            out.extend(seg)
            continue
        # group into order-constrained chains
        chains = {}
        for it in seg:
            if it[0] == "s":
                chains.setdefault(("s",), []).append(it)
            else:
                chains.setdefault(("k", norm(it[1])), []).append(it)
        pools = list(chains.values())
        res = []
        while pools:
            ch = rng.choice(pools)
            res.append(ch.pop(0))
            if not ch:
                pools.remove(ch)
        out.extend(res)
    node["items"][:] = out


def rewrite(rng, root, kinds=None, p_site=0.5):
    """Return (text, kinds applied).  *root* must be annotate()d."""
    if kinds is None:
        kinds = rng.sample(KINDS, rng.randint(1, 5))
    kinds = set(kinds)
    root = copy.deepcopy(root)
    renames = {}

    def rec(node):
        ci = node.get("_ci", False)
        kt = node.get("_kt")
        if "reorder" in kinds and rng.random() < p_site:
            def norm(k):
                if kt is None:
                    return k
                try:
                    n = family.norm_key(kt, k)
                except ValueError:
                    n = None
                return n if n is not None else ("?", k)
            _reorder(rng, node, norm)
        for it in node["items"]:
            if it[0] == "k":
                if "case-key" in kinds and ci and rng.random() < p_site:
                    it[1] = _swapcase(rng, it[1])
            elif it[0] == "s":
                n = it[1]
                if "case-type" in kinds and rng.random() < p_site:
                    n["type"] = _swapcase(rng, n["type"])
                if "case-name" in kinds and n["name"] and \
                        rng.random() < p_site:
                    n["name"] = _swapcase(rng, n["name"])
                if "empty-form" in kinds and not n["items"] and \
                        rng.random() < p_site:
                    n["form"] = "pair" if n["form"] == "empty" else "empty"
                rec(n)
    rec(root)
    if "define-case" in kinds:
        # change the case of defined names and, independently, of references
        def refcase(node):
            for it in node["items"]:
                if it[0] == "raw" and it[1].startswith("%define "):
                    # (a definition without a value has two parts)
                    parts = it[1].split(None, 2)
                    if rng.random() < p_site:
                        parts[1] = _swapcase(rng, parts[1])
                    it[1] = " ".join(parts)
                elif it[0] == "k" and it[2].startswith("$") and \
                        not it[2].startswith("$$"):
                    if rng.random() < p_site:
                        it[2] = _swapcase(rng, it[2])
                elif it[0] == "s":
                    refcase(it[1])
        refcase(root)
    lines = [l for l, _ in texts.render_lines(root)]
    out = []
    for l in lines:
        body = l.strip()
        ind = l[:len(l) - len(l.lstrip())]
        if "indent" in kinds and rng.random() < p_site:
            ind = rng.choice(["", " ", "\t", "    ", " \t ", "\x0c", "\x0b ",
                              "\u00a0", " \r"])
        if "blank" in kinds and rng.random() < p_site * 0.5:
            out.append(rng.choice(["", "   ", "\t", "\r", "\x0c", " \x0b"]))
        if "comment" in kinds and rng.random() < p_site * 0.5:
            # a comment runs to the end of its line ("\n"); characters
            # that other line splitters treat as line ends do not end it
            out.append(rng.choice(["# comment", "  #<x>", "#%define a b",
                                   "\t# k v", "# old:\x0cnosuchkey on",
                                   "#\x0b</nosuchtype>", "# a\u2028<b>",
                                   "#\x85%define q r", "# x\ry z",
                                   "#\x1c(", "# p\u2029%include nosuch",
                                   "#\x1d\x1e</>", "#",
                                   "# C:\\old\\", "#\\",
                                   # editor mode lines are comments too
                                   "# -*- coding: latin-1 -*-",
                                   "# vim: set fileencoding=cp1252 :",
                                   "#!coding=utf-16",
                                   "# end\x1a", "#\x1a", "\x1a# x"[1:]]))
        if "trailing" in kinds and rng.random() < p_site:
            # "\r" makes the line end CRLF; the others are whitespace too
            body += rng.choice([" ", "\t", "  \t ", "\r", " \r", "\x0c",
                                "\x0b", "\u00a0", "\u2028"])
        # a value-less key line keeps meaning with trailing blanks; values
        # are never touched (inner whitespace of the body is kept)
        out.append(ind + body)
    if "blank" in kinds and rng.random() < 0.5:
        out.append("")
    return "".join(l + "\n" for l in out), sorted(kinds)
