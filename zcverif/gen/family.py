"""The generated schema family (DESIGN.md 3.1).

A model is plain JSON-able data:

model = {'keytype': kt, 'datatype': None|'wrap', 'handler': None|str,
         'children': [child], 'types': [typedef]}
typedef = {'kind': 'abstract', 'name': n}
        | {'kind': 'section', 'name': n, 'keytype': None|kt,
           'datatype': None|'wrap'|'wrap2', 'extends': None|n,
           'implements': None|n, 'children': [child]}
child = {'kind': 'key'|'multikey'|'section'|'multisection', 'name': str,
         'attribute': None|str, 'required': bool, 'handler': None|str,
         # keys:
         'datatype': dt, 'default': None|str, 'defaults': [...],
         # sections:
         'type': typename}
For '+' keys 'defaults' is a list of [key, value] pairs, for multikeys a list
of strings; 'default' (attribute form) only for single non-wildcard keys.
"""

import itertools
from xml.sax.saxutils import escape, quoteattr

KEYTYPES = ["basic-key", "identifier", "ipaddr-or-hostname"]
DT_DOTTED = {"wrap": "zcverif_dt.fam.wrap", "wrap2": "zcverif_dt.fam.wrap2",
             "epoch": "zcverif_dt.epoch"}

# ---------------------------------------------------------------------------
# reference key normalisation (ASCII vocabulary only)

_L = "abcdefghijklmnopqrstuvwxyz"
_LU = _L + _L.upper()
_D = "0123456789"


def norm_key(kt, s):
    """Normalised key or None when *s* is not a legal key of key type *kt*.
    Only meant for the ASCII vocabulary this module generates."""
    if s == "" or any(ord(c) > 126 or ord(c) < 33 for c in s):
        return None
    if kt == "basic-key":
        if s[0] not in _LU:
            return None
        if any(c not in _LU + _D + "-._" for c in s):
            return None
        return s.lower()
    if kt == "identifier":
        if s[0] not in _LU + "_":
            return None
        if any(c not in _LU + _D + "_" for c in s):
            return None
        return s
    if kt == "ipaddr-or-hostname":
        parts = s.split(".")
        if len(parts) == 4 and all(p != "" and all(c in _D for c in p)
                                   for p in parts):
            if all(len(p) <= 3 and int(p) <= 255 for p in parts):
                return s
            # e.g. 999.1.1.1: not a quad; cannot be a host name either
            return None
        if ":" in s:
            raise ValueError("IPv6 keys are outside the family vocabulary")
        if len(s) < 2:
            return None
        if s[0] not in _LU + "_":
            return None
        if any(c not in _LU + _D + "-_." for c in s):
            return None
        if s[-1] == ".":
            return None
        return s.lower()
    raise ValueError(kt)


def basic_key(s):
    return norm_key("basic-key", s)


def derive_attribute(name):
    """Attribute name derived from a key / fixed section name, or None if
    the schema language requires an explicit one."""
    b = basic_key(name)
    if b is None:
        return None
    a = b.replace("-", "_")
    if norm_key("identifier", a) is None:
        return None
    return a


# ---------------------------------------------------------------------------
# value vocabulary: text -> expected Python value (table-driven reference)

ERR = ("ERR",)

VALID = {
    "string": [("v", "v"), ("a  b", "a  b"), ("", ""), ("a$$b", "a$b"),
               ("(p)", "(p)"), ("<x>", "<x>"), ("42", "42"),
               # a backslash is an ordinary character, also at the end
               ("C:\\data\\", "C:\\data\\"),
               # text is kept as written: no Unicode (de)composition
               ("re\u0301sume\u0301 \u212b", "re\u0301sume\u0301 \u212b"),
               # quotes, assignment signs and comment characters inside a
               # value are ordinary characters
               ('"quoted text"', '"quoted text"'), ("'q'", "'q'"),
               ('"a","b"', '"a","b"'), ("= v", "= v"), ("# x", "# x"),
               ("x # y", "x # y"), ("; z =", "; z =")],
    "null": [("v", "v"), ("", ""), ("x y", "x y"), ('"n"', '"n"')],
    "integer": [("0", 0), ("42", 42), ("-7", -7), ("007", 7)],
    "boolean": [("yes", True), ("TRUE", True), ("On", True), ("no", False),
                ("False", False), ("OFF", False)],
    "float": [("1.5", 1.5), ("-2", -2.0), ("1e3", 1000.0), ("0", 0.0)],
    "port-number": [("0", 0), ("80", 80), ("65535", 65535)],
    "byte-size": [("10", 10), ("1kb", 1024), ("2MB", 2097152),
                  ("1Gb", 1073741824)],
    "time-interval": [("10", 10), ("2m", 120), ("1H", 3600), ("1d", 86400),
                      ("5s", 5)],
    "identifier": [("abc", "abc"), ("_x1", "_x1"), ("Abc", "Abc")],
    "basic-key": [("Abc", "abc"), ("a-b.c", "a-b.c"), ("x", "x")],
    "string-list": [("a b  c", ["a", "b", "c"]), ("x", ["x"]), ("", []),
                    # words are separated by white space of any kind
                    ("u\u00a0v\u2003w\u3000x y", ["u", "v", "w", "x", "y"])],
    "inet-address": [("host:80", ("host", 80)), ("Host", ("host", None)),
                     ("8080", ("", 8080)), ("[::1]:80", ("::1", 80)),
                     # a number that is no port is a host name
                     ("70000", ("70000", None)), ("-1", ("-1", None)),
                     ("65536", ("65536", None))],
}
INVALID = {
    "string": [], "null": [],
    "integer": ["x", "1.5", "4 2", ""],
    "boolean": ["1", "maybe", ""],
    "float": ["x", "1,5", ""],
    "port-number": ["65536", "-1", "http"],
    "byte-size": ["kb", "1xb", "1.5kb"],
    "time-interval": ["m", "1w", "x"],
    "identifier": ["1a", "a-b", "a b"],
    "basic-key": ["1a", "_a", "a b"],
    "string-list": [],
    "inet-address": ["host:99999", "a b", ""],
}
# 'epoch' (result depends on the outside world) is used by C13's own
# section type only; it has no fixed expected values
VALID["epoch"] = [("e1", None), ("e2", None)]
INVALID["epoch"] = []
# 'zcvonly.int': integer under a name that only C12's own registry object
# knows (a registry is whatever offers get())
VALID["zcvonly.int"] = VALID["integer"]
INVALID["zcvonly.int"] = INVALID["integer"]
DATATYPES = sorted(d for d in VALID if d not in ("epoch", "zcvonly.int"))
# values that only a schema default can hold (a configuration line cannot
# contain a newline); <default> content is stripped, inner text kept
DEFAULT_EXTRA = {
    "string": [("a < > b", "a < > b"), ("x\ny", "x\ny"),
               ("p &\n < q", "p &\n < q")],
    "null": [("m\n\nn", "m\n\nn")],
    "string-list": [("a\nb  c", ["a", "b", "c"]), ("u < > v",
                                                   ["u", "<", ">", "v"])],
}


def convert(dt, text):
    """('ok', value) | ERR | None (text outside the vocabulary: unjudged)."""
    if dt in ("string", "null"):
        return ("ok", text)
    for t, v in DEFAULT_EXTRA.get(dt, ()):
        if t == text:
            return ("ok", v)
    for t, v in VALID[dt]:
        if t == text:
            return ("ok", v)
    if text in INVALID[dt]:
        return ERR
    return None


# ---------------------------------------------------------------------------
# name vocabularies

LONG_NAME = "k" + "x" * 69        # 70 characters: no limit is documented
KEY_NAMES = {
    # ('class', 'from': names are names, also when Python reserves them)
    "basic-key": ["alpha", "beta", "a-b", "gamma", "k.x", "delta9",
                  "x--y", LONG_NAME, "class", "from"],
    "identifier": ["alpha", "Beta", "a_b", "gamma", "Delta9", LONG_NAME,
                   "class", "pass"],
    "ipaddr-or-hostname": ["alpha", "host-b", "h1.example", "gamma",
                           "10.0.0.1", "x--y", LONG_NAME],
}
WILD_KEYS = {
    "basic-key": ["wild", "Wild", "w-2", "zed"],
    "identifier": ["wild", "Wild", "w_2", "zed"],
    "ipaddr-or-hostname": ["wild", "Wild", "w-2", "192.168.0.1"],
}
BAD_KEYS = {
    # ('+' and '*' are no keys under any key type: the wildcard's own mark
    # is not a name)
    "basic-key": ["1abc", "_x", "a$b", "+", "*"],
    "identifier": ["a-b", "1a", "a.b", "+", "*"],
    "ipaddr-or-hostname": ["-x", "999.1.1.1", "a", "1.2.3.256",
                           "10.0.0.260", "1.2.3", "256.1.1.1", "+", "*"],
}
FIXED_SLOT_NAMES = ["main", "aux", "extra", "import"]
SECTION_NAMES = ["n1", "n2", "N3", "main", "aux", "alpha", "zz",
                 # a backslash and U+001A are characters like any other
                 "c:\\spool", "a\\b", "n\x1az",
                 "Straße", "ΣΊΣΥΦΟΣ", "Maſt", "ÉCOLE",
                 # names may end in (or consist of) slashes: '<t dir//>' is
                 # the empty form of a section named 'dir/'
                 "dir/", "/Srv/www/", "//", "Re\u0301sume\u0301",
                 "n" + "y" * 79]
HANDLERS = ["h1", "h2", "H3", "h-4"]


# ---------------------------------------------------------------------------
# XML rendering

def _extra(a, c):
    """Apply c['extra_attrs'] (value None removes the attribute)."""
    ex = c.get("extra_attrs")
    if not ex:
        return a
    a = [(k, v) for k, v in a if k not in ex]
    a.extend((k, v) for k, v in ex.items() if v is not None)
    return a


def _child_xml(c, out, ind):
    a = []
    if c["kind"] in ("key", "multikey"):
        a.append(("name", c["name"]))
        if c.get("attribute"):
            a.append(("attribute", c["attribute"]))
        if c.get("raw_datatype"):
            a.append(("datatype", c["raw_datatype"]))
        elif c.get("datatype") and c["datatype"] != "string":
            a.append(("datatype", DT_DOTTED.get(c["datatype"],
                                                c["datatype"])))
        elif c.get("datatype") == "string" and c.get("explicit_dt"):
            a.append(("datatype", "string"))
        if c.get("required"):
            a.append(("required", "yes"))
        elif c.get("default") is not None and len(c["name"]) % 3 == 0:
            # the redundant spelling: not required, said so
            a.append(("required", "no"))
        if c.get("handler"):
            a.append(("handler", c["handler"]))
        if c.get("default") is not None:
            a.append(("default", c["default"]))
        a = _extra(a, c)
        attrs = "".join(" %s=%s" % (k, quoteattr(v)) for k, v in a)
        defaults = c.get("defaults") or []
        if not defaults:
            out.append("%s<%s%s/>" % (ind, c["kind"], attrs))
        else:
            out.append("%s<%s%s>" % (ind, c["kind"], attrs))
            for d in defaults:
                if isinstance(d, (list, tuple)):
                    out.append("%s  <default key=%s>%s</default>"
                               % (ind, quoteattr(d[0]), escape(d[1])))
                else:
                    out.append("%s  <default>%s</default>"
                               % (ind, escape(d)))
            out.append("%s</%s>" % (ind, c["kind"]))
    else:
        a.append(("type", c["type"]))
        if c["name"] != "*" or c.get("explicit_star"):
            a.append(("name", c["name"]))
        if c.get("attribute"):
            a.append(("attribute", c["attribute"]))
        if c.get("required"):
            a.append(("required", "yes"))
        if c.get("handler"):
            a.append(("handler", c["handler"]))
        a = _extra(a, c)
        attrs = "".join(" %s=%s" % (k, quoteattr(v)) for k, v in a)
        if c.get("inner_xml"):
            out.append("%s<%s%s>%s</%s>" % (ind, c["kind"], attrs,
                                            c["inner_xml"], c["kind"]))
        else:
            out.append("%s<%s%s/>" % (ind, c["kind"], attrs))


def render_types(types, out, skip_abstract=False):
    for t in types:
        if t["kind"] == "abstract":
            if not skip_abstract:
                out.append("  <abstracttype name=%s/>" % quoteattr(t["name"]))
            continue
        a = [("name", t["name"])]
        for k in ("extends", "implements", "keytype", "prefix"):
            if t.get(k):
                a.append((k, t[k]))
        if t.get("raw_datatype"):
            a.append(("datatype", t["raw_datatype"]))
        elif t.get("datatype"):
            a.append(("datatype", DT_DOTTED[t["datatype"]]))
        a = _extra(a, t)
        out.append("  <sectiontype%s>" % "".join(
            " %s=%s" % (k, quoteattr(v)) for k, v in a))
        for c in t["children"]:
            _child_xml(c, out, "    ")
        if t.get("inner_xml"):
            out.append("    " + t["inner_xml"])
        out.append("  </sectiontype>")


def render_xml(model, abstract_import=None, head_xml=None):
    """*abstract_import*: (package, file) - the abstract types are not
    written out but imported from that component file."""
    out = []
    a = []
    if model.get("keytype") and model["keytype"] != "basic-key":
        a.append(("keytype", model["keytype"]))
    if model.get("raw_datatype"):
        a.append(("datatype", model["raw_datatype"]))
    elif model.get("datatype"):
        a.append(("datatype", DT_DOTTED[model["datatype"]]))
    if model.get("handler"):
        a.append(("handler", model["handler"]))
    if model.get("prefix"):
        a.append(("prefix", model["prefix"]))
    if model.get("extends_attr"):
        a.append(("extends", model["extends_attr"]))
    a = _extra(a, model)
    out.append("<schema%s>" % "".join(" %s=%s" % (k, quoteattr(v))
                                      for k, v in a))
    if abstract_import:
        out.append("  <import package=%s file=%s/>"
                   % (quoteattr(abstract_import[0]),
                      quoteattr(abstract_import[1])))
    if head_xml:
        out.append("  " + head_xml)
    render_types(model["types"], out, skip_abstract=bool(abstract_import))
    for c in model["children"]:
        _child_xml(c, out, "  ")
    if model.get("inner_xml"):
        out.append("  " + model["inner_xml"])
    out.append("</schema>")
    return "\n".join(out) + "\n"


# ---------------------------------------------------------------------------
# resolution: effective containers

class Container:
    """Effective description of the top level or of a concrete type."""

    def __init__(self, name, keytype, datatype, children, handler=None):
        self.name = name
        self.keytype = keytype
        self.datatype = datatype
        self.children = children        # inherited first
        self.handler = handler

    def attr_of(self, c):
        if c.get("attribute"):
            return c["attribute"]
        return derive_attribute(c["name"])

    def declared_key(self, c):
        """Normalised declared name of a non-wildcard child, else None."""
        if c["name"] in ("+", "*"):
            return None
        return norm_key(c.get("_declared_under", self.keytype), c["name"])


class Resolved:
    def __init__(self, model):
        self.model = model
        self.types = {}        # name -> Container (concrete) | 'abstract'
        self.implementers = {}  # abstract name -> [concrete names]
        self.order = []
        for t in model["types"]:
            n = t["name"]
            self.order.append(n)
            if t["kind"] == "abstract":
                self.types[n] = "abstract"
                self.implementers.setdefault(n, [])
                continue
            base = self.types.get(t.get("extends")) if t.get("extends") \
                else None
            kt = t.get("keytype") or (base.keytype if base else "basic-key")
            dt = t.get("datatype") or (
                None if t.get("raw_datatype") == "null"
                else (base.datatype if base else None))
            children = []
            if base:
                for c in base.children:
                    c2 = dict(c)
                    c2.setdefault("_declared_under", base.keytype)
                    children.append(c2)
            children.extend(t["children"])
            self.types[n] = Container(n, kt, dt, children)
            if t.get("implements"):
                self.implementers[t["implements"]].append(n)
        self.top = Container(None, model.get("keytype") or "basic-key",
                             model.get("datatype"), model["children"],
                             model.get("handler"))

    def is_abstract(self, n):
        return self.types.get(n) == "abstract"

    def admits(self, slot, tname):
        st = slot["type"]
        if st == tname and not self.is_abstract(st):
            return True
        if self.is_abstract(st):
            return tname in self.implementers.get(st, [])
        return False

    def admitted(self, slot):
        st = slot["type"]
        if self.is_abstract(st):
            return list(self.implementers.get(st, []))
        return [st]

    def concrete_names(self):
        return [n for n in self.order if self.types[n] != "abstract"]


# ---------------------------------------------------------------------------
# random generation

def _gen_key_child(rng, cont_kt, used_names, used_attrs, has_wild, counter):
    """One key-ish child or None."""
    wildcard = (not has_wild) and rng.random() < 0.22
    multi = rng.random() < 0.4
    kind = "multikey" if multi else "key"
    dt = rng.choice(DATATYPES) if rng.random() < 0.7 else "string"
    c = {"kind": kind, "datatype": dt, "required": False, "handler": None,
         "attribute": None, "default": None, "defaults": []}
    if wildcard:
        c["name"] = "+"
        c["attribute"] = "wild_%d" % next(counter)
    else:
        pool = [n for n in KEY_NAMES[cont_kt]
                if norm_key(cont_kt, n) not in used_names]
        if not pool:
            return None
        name = rng.choice(pool)
        c["name"] = name
        attr = derive_attribute(name)
        if attr is None or attr in used_attrs or rng.random() < 0.15:
            # (an attribute name may begin with an underscore)
            attr = ("attr_%d" if rng.random() < 0.7 else "_attr_%d") \
                % next(counter)
            c["attribute"] = attr
    attr = c["attribute"] or derive_attribute(c["name"])
    if attr in used_attrs:
        return None
    r = rng.random()
    if r < 0.25:
        c["required"] = True
        if c["name"] == "+" and rng.random() < 0.4:
            # a required wildcard map may still carry defaults; they do not
            # count towards "filled"
            ks = rng.sample(WILD_KEYS[cont_kt], 1)
            c["defaults"] = [[ks[0], rng.choice(VALID[dt])[0].strip()]]
            c["_required_with_defaults"] = True
    elif r < 0.7:
        # defaults
        def dval():
            if rng.random() < 0.12 and INVALID[dt]:
                v = rng.choice(INVALID[dt])
            elif dt in DEFAULT_EXTRA and rng.random() < 0.25 and \
                    (kind == "multikey" or c["name"] == "+"):
                # element-form defaults only (an attribute value would have
                # its line breaks normalised by the XML parser)
                v = rng.choice(DEFAULT_EXTRA[dt])[0]
            else:
                v = rng.choice(VALID[dt])[0]
            return v.strip()
        if c["name"] == "+":
            ks = rng.sample(WILD_KEYS[cont_kt], rng.randint(1, 2))
            if len(ks) == 2 and norm_key(cont_kt, ks[0]) == \
                    norm_key(cont_kt, ks[1]):
                if kind == "key":
                    ks = ks[:1]
            c["defaults"] = [[k, dval()] for k in ks]
            if kind == "multikey" and rng.random() < 0.4:
                c["defaults"].append([ks[0], dval()])
        elif kind == "multikey":
            c["defaults"] = [dval() for _ in range(rng.randint(1, 3))]
        else:
            v = dval()
            if "<" not in v:
                # default="" is a legal (empty) default
                c["default"] = v
    # a required multikey may still have defaults (they count towards the
    # minimum, statement of C01); rarely generated
    if c["required"] and kind == "multikey" and c["name"] != "+" \
            and rng.random() < 0.3:
        c["defaults"] = [rng.choice(VALID[dt])[0].strip()]
        c["_required_with_defaults"] = True
    if rng.random() < 0.2:
        c["handler"] = rng.choice(HANDLERS)
    return c


def _gen_section_child(rng, cont_kt, used_names, used_attrs, types_avail,
                       counter):
    if not types_avail:
        return None
    multi = rng.random() < 0.4
    c = {"kind": "multisection" if multi else "section",
         "type": rng.choice(types_avail), "required": rng.random() < 0.25,
         "handler": rng.choice(HANDLERS) if rng.random() < 0.2 else None,
         "attribute": None}
    r = rng.random()
    if multi:
        c["name"] = "*" if r < 0.6 else "+"
    else:
        c["name"] = "*" if r < 0.4 else "+" if r < 0.6 else None
    if c["name"] is None:
        pool = [n for n in FIXED_SLOT_NAMES
                if norm_key(cont_kt, n) not in used_names]
        if not pool:
            c["name"] = "*"
        else:
            c["name"] = rng.choice(pool)
    if c["name"] in ("*", "+"):
        c["attribute"] = ("sect_%d" if rng.random() < 0.8 else "_sect_%d") \
            % next(counter)
    else:
        attr = derive_attribute(c["name"])
        if attr in used_attrs or rng.random() < 0.2:
            c["attribute"] = "sect_%d" % next(counter)
    attr = c["attribute"] or derive_attribute(c["name"])
    if attr in used_attrs:
        return None
    return c


def _gen_children(rng, cont_kt, n_keys, n_sects, types_avail, counter,
                  inherited=()):
    used_names = set()
    used_attrs = set()
    has_wild = False
    for c in inherited:
        if c["name"] == "+" and c["kind"] in ("key", "multikey"):
            has_wild = True
        elif c["name"] not in ("*", "+"):
            used_names.add(norm_key(c.get("_declared_under", cont_kt),
                                    c["name"]))
            # also reserve under the current key type
            k2 = norm_key(cont_kt, c["name"])
            if k2:
                used_names.add(k2)
        used_attrs.add(c.get("attribute") or derive_attribute(c["name"]))
    out = []
    for _ in range(n_keys):
        c = _gen_key_child(rng, cont_kt, used_names, used_attrs, has_wild,
                           counter)
        if c is None:
            continue
        if c["name"] == "+":
            has_wild = True
        else:
            used_names.add(norm_key(cont_kt, c["name"]))
        used_attrs.add(c.get("attribute") or derive_attribute(c["name"]))
        out.append(c)
    for _ in range(n_sects):
        c = _gen_section_child(rng, cont_kt, used_names, used_attrs,
                               types_avail, counter)
        if c is None:
            continue
        if c["name"] not in ("*", "+"):
            used_names.add(norm_key(cont_kt, c["name"]))
        used_attrs.add(c.get("attribute") or derive_attribute(c["name"]))
        out.append(c)
    rng.shuffle(out)
    return out


def random_model(rng, handlers=True, override_keytype=False):
    counter = itertools.count(1)
    top_kt = rng.choice(["basic-key"] * 3 + ["identifier",
                                             "ipaddr-or-hostname"])
    model = {"keytype": top_kt,
             "datatype": "wrap" if rng.random() < 0.15 else None,
             "handler": "top-h" if rng.random() < 0.2 else None,
             "children": [], "types": []}
    n_abs = rng.choice([0, 1, 1, 2])
    n_types = rng.randint(1, 5)
    abstracts = []
    concretes = []
    chain = {}
    plan = ["A"] * n_abs + ["S"] * n_types
    # abstract types first or interleaved
    if rng.random() < 0.5:
        rng.shuffle(plan)
    tno = itertools.count(1)
    for p in plan:
        if p == "A":
            n = "abs%d" % (len(abstracts) + 1)
            abstracts.append(n)
            model["types"].append({"kind": "abstract", "name": n})
            continue
        n = "t%d" % next(tno)
        t = {"kind": "section", "name": n, "keytype": None, "datatype": None,
             "extends": None, "implements": None, "children": []}
        base = None
        if concretes and rng.random() < 0.3:
            cand = [c for c in concretes if chain.get(c, 0) < 2]
            if cand:
                t["extends"] = rng.choice(cand)
                chain[n] = chain.get(t["extends"], 0) + 1
                base = t["extends"]
        if abstracts and rng.random() < 0.5:
            t["implements"] = rng.choice(abstracts)
        if rng.random() < 0.25:
            t["datatype"] = rng.choice(["wrap", "wrap2"])
        elif base is not None and rng.random() < 0.2:
            # an explicit 'null': the base's section datatype is not
            # inherited then
            t["raw_datatype"] = "null"
        res = Resolved(model)
        if base is None:
            if rng.random() < 0.3:
                t["keytype"] = rng.choice(KEYTYPES)
            kt = t["keytype"] or "basic-key"
            inherited = []
        else:
            kt = res.types[base].keytype
            if override_keytype and rng.random() < 0.5:
                t["keytype"] = rng.choice(KEYTYPES)
                kt = t["keytype"]
            inherited = res.types[base].children
        avail = concretes + abstracts
        if rng.random() < 0.15:
            avail = avail + [n]          # self-reference
        t["children"] = _gen_children(
            rng, kt, rng.randint(0, 3), rng.randint(0, 2) if avail else 0,
            avail, counter, inherited)
        # a self-referential slot must be optional, or no text can fill it
        for c in t["children"]:
            if c.get("type") == n:
                c["required"] = False
        model["types"].append(t)
        concretes.append(n)
    model["children"] = _gen_children(
        rng, top_kt, rng.randint(0, 4), rng.randint(1, 3),
        concretes + abstracts, counter)
    if not handlers:
        strip_handlers(model)
    return model


def targeted_extends_model(rng):
    """Base type whose only children are wildcard keys with defaults keyed
    in mixed case; derived types (chain <=2) overriding the key type in
    every direction; all declared names are fixed points."""
    def wild(kind, attr):
        ks = rng.sample(["Wild", "wild", "Zed", "w2", "ALPHA"], 3)
        dfl = [[k, rng.choice(["a", "b", "c"])] for k in ks]
        return {"kind": kind, "name": "+", "attribute": attr,
                "datatype": "string", "required": False, "handler": None,
                "default": None, "defaults": dfl}
    k1, k2, k3 = (rng.choice(KEYTYPES) for _ in range(3))
    types = [
        {"kind": "section", "name": "tb", "keytype": k1, "datatype": None,
         "extends": None, "implements": None,
         "children": [wild(rng.choice(["key", "multikey"]), "wmap")]},
        {"kind": "section", "name": "td", "keytype": k2, "datatype": None,
         "extends": "tb", "implements": None, "children": []},
        {"kind": "section", "name": "te",
         "keytype": k3 if rng.random() < 0.6 else None, "datatype": None,
         "extends": "td", "implements": None, "children": []},
    ]
    w = types[0]["children"][0]
    # unnamed section slots in front of (or behind) the wildcard key: the
    # base type then has more children than named ones
    if rng.random() < 0.5:
        leafs = [{"kind": "section", "name": n, "keytype": None,
                  "datatype": None, "extends": None, "implements": None,
                  "children": []} for n in ("tl", "tl2")]
        types[0:0] = leafs
        slots = [{"kind": "multisection", "name": "*", "type": "tl",
                  "required": False, "handler": None, "attribute": "subs"},
                 {"kind": "section", "name": rng.choice(["*", "+"]),
                  "type": "tl2", "required": False, "handler": None,
                  "attribute": "sub1"}][:rng.randint(1, 2)]
        tb = types[2]
        if rng.random() < 0.7:
            tb["children"][0:0] = slots
        else:
            tb["children"].extend(slots)
    if w["kind"] == "key":
        seen = set()
        keep = []
        for k, v in w["defaults"]:
            if k.lower() in seen:
                continue
            seen.add(k.lower())
            keep.append([k, v])
        w["defaults"] = keep
    children = [{"kind": "multisection", "name": "*", "type": t,
                 "required": False, "handler": None,
                 "attribute": "s_" + t} for t in ("tb", "td", "te")]
    return {"keytype": "basic-key", "datatype": None, "handler": None,
            "children": children, "types": types}


def strip_handlers(model):
    model["handler"] = None
    for c in model["children"]:
        c["handler"] = None
    for t in model["types"]:
        for c in t.get("children", []):
            c["handler"] = None


# ---------------------------------------------------------------------------
# systematic small containers

def _kinds(kt):
    """The child-kind alphabet for systematic enumeration."""
    K = []
    for req, dflt in ((False, False), (False, True), (True, False)):
        K.append(("key", "alpha", "integer", req, dflt))
        K.append(("multikey", "beta" if kt != "identifier" else "Beta",
                  "string", req, dflt))
        K.append(("key", "+", "integer", req, dflt))
        K.append(("multikey", "+", "string", req, dflt))
    K.append(("multikey", "gamma", "boolean", True, True))
    for ty in ("t1", "abs1"):
        for req in (False, True):
            K.append(("section", "main", ty, req))
            K.append(("section", "*", ty, req))
            K.append(("section", "+", ty, req))
            K.append(("multisection", "*", ty, req))
            K.append(("multisection", "+", ty, req))
    return K


def _mk_child(kind, idx, kt):
    if kind[0] in ("key", "multikey"):
        k, name, dt, req, dflt = kind
        c = {"kind": k, "name": name, "datatype": dt, "required": req,
             "handler": None, "attribute": None, "default": None,
             "defaults": []}
        if name == "+":
            c["attribute"] = "wild_%d" % idx
        if dflt:
            v = VALID[dt][1][0]
            if name == "+":
                c["defaults"] = [["wild", v]]
                if k == "multikey":
                    c["defaults"].append(["wild", VALID[dt][0][0]])
            elif k == "multikey":
                c["defaults"] = [v, VALID[dt][0][0]]
            else:
                c["default"] = v
        return c
    k, name, ty, req = kind
    c = {"kind": k, "name": name, "type": ty, "required": req,
         "handler": None, "attribute": None}
    if name in ("*", "+"):
        c["attribute"] = "sect_%d" % idx
    return c


_BASE_TYPES = [
    {"kind": "abstract", "name": "abs1"},
    {"kind": "section", "name": "t1", "keytype": None, "datatype": None,
     "extends": None, "implements": None, "children": [
         {"kind": "key", "name": "alpha", "datatype": "integer",
          "required": False, "handler": None, "attribute": None,
          "default": "42", "defaults": []}]},
    {"kind": "section", "name": "t2", "keytype": None, "datatype": None,
     "extends": None, "implements": "abs1", "children": [
         {"kind": "key", "name": "beta", "datatype": "string",
          "required": False, "handler": None, "attribute": None,
          "default": None, "defaults": []}]},
    {"kind": "section", "name": "t3", "keytype": None, "datatype": "wrap",
     "extends": None, "implements": "abs1", "children": []},
    {"kind": "section", "name": "t4", "keytype": None, "datatype": None,
     "extends": "t2", "implements": None, "children": [
         {"kind": "multikey", "name": "gamma", "datatype": "boolean",
          "required": False, "handler": None, "attribute": None,
          "default": None, "defaults": []}]},
]


def systematic_models():
    """Every multiset of <=2 child kinds at top level over fixed types."""
    import copy
    serial = 0
    for kt in ("basic-key", "identifier"):
        kinds = _kinds(kt)
        combos = [(a,) for a in kinds] + \
            list(itertools.combinations_with_replacement(kinds, 2))
        for combo in combos:
            children = []
            names = set()
            attrs = set()
            wild = 0
            ok = True
            for i, kd in enumerate(combo):
                c = _mk_child(kd, i, kt)
                if c["name"] == "+" and c["kind"] in ("key", "multikey"):
                    wild += 1
                    if wild > 1:
                        ok = False
                elif c["name"] not in ("*", "+"):
                    if c["name"] in names:
                        ok = False
                    names.add(c["name"])
                a = c.get("attribute") or derive_attribute(c["name"])
                if a in attrs:
                    ok = False
                attrs.add(a)
                children.append(c)
            if not ok:
                continue
            unnamed = [c for c in children
                       if c["kind"] in ("section", "multisection")
                       and c["name"] in ("*", "+")]
            if len(unnamed) == 2 and unnamed[0]["type"] == \
                    unnamed[1]["type"]:
                # ambiguous by construction (unjudged): keep one in five
                serial += 1
                if serial % 5:
                    continue
            yield {"keytype": kt, "datatype": None, "handler": None,
                   "children": children,
                   "types": copy.deepcopy(_BASE_TYPES)}


def add_handlers(rng, model, density=0.5):
    """Put handler attributes on a random subset of items (C16)."""
    if rng.random() < density:
        model["handler"] = rng.choice(HANDLERS + ["top-h"])
    for cont in [model] + [t for t in model["types"]
                           if t["kind"] == "section"]:
        for c in cont["children"]:
            c["handler"] = rng.choice(HANDLERS) if rng.random() < density \
                else None
    return model
