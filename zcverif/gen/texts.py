"""Configuration texts for the generated schema family (DESIGN.md 3.2).

A text is built as a small tree so that faults, rewrites, cuts and edits can
operate on structure:

node = {'type': str|None, 'name': str|None, 'form': 'pair'|'empty',
        'items': [item]}
item = ['k', key, value] | ['s', node] | ['raw', line]

render(node) -> text;  render_lines(node) -> [(line, ref)] where ref
identifies what produced the line (used by C08).

The generator's intent is never the oracle: acceptance is decided by the
reference model on the rendered text.
"""

from . import family


def mknode(type_=None, name=None, form="pair"):
    return {"type": type_, "name": name, "form": form, "items": []}


def render_lines(node, indent="", out=None, path=()):
    """[(text_line, (path, role))], role in 'key','open','close','empty',
    'raw'."""
    if out is None:
        out = []
    for i, it in enumerate(node["items"]):
        p = path + (i,)
        if it[0] == "k":
            # a value that begins with a parenthesis needs no blank after
            # the key (the key ends where the parenthesis starts): written
            # both ways
            glue = it[2][:1] in ("(", ")") and (len(it[1]) + len(p)) % 2 == 0
            line = indent + it[1] + (
                (("" if glue else " ") + it[2]) if it[2] != "" else "")
            out.append((line, (p, "key")))
        elif it[0] == "raw":
            out.append((indent + it[1], (p, "raw")))
        else:
            n = it[1]
            head = n["type"] + ((" " + n["name"]) if n["name"] else "")
            if n["form"] == "empty" and not n["items"]:
                out.append(("%s<%s/>" % (indent, head), (p, "empty")))
            else:
                # a header token ending in '/' needs a blank before '>',
                # or the line would be the empty form
                out.append(("%s<%s%s>" % (indent, head,
                                          " " if head.endswith("/") else ""),
                            (p, "open")))
                render_lines(n, indent + "  ", out, p)
                out.append(("%s</%s>" % (indent, n["type"]), (p, "close")))
    return out


def render(node):
    return "".join(l + "\n" for l, _ in render_lines(node))


def variant(rng, s, insensitive=True):
    if not insensitive:
        return s
    r = rng.random()
    if r < 0.7:
        return s
    if r < 0.85:
        return s.upper()
    return s.capitalize()


# lengths around the sizes of read buffers (4 KiB, 8 KiB): a line is a line
# however long it is
LONG_LENGTHS = [4070, 4090, 4100, 8170, 8190, 8200, 8300, 16500]
P_LONG = 0.004


def _value(rng, dt, p_bad=0.04):
    if family.INVALID[dt] and rng.random() < p_bad:
        return rng.choice(family.INVALID[dt])
    if dt in ("string", "null") and rng.random() < P_LONG:
        n = rng.choice(LONG_LENGTHS)
        # words, so that a piece cut off anywhere reads as a line of its own
        w = rng.choice(["beta ", "k v ", "L", "<a> ", "%define x "])
        return (w * (n // len(w) + 1))[:n].strip()
    return rng.choice(family.VALID[dt])[0]


class Gen:
    def __init__(self, rng, res, max_depth=3, p_bad_value=0.04):
        self.rng = rng
        self.res = res
        self.max_depth = max_depth
        self.p_bad = p_bad_value
        self.serial = 0

    def fresh_name(self):
        self.serial += 1
        if self.rng.random() < 0.15:
            return self.rng.choice(family.SECTION_NAMES)
        return "s%d" % self.serial

    def fill(self, node, cont, depth):
        rng = self.rng
        kt = cont.keytype
        insens = kt != "identifier"
        items = node["items"]
        for c in cont.children:
            kind = c["kind"]
            if kind in ("key", "multikey"):
                dt = c["datatype"]
                if c["name"] == "+":
                    n = rng.randint(1 if c["required"] else 0, 3)
                    keys = rng.sample(family.WILD_KEYS[kt],
                                      min(n, len(family.WILD_KEYS[kt])))
                    seen = set()
                    for k in keys:
                        nk = family.norm_key(kt, k)
                        if nk in seen and kind == "key":
                            continue
                        seen.add(nk)
                        for _ in range(rng.randint(1, 2)
                                       if kind == "multikey" else 1):
                            items.append(["k", k, _value(rng, dt,
                                                         self.p_bad)])
                else:
                    if kind == "key":
                        n = 1 if c["required"] else \
                            (1 if rng.random() < 0.6 else 0)
                    else:
                        n = rng.randint(1 if c["required"] and
                                        not c.get("defaults") else 0, 3)
                    for _ in range(n):
                        items.append(["k", variant(rng, c["name"], insens),
                                      _value(rng, dt, self.p_bad)])
            else:
                admitted = self.res.admitted(c)
                if not admitted:
                    continue
                if kind == "section":
                    n = 1 if c["required"] else \
                        (1 if rng.random() < 0.5 else 0)
                else:
                    n = rng.randint(1 if c["required"] else 0, 3)
                if depth >= self.max_depth and not c["required"]:
                    n = 0
                if depth >= self.max_depth + 2:
                    n = 0
                for _ in range(n):
                    t = rng.choice(admitted)
                    if c["name"] == "*":
                        name = None if rng.random() < 0.5 else \
                            self.fresh_name()
                    elif c["name"] == "+":
                        name = self.fresh_name()
                    else:
                        name = c["name"]
                    if name:
                        name = variant(rng, name)
                    child = mknode(variant(rng, t), name)
                    self.fill(child, self.res.types[t], depth + 1)
                    if not child["items"] and rng.random() < 0.5:
                        child["form"] = "empty"
                    items.append(["s", child])
        if rng.random() < 0.4:
            rng.shuffle(items)
        return node

    def instance(self):
        return self.fill(mknode(), self.res.top, 0)


# ---------------------------------------------------------------------------
# fault catalogue

def containers_of(res, node, cont=None, path=(), out=None):
    """[(node, container|None, path)] for the tree."""
    if out is None:
        out = []
        cont = res.top
    out.append((node, cont, path))
    for i, it in enumerate(node["items"]):
        if it[0] == "s":
            t = (it[1]["type"] or "").lower()
            sub = res.types.get(t)
            if sub == "abstract":
                sub = None
            containers_of(res, it[1], sub, path + (i,), out)
    return out


FAULTS = ["unknown-key", "bad-key", "repeat-single", "repeat-wild",
          "key-is-slot-name", "unknown-type", "abstract-direct",
          "not-admitted", "unnamed-in-plus", "wrong-fixed-name",
          "literal-star-name", "reuse-name", "second-in-single",
          "missing-required", "bad-value", "raw-junk", "name-is-key",
          "reuse-name-across-slots", "fixed-name-wrong-type"]

JUNK = ["<a b c>", "(x", "</zz>", "<", "<>", "%bogus x", "%define", "k $",
        "k ${x", "k $nope", "</", "<a", "%import", ")"]


def apply_fault(rng, res, root, kind=None):
    """Mutate the tree with one fault; returns a description or None when
    the fault kind is not applicable."""
    kind = kind or rng.choice(FAULTS)
    conts = containers_of(res, root)
    rng.shuffle(conts)
    for node, cont, path in conts:
        d = _fault_in(rng, res, node, cont, kind)
        if d:
            return {"kind": kind, "path": list(path), "what": d}
    return None


def _ins(rng, node, item):
    node["items"].insert(rng.randint(0, len(node["items"])), item)


def _fault_in(rng, res, node, cont, kind):
    if cont is None:
        return None
    kt = cont.keytype
    items = node["items"]
    children = cont.children
    slots = [c for c in children if c["kind"] in ("section", "multisection")]
    if kind == "unknown-key":
        _ins(rng, node, ["k", "nosuchkey", "v"])
        return "nosuchkey"
    if kind == "bad-key":
        k = rng.choice(family.BAD_KEYS[kt])
        _ins(rng, node, ["k", k, "v"])
        return k
    if kind == "repeat-single":
        singles = set()
        for c in children:
            if c["kind"] == "key" and c["name"] != "+":
                singles.add(family.norm_key(c.get("_declared_under", kt),
                                            c["name"]))
        cand = [it for it in items if it[0] == "k" and
                _safe_norm(kt, it[1]) in singles]
        if not cand:
            return None
        it = rng.choice(cand)
        _ins(rng, node, ["k", it[1], it[2]])
        return it[1]
    if kind == "repeat-wild":
        w = [c for c in children if c["kind"] == "key" and c["name"] == "+"]
        if not w:
            return None
        k = rng.choice(family.WILD_KEYS[kt])
        v = family.VALID[w[0]["datatype"]][0][0]
        _ins(rng, node, ["k", k, v])
        _ins(rng, node, ["k", k, v])
        return k
    if kind == "key-is-slot-name":
        fixed = [c for c in slots if c["name"] not in ("*", "+")]
        if not fixed:
            return None
        _ins(rng, node, ["k", fixed[0]["name"], "v"])
        return fixed[0]["name"]
    if kind == "unknown-type":
        _ins(rng, node, ["s", mknode("nosuchtype", None, "empty")])
        return "nosuchtype"
    if kind == "abstract-direct":
        abs_ = [n for n in res.order if res.is_abstract(n)]
        if not abs_:
            return None
        _ins(rng, node, ["s", mknode(rng.choice(abs_), None,
                                     rng.choice(["empty", "pair"]))])
        return "abstract"
    if kind == "not-admitted":
        adm = set()
        for c in slots:
            adm.update(res.admitted(c))
        cand = [n for n in res.concrete_names() if n not in adm]
        if not cand:
            return None
        t = rng.choice(cand)
        _ins(rng, node, ["s", mknode(t, rng.choice([None, "q1"]), "pair")])
        return t
    if kind == "unnamed-in-plus":
        plus = [c for c in slots if c["name"] == "+" and res.admitted(c)]
        if not plus:
            return None
        t = rng.choice(res.admitted(plus[0]))
        _ins(rng, node, ["s", mknode(t, None, "pair")])
        return t
    if kind == "wrong-fixed-name":
        cand = [it for it in items if it[0] == "s" and it[1]["name"] and
                any(c["name"] == it[1]["name"].lower() for c in slots)]
        if not cand:
            return None
        it = rng.choice(cand)
        it[1]["name"] = "othername"
        return "renamed"
    if kind == "literal-star-name":
        cand = [it for it in items if it[0] == "s"]
        if not cand:
            return None
        rng.choice(cand)[1]["name"] = rng.choice(["*", "+"])
        return "star"
    if kind == "reuse-name":
        cand = [it for it in items if it[0] == "s" and it[1]["name"]]
        if not cand:
            return None
        src = rng.choice(cand)[1]
        import copy
        dup = copy.deepcopy(src)
        _ins(rng, node, ["s", dup])
        return src["name"]
    if kind == "reuse-name-across-slots":
        # a second section with an already used name that binds to a
        # *different* slot (so only the name rule can refuse it)
        named = [it for it in items if it[0] == "s" and it[1]["name"]]
        if not named:
            return None
        src = rng.choice(named)[1]
        st = src["type"].lower()
        cand = []
        for c in slots:
            if c["name"] not in ("*", "+") or res.admits(c, st):
                continue
            for t in res.admitted(c):
                if not any(o is not c and o["name"] in ("*", "+") and
                           res.admits(o, t) for o in slots):
                    cand.append(t)
        if not cand:
            return None
        t = rng.choice(cand)
        dup = mknode(t, src["name"], "pair")
        Gen(rng, res, p_bad_value=0.0).fill(dup, res.types[t], 3)
        pos = items.index([it for it in items
                           if it[0] == "s" and it[1] is src][0])
        if rng.random() < 0.5:
            items.insert(rng.randint(pos + 1, len(items)), ["s", dup])
        else:
            items.insert(rng.randint(0, pos), ["s", dup])
        return src["name"]
    if kind == "fixed-name-wrong-type":
        # a section of a known concrete type that the fixed-name slot does
        # not admit, carrying that slot's name; placed after a correct use
        # when there is one (state kept on the schema would show)
        fixed = [c for c in slots if c["name"] not in ("*", "+")]
        if not fixed:
            return None
        c = rng.choice(fixed)
        cand = [t for t in res.concrete_names() if not res.admits(c, t)]
        if not cand:
            return None
        t = rng.choice(cand)
        bad = mknode(t, c["name"], rng.choice(["pair", "empty"]))
        items.append(["s", bad])
        return t
    if kind == "second-in-single":
        cand = []
        for it in items:
            if it[0] != "s":
                continue
            t = it[1]["type"].lower()
            for c in slots:
                if c["kind"] == "section" and c["name"] == "*" and \
                        res.admits(c, t):
                    cand.append(it)
        if not cand:
            return None
        import copy
        dup = copy.deepcopy(rng.choice(cand)[1])
        dup["name"] = "second"
        _ins(rng, node, ["s", dup])
        return "second"
    if kind == "missing-required":
        req = [c for c in children if c["required"]]
        if not req:
            return None
        c = rng.choice(req)
        if c["kind"] in ("key", "multikey"):
            if c["name"] == "+":
                declared = set()
                for d in children:
                    if d["name"] not in ("*", "+"):
                        declared.add(family.norm_key(
                            d.get("_declared_under", kt), d["name"]))
                keep = [it for it in items if not (
                    it[0] == "k" and _safe_norm(kt, it[1]) not in declared)]
            else:
                nk = family.norm_key(c.get("_declared_under", kt), c["name"])
                keep = [it for it in items if not (
                    it[0] == "k" and _safe_norm(kt, it[1]) == nk)]
        else:
            adm = set(res.admitted(c))
            keep = [it for it in items if not (
                it[0] == "s" and it[1]["type"].lower() in adm)]
        if len(keep) == len(items):
            return None
        node["items"][:] = keep
        return c["name"]
    if kind == "bad-value":
        cand = []
        for it in items:
            if it[0] != "k":
                continue
            nk = _safe_norm(kt, it[1])
            for c in children:
                if c["kind"] in ("key", "multikey") and c["name"] != "+" \
                        and family.norm_key(c.get("_declared_under", kt),
                                            c["name"]) == nk \
                        and family.INVALID[c["datatype"]]:
                    cand.append((it, c))
        if not cand:
            return None
        it, c = rng.choice(cand)
        it[2] = rng.choice(family.INVALID[c["datatype"]])
        return it[2]
    if kind == "raw-junk":
        j = rng.choice(JUNK)
        _ins(rng, node, ["raw", j])
        return j
    if kind == "name-is-key":
        keys = [c["name"] for c in children
                if c["kind"] in ("key", "multikey") and c["name"] != "+"
                and c["name"] == c["name"].lower()]
        cand = [it for it in items if it[0] == "s" and it[1]["name"]]
        if not keys or not cand:
            return None
        rng.choice(cand)[1]["name"] = rng.choice(keys)
        return "name-is-key"
    return None


def _safe_norm(kt, key):
    try:
        return family.norm_key(kt, key)
    except ValueError:
        return None


def generate(rng, res, n_faults=None, p_bad_value=0.04):
    """-> (tree, [fault descriptions])"""
    g = Gen(rng, res, p_bad_value=p_bad_value)
    root = g.instance()
    if n_faults is None:
        r = rng.random()
        n_faults = 0 if r < 0.55 else 1 if r < 0.85 else rng.randint(2, 4)
    faults = []
    for _ in range(n_faults):
        f = apply_fault(rng, res, root)
        if f:
            faults.append(f)
    return root, faults
