"""Command-line override specifiers for a text tree (C14): generator and the
reference editor that says what an override list denotes."""

import copy

from . import family, texts


def section_children(node):
    return [it[1] for it in node["items"] if it[0] == "s"]


def gen_spec(rng, res, root, p_bad_value=0.15, p_missing=0.12,
             p_badkey=0.1):
    """One specifier (string) plus a description."""
    node, cont = root, res.top
    comps = []
    depth = rng.choice([0, 1, 1, 2, 2, 3])
    info = {"by": []}
    for _ in range(depth):
        kids = [k for k in section_children(node)
                if res.types.get((k["type"] or "").lower()) not in
                (None, "abstract")]
        if not kids:
            break
        if rng.random() < p_missing:
            # no section of that name or type - also spelled so that it
            # could not be a type name at all, or so that it is only a
            # piece of a type or name that does occur
            cands = ["nosuch", "zz9", "nosuch", "1st", "\u00e9t\u00e9",
                     "k_:x", "no such"]
            taken = set()
            for k_ in kids:
                taken.add((k_["type"] or "").lower())
                taken.add((k_["name"] or "").lower())
            for k_ in kids:
                for w in ((k_["type"] or ""), (k_["name"] or "")):
                    for piece in (w[:-1], w[1:], w[:1], w[1:-1], w + "x"):
                        if piece and piece.lower() not in taken and \
                                "/" not in piece and "=" not in piece:
                            cands.append(piece)
                            cands.append(piece)
            comps.append(rng.choice(cands))
            info["missing"] = True
            node = None
            break
        k = rng.choice(kids)
        how = rng.random()
        if k["name"] and how < 0.5:
            c = k["name"]
            info["by"].append("name")
        else:
            c = k["type"]
            info["by"].append("type")
        if "/" in c or "=" in c:
            # (a path component cannot spell such a name)
            c = k["type"]
        comps.append(texts.variant(rng, c))
        node = k
        cont = res.types[(k["type"]).lower()]
    if node is None or cont is None:
        comps.append("alpha")
        val = "v"
        return "/".join(comps) + "=" + val, info
    keys = [c for c in cont.children if c["kind"] in ("key", "multikey")]
    r = rng.random()
    if not keys and p_badkey == 0.0:
        return None, info
    if not keys or r < p_badkey:
        # a key nobody declared, or one the key type itself refuses
        # (no white space or parentheses: the edited text could not spell
        # such a key)
        comps.append(rng.choice(["nosuchkey", "nosuchkey", "9lives",
                                 "\u00e9t\u00e9", "k_:x"])
                     if p_badkey else "nosuchkey")
        val = "v"
        info["badkey"] = True
    else:
        c = rng.choice(keys)
        kt = cont.keytype
        if c["name"] == "+":
            name = rng.choice(family.WILD_KEYS[kt])
        else:
            name = texts.variant(rng, c["name"], kt != "identifier")
        comps.append(name)
        dt = c["datatype"]
        if family.INVALID[dt] and rng.random() < p_bad_value:
            cand = [v for v in family.INVALID[dt] if v == v.strip()]
            val = rng.choice(cand) if cand else "v"
            info["badvalue"] = True
        else:
            cand = [v for v, _ in family.VALID[dt]
                    if v == v.strip() and "$" not in v]
            val = rng.choice(cand)
            if dt in ("string", "null") and rng.random() < 0.3:
                val = rng.choice(["a$b", "$x", "a=b", "${y}", "$$", "$(HOME)",
                                  "$(ZCV_NOPE)", "a$(PATH)b", "$(date)",
                                  "$(", "$",
                                  # names the environment does have
                                  "$ZCV_SET", "a${ZCV_SET}b", "$HOME",
                                  "${PATH}", "$Def1", "~"])
                info["dollar"] = True
    info["depth"] = len(comps) - 1
    info["target"] = (id(node), repr(family.norm_key(cont.keytype, comps[-1])
                                     if ":" not in comps[-1] else comps[-1]),
                      c["kind"] if keys and "badkey" not in info else "key")
    return "/".join(comps) + "=" + val, info


def gen_specs(rng, res, root):
    n = rng.randint(1, 4)
    mode = rng.random()
    clean = mode < 0.7
    onebad = 0.5 <= mode < 0.7
    kw = dict(p_bad_value=0.0, p_missing=0.0, p_badkey=0.0) if clean else {}
    specs, infos = [], []
    paths = set()
    for j in range(n):
        if onebad and j == 0:
            s, i = gen_spec(rng, res, root, p_bad_value=1.0, p_missing=0.0,
                            p_badkey=0.0)
        else:
            s, i = gen_spec(rng, res, root, **kw)
        if s is None:
            continue
        tgt = i.pop("target", None)
        if clean and tgt is not None:
            if tgt[:2] in paths and tgt[2] == "key":
                continue        # a single key addressed twice: a fault
            paths.add(tgt[:2])
        specs.append(s)
        infos.append(i)
    if not specs:
        specs.append("nosuchkey=v")
        infos.append({"badkey": True})
    if not clean and rng.random() < 0.3:
        # the same specifier twice
        specs.append(specs[0])
        infos.append({"repeat": True})
    return specs, infos


class NoSuchSection(Exception):
    pass


def apply_overrides(res, root, specs):
    """Edit a copy of *root* as the override list denotes.  Raises
    NoSuchSection when a path selects nothing (expected: rejection)."""
    root = copy.deepcopy(root)
    pending = {}      # id(node) -> (node, cont, {normkey: [values]}, order)
    for spec in specs:
        path, _, value = spec.partition("=")
        comps = path.split("/")
        node, cont = root, res.top
        for c in comps[:-1]:
            bk = family.basic_key(c)
            found = None
            for k in section_children(node):
                name = (k["name"] or "").lower() or None
                if (name and c.lower() == name) or \
                        (bk is not None and bk == (k["type"] or "").lower()):
                    found = k
                    break
            if found is None:
                raise NoSuchSection(spec)
            node = found
            t = res.types.get((node["type"] or "").lower())
            if t in (None, "abstract"):
                raise NoSuchSection(spec)
            cont = t
        key = comps[-1]
        entry = pending.setdefault(id(node), (node, cont, {}, []))
        try:
            nk = family.norm_key(cont.keytype, key)
        except ValueError:
            nk = None
        if nk is None:
            nk = ("raw", key)
        if nk not in entry[2]:
            entry[2][nk] = []
            entry[3].append((nk, key))
        entry[2][nk].append(value)
    for node, cont, vals, order in pending.values():
        kt = cont.keytype

        def nk_of(k):
            try:
                return family.norm_key(kt, k)
            except ValueError:
                return None
        node["items"][:] = [it for it in node["items"]
                            if not (it[0] == "k" and nk_of(it[1]) in vals)]
        for nk, key in order:
            for v in vals[nk]:
                node["items"].append(["k", key, v.replace("$", "$$")])
    return root
