"""Reference model for C18: paths vs URLs, the 'file:///' form, fragments,
RFC 3986 reference resolution.

Written by hand from RFC 3986 (sections 3, 3.1, 5.2) and from the property
statement; no regular expressions, no urllib, no os.path.  Every function
works on plain ``str`` and is a character scanner.

Expectations are three-valued.  An *expectation* is one of

  ("exact", [v1, v2, ...])  the result must be one of the listed strings
                            (scheme compared case-insensitively);
  ("form",)                 only the form claim of the statement is judged:
                            a result that is a file: URL with a '/' after
                            the colon must begin with 'file:///';
  ("unjudged",)             the statement does not pin the result.

``conforms(expectation, observed)`` evaluates one.
"""

_ALPHA = "abcdefghijklmnopqrstuvwxyzABCDEFGHIJKLMNOPQRSTUVWXYZ"
_DIGIT = "0123456789"
_SCHEME_TAIL = _ALPHA + _DIGIT + "+-."
_UNRESERVED = _ALPHA + _DIGIT + "-._~"
_HEX = "0123456789ABCDEF"


# -- RFC 3986 section 3.1: scheme = ALPHA *( ALPHA / DIGIT / "+" / "-" / "." )
def scheme_len(s):
    """Length of the scheme at the start of *s* (without the colon), or 0."""
    if not s or s[0] not in _ALPHA:
        return 0
    i = 1
    n = len(s)
    while i < n:
        c = s[i]
        if c == ":":
            return i
        if c not in _SCHEME_TAIL:
            return 0
        i += 1
    return 0


def is_path(s):
    """The statement: a string is a URL iff it starts with a scheme of at
    least two characters followed by ':'; a single letter and ':' is a drive
    letter, hence a path; everything else is a path."""
    return scheme_len(s) < 2


# -- RFC 3986 section 3: generic syntax split ---------------------------------
def split(s):
    """(scheme|None, authority|None, path, query|None, fragment|None)."""
    scheme = None
    k = scheme_len(s)
    if k:
        scheme = s[:k]
        s = s[k + 1:]
    fragment = None
    i = s.find("#")
    if i >= 0:
        fragment = s[i + 1:]
        s = s[:i]
    query = None
    i = s.find("?")
    if i >= 0:
        query = s[i + 1:]
        s = s[:i]
    authority = None
    if s[:2] == "//":
        j = s.find("/", 2)
        if j < 0:
            authority = s[2:]
            s = ""
        else:
            authority = s[2:j]
            s = s[j:]
    return scheme, authority, s, query, fragment


def recompose(scheme, authority, path, query, fragment):
    out = ""
    if scheme is not None:
        out += scheme + ":"
    if authority is not None:
        out += "//" + authority
    out += path
    if query is not None:
        out += "?" + query
    if fragment is not None:
        out += "#" + fragment
    return out


def remove_dot_segments(path):
    """RFC 3986 5.2.4, literally."""
    inp = path
    out = []
    while inp:
        if inp[:3] == "../":
            inp = inp[3:]
        elif inp[:2] == "./":
            inp = inp[2:]
        elif inp[:3] == "/./":
            inp = inp[2:]
        elif inp == "/.":
            inp = "/"
        elif inp[:4] == "/../":
            inp = inp[3:]
            if out:
                out.pop()
        elif inp == "/..":
            inp = "/"
            if out:
                out.pop()
        elif inp == "." or inp == "..":
            inp = ""
        else:
            j = inp.find("/", 1)
            if j < 0:
                out.append(inp)
                inp = ""
            else:
                out.append(inp[:j])
                inp = inp[j:]
    return "".join(out)


def has_dot_segment(path):
    for seg in path.split("/"):
        if seg == "." or seg == "..":
            return True
    return False


def merge(base_authority, base_path, rel_path):
    """RFC 3986 5.2.3."""
    if base_authority is not None and base_path == "":
        return "/" + rel_path
    i = base_path.rfind("/")
    return base_path[:i + 1] + rel_path


def resolve(base, ref, strict=True):
    """RFC 3986 5.2.2 transform; returns the five components."""
    return resolve_parts(split(base), split(ref), strict)


def resolve_parts(bparts, rparts, strict=True):
    bs, ba, bp, bq, bf = bparts
    rs, ra, rp, rq, rf = rparts
    if not strict and rs is not None and bs is not None and \
            rs.lower() == bs.lower():
        rs = None
    if rs is not None:
        ts, ta, tp, tq = rs, ra, remove_dot_segments(rp), rq
    else:
        if ra is not None:
            ta, tp, tq = ra, remove_dot_segments(rp), rq
        else:
            if rp == "":
                tp = bp
                tq = rq if rq is not None else bq
            else:
                if rp[0] == "/":
                    tp = remove_dot_segments(rp)
                else:
                    tp = remove_dot_segments(merge(ba, bp, rp))
                tq = rq
            ta = ba
        ts = bs
    return ts, ta, tp, tq, rf


# -- the 'file:///' form ------------------------------------------------------
def _file_slashes(s):
    """For a string starting (case-insensitively) with 'file:' the number of
    '/' directly after the colon; -1 when it is not a file: URL."""
    if len(s) < 5 or s[:4].lower() != "file" or s[4] != ":":
        return -1
    n = 0
    i = 5
    while i < len(s) and s[i] == "/":
        n += 1
        i += 1
    return n


def form_ok(result):
    """The statement's form claim on one result string."""
    n = _file_slashes(result)
    return n < 1 or n >= 3


def to_file_form(s):
    """Expectation for the normalised spelling of URL *s*."""
    n = _file_slashes(s)
    if n < 0:
        return ("exact", [s])          # not a file: URL: left alone
    if n == 0:
        return ("unjudged",)           # 'file:' + relative path / nothing
    if n == 1:
        return ("exact", [s[:5] + "//" + s[5:]])
    if n == 2:
        return ("form",)               # 'file://host…': only the form
    return ("exact", [s])


def exp_urlnormalize(s):
    return to_file_form(s)


def _empty_authority(s):
    k = scheme_len(s)
    rest = s[k + 1:] if k else s
    return rest[:2] == "//" and (len(rest) == 2 or rest[2] == "/")


def exp_urldefrag(s):
    """(expectation for the URL part, expected fragment).

    The fragment is the text after the first '#'.  The URL part is the text
    before it in 'file:///' form; where the text before the '#' has an empty
    authority ('//' followed by '/' or nothing) and no 'file:' scheme the
    statement says nothing about whether the empty authority survives the
    split, so only the form is judged there."""
    i = s.find("#")
    if i < 0:
        head, frag = s, ""
    else:
        head, frag = s[:i], s[i + 1:]
    e = to_file_form(head)
    if i >= 0 and e[0] == "exact" and _file_slashes(head) < 0 and \
            _empty_authority(head):
        e = ("form",)
    return e, frag


_base_cache = {}


def _spellings(parts):
    """Acceptable spellings of a resolved reference: an empty fragment may
    or may not keep its '#' (RFC 3986 6.2.3 calls them equivalent)."""
    ts, ta, tp, tq, tf = parts
    out = [recompose(ts, ta, tp, tq, tf)]
    if tf == "":
        out.append(recompose(ts, ta, tp, tq, None))
    return out


def exp_urljoin(base, ref):
    """Expectation for joining *ref* against the absolute URL *base*.

    Judged exactly where RFC 3986 5.2 determines the result and the
    statement's file:/// normalisation applies cleanly:

    * the strict and the non-strict transform (5.2.2 allows both when the
      reference repeats the base scheme) are both acceptable;
    * a reference with its own, different scheme that contains dot segments
      is judged on form only (5.2.2 removes them, common practice returns
      the reference untouched);
    * empty path segments ('//' inside a path, on either side) are judged on
      form only: the RFC keeps them, file systems and common URL libraries
      collapse them;
    * a result with a non-empty authority under 'file:' is judged on form
      only;
    * a network-path reference ('//host/…') with dot segments, and an empty
      authority ('//' + nothing) against a base that has one, are judged on
      form only (the statement is about file: URLs, whose authority is
      empty).
    """
    if ref == "":
        # 5.2.2 gives the base without its fragment; returning the base is
        # equally common.  Bases used here carry no fragment.
        return ("exact", [base])
    rparts = split(ref)
    bparts = _base_cache.get(base)
    if bparts is None:
        bparts = _base_cache[base] = split(base)
    rs, ra, rp, rq, rf = rparts
    bs, ba, bp, bq, bf = bparts
    same = rs is not None and bs is not None and rs.lower() == bs.lower()
    if rs is not None and not same:
        if has_dot_segment(rp):
            return ("form",)
        e = to_file_form(ref)       # a file: reference under another base
        return e if e[0] != "unjudged" else ("exact", [ref])
    if "//" in rp or (ra is None and "//" in bp):
        return ("form",)
    if ra and has_dot_segment(rp):
        # network-path reference ('//host/./x'): 5.2.2 removes the dot
        # segments, common practice returns it untouched; not a file matter
        return ("form",)
    if ra == "" and ba:
        # '//' + nothing: an empty authority replacing a non-empty one; the
        # statement is about file: URLs, whose authority is empty anyway
        return ("form",)
    cands = []
    for strict in ((True, False) if same else (True,)):
        parts = resolve_parts(bparts, rparts, strict)
        if parts[0] is not None and parts[0].lower() == "file" and \
                parts[1]:
            return ("form",)
        for sp in _spellings(parts):
            e = to_file_form(sp)
            if e[0] == "exact":
                for v in e[1]:
                    if v not in cands:
                        cands.append(v)
            elif e[0] == "form":
                return ("form",)
            else:
                # 'file:x' (strict reading of a same-scheme relative
                # reference): acceptable as it stands
                if sp not in cands:
                    cands.append(sp)
    return ("exact", cands)


def _same_url(a, b):
    if a == b:
        return True
    ka, kb = scheme_len(a), scheme_len(b)
    return ka == kb and ka > 0 and a[:ka].lower() == b[:kb].lower() and \
        a[ka:] == b[kb:]


def conforms(expectation, observed):
    """True / False / None (unjudged)."""
    kind = expectation[0]
    if kind == "unjudged":
        return None
    if not isinstance(observed, str):
        return False
    if not form_ok(observed):
        return False
    if kind == "form":
        return True
    for v in expectation[1]:
        if _same_url(v, observed):
            return True
    return False


# -- percent-encoding ---------------------------------------------------------
def unquote(s):
    """Percent-decode, UTF-8."""
    out = bytearray()
    i = 0
    n = len(s)
    while i < n:
        c = s[i]
        if c == "%" and i + 2 < n and _hexval(s[i + 1]) >= 0 and \
                _hexval(s[i + 2]) >= 0:
            out.append(_hexval(s[i + 1]) * 16 + _hexval(s[i + 2]))
            i += 3
        else:
            out.extend(c.encode("utf-8", "surrogateescape"))
            i += 1
    return out.decode("utf-8", "surrogateescape")


def _hexval(c):
    v = "0123456789abcdef".find(c.lower()) if len(c) == 1 else -1
    return v


def quote_segment(seg):
    """Percent-encode one path segment: unreserved characters stay."""
    out = []
    for c in seg:
        if c in _UNRESERVED:
            out.append(c)
        else:
            for b in c.encode("utf-8"):
                out.append("%" + _HEX[b >> 4] + _HEX[b & 15])
    return "".join(out)


# -- POSIX path arithmetic ----------------------------------------------------
def abspath(path, cwd):
    """Absolute, normalised POSIX path of *path* seen from *cwd* (POSIX:
    exactly two leading slashes are preserved, three or more are one)."""
    if path[:1] != "/":
        path = cwd.rstrip("/") + "/" + path
    lead = "/"
    if path[:2] == "//" and path[:3] != "///":
        lead = "//"
    out = []
    for seg in path.split("/"):
        if seg == "" or seg == ".":
            continue
        if seg == "..":
            if out:
                out.pop()
            continue
        out.append(seg)
    return lead + "/".join(out)


def relsegments(target, start):
    """Segments of the relative path from directory *start* to *target*
    (both absolute, normalised)."""
    t = [x for x in target.split("/") if x]
    s = [x for x in start.split("/") if x]
    i = 0
    while i < len(t) and i < len(s) and t[i] == s[i]:
        i += 1
    return [".."] * (len(s) - i) + t[i:]


def dirname(path):
    i = path.rfind("/")
    return path[:i] if i > 0 else "/"


def url_names_file(url, path):
    """The statement's claim about a reported resource URL: 'file:///' form
    and, percent-decoded, the absolute path of the file that was meant."""
    if url[:8] != "file:///":
        return False
    return unquote(url[7:]) == path


def exp_normalize_url(s, cwd):
    """What BaseLoader.normalizeURL must do with *s*:
    ("path", abs) – a 'file:///' URL that decodes to *abs*;
    ("reject",)   – a URL carrying a non-empty fragment;
    ("url", expectation) – otherwise."""
    if is_path(s):
        return ("path", abspath(s, cwd))
    e, frag = exp_urldefrag(s)
    if frag:
        return ("reject",)
    return ("url", e)
