"""Reference reader for ZConfig configuration text (DESIGN.md Appendix A).

A hand-written scanner, no regular expressions, no code shared with
ZConfig.cfgparser.  It produces the event trace the documented grammar
denotes, or the first failure.

Events (tuples):
  ('open',   serial, parent, type, name, lineno)
  ('close',  serial, parent, type, name, lineno)
  ('key',    section, key, value, lineno)
  ('import', package, lineno)
  ('include', section, argument, lineno)
  ('define', name, value, lineno)
Section serial 0 is the top level; others are numbered in opening order.

Outcomes:
  ('ok',)
  ('syntax', lineno, why)            -> ConfigurationSyntaxError
  ('subst-syntax', lineno, why)      -> SubstitutionSyntaxError
  ('subst-missing', name, lineno)    -> SubstitutionReplacementError
  ('notimpl', lineno, what)          -> schemaless mode: %define / %include
  ('unjudged', why)
"""

from . import refsubst

DIRECTIVES = ("define", "import", "include")


class Stop(Exception):
    def __init__(self, outcome):
        self.outcome = outcome


def split_lines(text):
    lines = text.split("\n")
    if lines and lines[-1] == "":
        lines.pop()
    return lines


def strip(s):
    a, b = 0, len(s)
    while a < b and s[a].isspace():
        a += 1
    while b > a and s[b - 1].isspace():
        b -= 1
    return s[a:b]


def rstrip(s):
    b = len(s)
    while b > 0 and s[b - 1].isspace():
        b -= 1
    return s[:b]


def _tokch(c):
    return not (c.isspace() or c == "(" or c == ")")


def lead_token(s):
    """Length of the maximal leading run of token characters."""
    i = 0
    while i < len(s) and _tokch(s[i]):
        i += 1
    return i


def key_value(s):
    """Split 'key value' (s is stripped).  None if no leading token."""
    i = lead_token(s)
    if i == 0:
        return None
    return s[:i], strip(s[i:])


def header(body):
    """Parse the inside of '<...>' after removal of a trailing '/'.

    Returns (type, name) lower-cased, or None when malformed."""
    body = rstrip(body)
    i = lead_token(body)
    if i == 0:
        return None
    t = body[:i]
    rest = body[i:]
    if rest == "":
        return t.lower(), None
    if not rest[0].isspace():
        return None          # a parenthesis directly after the type
    j = 0
    while j < len(rest) and rest[j].isspace():
        j += 1
    rest = rest[j:]
    k = lead_token(rest)
    if k == 0 or k != len(rest):
        return None
    return t.lower(), rest.lower()


class State:
    """Shared by the top resource and everything it includes."""

    def __init__(self, schemaless=False, env=None, judge_redefine=True):
        self.judge_redefine = judge_redefine
        self.events = []
        self.defines = {}
        self.serial = 0
        self.schemaless = schemaless
        self.env = env if env is not None else {}
        self.unjudged = None


class RefParser:
    def __init__(self, state, include=None):
        self.st = state
        self.include = include     # callable(parser, section, arg, lineno)
        self.lineno = 0

    def subst(self, text):
        r = refsubst.subst(text, self.st.defines, self.st.env)
        if r[0] == "ok":
            return r[1]
        if r[0] == "syntax":
            raise Stop(("subst-syntax", self.lineno, r[1]))
        if r[0] == "missing":
            raise Stop(("subst-missing", r[1], self.lineno))
        raise Stop(("unjudged", r[1]))

    def syntax(self, why):
        raise Stop(("syntax", self.lineno, why))

    def parse(self, text, section=0):
        """Parse one resource into section *section*."""
        ev = self.st.events
        stack = []          # (serial, parent, type, name)
        cur = section
        for raw in split_lines(text):
            self.lineno += 1
            s = strip(raw)
            if s == "" or s[0] == "#":
                continue
            if s[:2] == "</":
                if s[-1] != ">":
                    self.syntax("malformed section end")
                t = rstrip(s[2:-1]).lower()
                if not stack:
                    self.syntax("unexpected section end")
                serial, parent, otype, oname = stack.pop()
                if otype != t:
                    self.syntax("unbalanced section end")
                ev.append(("close", serial, parent, otype, oname,
                           self.lineno))
                cur = parent
            elif s[0] == "<":
                if s[-1] != ">":
                    self.syntax("malformed section start")
                body = s[1:-1]
                empty = body[-1:] == "/"
                if empty:
                    body = body[:-1]
                h = header(body)
                if h is None:
                    self.syntax("malformed section header")
                t, name = h
                self.st.serial += 1
                serial = self.st.serial
                ev.append(("open", serial, cur, t, name, self.lineno))
                if empty:
                    ev.append(("close", serial, cur, t, name, self.lineno))
                else:
                    stack.append((serial, cur, t, name))
                    cur = serial
            elif s[0] == "%":
                kv = key_value(s[1:])
                if kv is None:
                    self.syntax("missing or unrecognized directive")
                d, arg = kv
                if d not in DIRECTIVES:
                    self.syntax("unknown directive")
                if arg == "":
                    self.syntax("missing directive argument")
                if d == "define":
                    self.do_define(arg)
                elif d == "import":
                    pkg = self.subst(arg)
                    if pkg == "" and self.st.schemaless:
                        # what a loader does with an import name that
                        # expands to nothing is not part of the grammar
                        raise Stop(("unjudged",
                                    "import name expands to nothing"))
                    ev.append(("import", pkg, self.lineno))
                else:
                    target = self.subst(arg)
                    if self.st.schemaless:
                        raise Stop(("notimpl", self.lineno, "include"))
                    ev.append(("include", cur, target, self.lineno))
                    if self.include is not None:
                        self.include(self, cur, target, self.lineno)
            else:
                kv = key_value(s)
                if kv is None:
                    self.syntax("malformed configuration data")
                key, value = kv
                if value != "":
                    value = self.subst(value)
                ev.append(("key", cur, key, value, self.lineno))
        if stack:
            self.syntax("unclosed sections not allowed")

    def do_define(self, arg):
        if self.st.schemaless:
            raise Stop(("notimpl", self.lineno, "define"))
        i = 0
        while i < len(arg) and not arg[i].isspace():
            i += 1
        name = arg[:i].lower()
        value = strip(arg[i:])
        legal = refsubst.isname(name)
        if legal is None:
            raise Stop(("unjudged", "non-ASCII define name"))
        if not legal:
            self.syntax("not a substitution legal name")
        # C05: "a definition's value is expanded once, when the definition
        # is read"; re-definition accepted exactly when the new expanded
        # value equals the current one.
        if name in self.st.defines:
            if not self.st.judge_redefine:
                raise Stop(("unjudged", "redefinition (subject of C05)"))
            try:
                new = self.subst(value)
            except Stop as stop:
                # conflicting-or-broken redefinition: some rejection either
                # way; which error class wins is not pinned by the statement
                if stop.outcome[0] == "unjudged":
                    raise
                raise Stop(("reject-any", self.lineno,
                            "redefinition whose value cannot be expanded"))
            if new != self.st.defines[name]:
                self.syntax("cannot redefine")
            self.st.events.append(("define", name, new, self.lineno))
            return
        new = self.subst(value)
        self.st.defines[name] = new
        self.st.events.append(("define", name, new, self.lineno))


def parse(text, schemaless=False, env=None, judge_redefine=True):
    """Parse a single resource.  Returns (events, outcome, defines)."""
    st = State(schemaless=schemaless, env=env, judge_redefine=judge_redefine)
    p = RefParser(st)
    try:
        p.parse(text)
    except Stop as stop:
        return st.events, stop.outcome, st.defines
    return st.events, ("ok",), st.defines


def to_tree(events):
    """Nested structure denoted by an event list (for schemaless, C17).

    {'type':…, 'name':…, 'keys': {key: [values]}, 'sections': [...],
     'imports': [...]}"""
    top = {"type": "", "name": "", "keys": {}, "sections": [], "imports": []}
    nodes = {0: top}
    for e in events:
        if e[0] == "open":
            node = {"type": e[3], "name": e[4], "keys": {}, "sections": []}
            nodes[e[1]] = node
            nodes[e[2]]["sections"].append(node)
        elif e[0] == "key":
            nodes[e[1]]["keys"].setdefault(e[2], []).append(e[3])
        elif e[0] == "import":
            if e[1] not in top["imports"]:
                top["imports"].append(e[1])
    return top
