"""Reference model of the logger component's option table (C20).

Written from docs/using-logging.rst, docs/logging-components.rst, the
descriptions inside components/logger/*.xml and the statement of C20; shares
no code with ZConfig.components.logger.

level(spelling)            -> ('ok', n) | ('reject',) | ('unjudged', why)
boolean(spelling)          -> True | False | None (not a documented spelling)
byte_size(spelling)        -> int | None
unescape(fmt)              -> the five documented escapes applied
fields(style, fmt)         -> [names of the named field references]
record_dict(rec, datefmt)  -> the mapping a formatter is documented to see
render(style, fmt, d)      -> ('ok', text) | ('raise', exc type name, kind)
format_expect(...)         -> what loading a format string must do
handler_plan(opts)         -> ('accept', plan) | ('reject', why) |
                              ('unjudged', why)
"""

import string
import time

# --------------------------------------------------------------------------
# levels (base-logger.xml / handlers.xml descriptions)

LEVELS = {
    "critical": 50, "fatal": 50,
    "error": 40,
    "warn": 30, "warning": 30,
    "info": 20,
    "blather": 15,
    "debug": 10,
    "trace": 5,
    "all": 1,
    "notset": 0,
}
LOGGER_LEVEL_DEFAULT = 20       # "info"
HANDLER_LEVEL_DEFAULT = 0       # "notset"
PROPAGATE_DEFAULT = True

_DIGITS = "0123456789"


def _plain_int(s):
    """-?digits without redundant leading zeros, else None."""
    body = s[1:] if s[:1] == "-" else s
    if not body or any(c not in _DIGITS for c in body):
        return None
    if len(body) > 1 and body[0] == "0":
        return None
    if s[:1] == "-" and body == "0":
        return None
    return -int(body) if s[:1] == "-" else int(body)


def level(spelling):
    folded = spelling.lower()
    if folded in LEVELS and folded.isascii():
        return ("ok", LEVELS[folded])
    n = _plain_int(spelling)
    if n is None:
        return ("unjudged", "neither a documented name nor a plain integer")
    if 0 <= n <= 50:
        return ("ok", n)
    return ("reject",)


def boolean(spelling):
    s = spelling.lower()
    if s in ("yes", "true", "on"):
        return True
    if s in ("no", "false", "off"):
        return False
    return None


def byte_size(spelling):
    s = spelling.lower()
    mult = 1
    for suffix, m in (("kb", 1024), ("mb", 1024 ** 2), ("gb", 1024 ** 3)):
        if s.endswith(suffix):
            s, mult = s[:-2], m
            break
    n = _plain_int(s)
    if n is None:
        return None
    return n * mult


# --------------------------------------------------------------------------
# format strings

_ESCAPES = {"n": "\n", "t": "\t", "b": "\b", "f": "\f", "r": "\r"}
STYLES = ("classic", "format", "template", "safe-template")
STYLE_DEFAULT = "classic"
DATEFORMAT_DEFAULT = "%Y-%m-%dT%H:%M:%S"
LOGFILE_FORMAT_DEFAULT = ("------\\n%(asctime)s %(levelname)s %(name)s "
                          "%(message)s")

# attributes every LogRecord created without extra fields has (LogRecord
# documentation), i.e. what "the fields available" means with
# arbitrary-fields off
ORDINARY_FIELDS = frozenset("""name levelno levelname pathname filename module
    lineno created asctime msecs relativeCreated thread threadName process
    processName funcName message msg args exc_info exc_text stack_info
    taskName""".split())


def unescape(fmt):
    """Backslash followed by one of b f n r t -> the control character.
    (Generated formats never contain two backslashes in a row; what that
    would mean differs between the documentation and the code.)"""
    out = []
    i = 0
    n = len(fmt)
    while i < n:
        c = fmt[i]
        if c == "\\" and i + 1 < n and fmt[i + 1] in _ESCAPES:
            out.append(_ESCAPES[fmt[i + 1]])
            i += 2
        else:
            out.append(c)
            i += 1
    return "".join(out)


def _ident_at(s, i):
    j = i
    while j < len(s) and (s[j] == "_" or (s[j].isascii() and s[j].isalnum())):
        j += 1
    return s[i:j]


def fields(style, fmt):
    """Names of the named field references of *fmt* (already unescaped or
    not – escapes cannot create or destroy a reference), in order.
    Positional / anonymous references are not included."""
    out = []
    i = 0
    n = len(fmt)
    if style == "classic":
        while i < n:
            if fmt[i] == "%":
                if i + 1 < n and fmt[i + 1] == "%":
                    i += 2
                    continue
                if i + 1 < n and fmt[i + 1] == "(":
                    j = fmt.find(")", i + 2)
                    if j > 0:
                        out.append(fmt[i + 2:j])
                        i = j + 1
                        continue
            i += 1
    elif style == "format":
        while i < n:
            c = fmt[i]
            if c in "{}" and i + 1 < n and fmt[i + 1] == c:
                i += 2
                continue
            if c == "{":
                name = _ident_at(fmt, i + 1)
                if name and not name[0].isdigit():
                    out.append(name)
                i += 1 + len(name)
                continue
            i += 1
    else:
        while i < n:
            if fmt[i] == "$":
                if i + 1 < n and fmt[i + 1] == "$":
                    i += 2
                    continue
                if i + 1 < n and fmt[i + 1] == "{":
                    name = _ident_at(fmt, i + 2)
                    if name and not name[0].isdigit() and \
                            fmt[i + 2 + len(name):i + 3 + len(name)] == "}":
                        out.append(name)
                    i += 2 + len(name)
                    continue
                name = _ident_at(fmt, i + 1)
                if name and not name[0].isdigit():
                    out.append(name)
                i += 1 + len(name)
                continue
            i += 1
    return out


def has_positional(style, fmt):
    """A classic conversion without a (name): applied to a mapping it shows
    the whole mapping, whose content beyond the documented fields is not
    pinned by anything."""
    if style != "classic":
        return False
    i = 0
    n = len(fmt)
    while i < n:
        if fmt[i] == "%":
            if i + 1 < n and fmt[i + 1] in "%(":
                i += 2
                continue
            return True
        i += 1
    return False


def record_dict(rec, datefmt=None):
    """The mapping the documentation promises a format string is applied to:
    the record's own attributes plus ``message`` (msg merged with args) and
    ``asctime`` (strftime of the creation time with the handler's
    dateformat).  *rec* must not have been formatted yet."""
    d = dict(rec.__dict__)
    msg = str(d["msg"])
    if d.get("args"):
        msg = msg % d["args"]
    d["message"] = msg
    d["asctime"] = time.strftime(datefmt or DATEFORMAT_DEFAULT,
                                 time.localtime(d["created"]))
    return d


def render(style, fmt, d):
    """Apply the (unescaped) format to mapping *d* with the primitive the
    documentation names for the style."""
    try:
        if style == "classic":
            return ("ok", fmt % d)
        if style == "format":
            return ("ok", fmt.format(**d))
        if style == "template":
            return ("ok", string.Template(fmt).substitute(d))
        if style == "safe-template":
            return ("ok", string.Template(fmt).safe_substitute(d))
        raise AssertionError(style)
    except KeyError as e:
        return ("raise", "KeyError", "missing-field", str(e))
    except (ValueError, TypeError, IndexError, AttributeError,
            OverflowError) as e:
        return ("raise", type(e).__name__, "other", str(e)[:80])


SAMPLE_RECORD = {
    # types of an ordinary record's attributes; used only to decide whether a
    # format is well-formed and type-correct
    "name": "some.logger", "levelno": 20, "levelname": "INFO",
    "pathname": "/some/path/mod.py", "filename": "mod.py", "module": "mod",
    "lineno": 12, "created": 1700000000.25, "asctime": "2023-11-14T22:13:20",
    # thread identifiers are pointer-sized, process identifiers reach 2**22:
    # neither is a character code, so '%(thread)c' does not render
    "msecs": 250.0, "relativeCreated": 1234.5, "thread": 0x7f3a5c1d2740,
    "threadName": "MainThread", "process": 4190000,
    "processName": "MainProcess", "funcName": "fn", "message": "text",
    "msg": "text", "args": (), "exc_info": None, "exc_text": None,
    "stack_info": None, "taskName": None,
}


def _is_identifier(x):
    return bool(x) and x.isascii() and not x[0].isdigit() and \
        all(c == "_" or c.isalnum() for c in x)


def _plain_spec(spec):
    """[[fill]align][sign][#][0][width][,|_][.precision][type] with width
    and precision digits or one nested {name}; the options every Python 3
    documents.  Newer options ('z') are outside: whether a formatter takes
    them is not pinned."""
    i = 0
    n = len(spec)

    def number(i):
        if i < n and spec[i] == "{":
            j = spec.find("}", i)
            if j < 0 or not _is_identifier(spec[i + 1:j]):
                return None
            return j + 1
        while i < n and spec[i] in _DIGITS:
            i += 1
        return i

    if n >= 2 and spec[1] in "<>=^":
        i = 2
    elif n >= 1 and spec[0] in "<>=^":
        i = 1
    if i < n and spec[i] in "+- ":
        i += 1
    if i < n and spec[i] == "#":
        i += 1
    if i < n and spec[i] == "0":
        i += 1
    i = number(i)
    if i is None:
        return False
    if i < n and spec[i] in ",_":
        i += 1
    if i < n and spec[i] == ".":
        j = number(i + 1)
        if j is None or j == i + 1:
            return False
        i = j
    if i < n and spec[i] in "bcdeEfFgGnosxX%":
        i += 1
    return i == n


def _conservative(style, f, named):
    """Is *f* inside the core for which acceptance is demanded?"""
    if any(not _is_identifier(x) for x in named):
        return False
    if style == "format":
        try:
            parsed = list(string.Formatter().parse(f))
        except ValueError:
            return True         # malformed: decided by the rendering
        for _lit, name, spec, conv in parsed:
            if name is None:
                continue
            if not _is_identifier(name):
                return False
            if conv not in (None, "r", "s", "a"):
                return True
            if spec and not _plain_spec(spec):
                return False
    return True


def format_expect(style, fmt, arbitrary):
    """What loading *fmt* (raw, escapes not yet applied) must do.

    -> (verdict, why); verdict in 'accept' | 'reject' | 'either'.
    'either' = the statement and the documentation do not pin the outcome
    (malformed or type-mismatched formats, formats without any field,
    safe-template with unknown fields); whatever is *accepted* must still
    build a formatter and format ordinary records.
    """
    f = unescape(fmt)
    named = fields(style, f)
    unknown = [x for x in named if x not in ORDINARY_FIELDS]
    if not _conservative(style, f, named):
        return ("either", "field name or format spec outside the core "
                "every formatter is bound to take")
    if not unknown:
        r = render(style, f, SAMPLE_RECORD)
        if r[0] == "ok":
            if named:
                return ("accept", "known fields, renders")
            return ("either", "no named field")
        return ("either", "does not render an ordinary record: " + r[1])
    # unknown fields referenced
    if style == "safe-template":
        if arbitrary:
            return ("accept", "safe-template with arbitrary fields")
        return ("either", "safe-template never fails on unknown fields; "
                "docs and code disagree")
    if not arbitrary:
        # is the reference to the unknown field what makes it fail?
        r = render(style, f, SAMPLE_RECORD)
        if r[0] == "raise" and r[2] == "missing-field":
            return ("reject", "unknown field with arbitrary-fields off")
        return ("either", "unknown field and malformed: " + r[1])
    # arbitrary-fields on: demanded only if it renders whatever the type of
    # the extra fields is
    for sample in (42, "x"):
        d = dict(SAMPLE_RECORD)
        for x in unknown:
            d[x] = sample
        if render(style, f, d)[0] != "ok":
            return ("either", "arbitrary field used in a type-specific way")
    return ("accept", "arbitrary fields allowed")


# --------------------------------------------------------------------------
# logfile option table (handlers.xml descriptions, using-logging.rst "Files")

STD = {"STDOUT": "stdout", "STDERR": "stderr"}


def handler_plan(o):
    """*o*: dict of the *spellings* given in the section (absent key = key
    omitted): path, max-size, old-files, when, interval, delay, encoding.

    plan: {'cls': 'stream'|'file'|'rotating'|'timed', 'stream': ..,
           'maxBytes', 'backupCount', 'when', 'interval', 'delay',
           'encoding'}
    """
    path = o["path"]
    max_size = byte_size(o["max-size"]) if "max-size" in o else None
    old_files = _plain_int(o["old-files"]) if "old-files" in o else None
    when = o.get("when")
    interval = _plain_int(o["interval"]) if "interval" in o else None
    delay = boolean(o["delay"]) if "delay" in o else None
    encoding = o.get("encoding")
    for k, v in (("max-size", max_size), ("old-files", old_files),
                 ("interval", interval), ("delay", delay)):
        if k in o and v is None:
            return ("unjudged", "spelling of %s outside the model" % k)
    if path in STD:
        # (a negative size or count is an option that was given, too)
        if max_size or old_files or when or delay or encoding:
            return ("reject", "rotation/delay/encoding on a standard stream")
        if "interval" in o:
            return ("unjudged", "interval on a standard stream: not in the "
                    "statement")
        if any(k in o for k in ("max-size", "old-files", "when", "delay",
                                "encoding")):
            return ("unjudged", "option given with an empty/zero/false value "
                    "on a standard stream: docs say 'must be omitted', the "
                    "statement says 'refused'; the value changes nothing")
        return ("accept", {"cls": "stream", "stream": STD[path]})
    if (old_files or 0) < 0 or (interval or 0) < 0 or (max_size or 0) < 0:
        return ("unjudged", "negative size or count for a file")

    rotation = bool(max_size) or bool(when)
    if rotation and not old_files:
        return ("reject", "rotation requires old-files")
    if max_size and when:
        return ("unjudged", "both max-size and when: statement silent")
    if not rotation and (old_files or interval):
        return ("unjudged", "old-files/interval without max-size/when: "
                "statement silent")
    plan = {"delay": bool(delay), "encoding": encoding or None}
    if when:
        plan.update(cls="timed", when=when, interval=interval or 1,
                    backupCount=old_files)
    elif max_size:
        plan.update(cls="rotating", maxBytes=max_size, backupCount=old_files)
    else:
        plan.update(cls="file")
    return ("accept", plan)
