"""Reference $-substitution: a character-by-character scanner.

Written from docs/py-mod-subst.rst and the statement of C04; shares no code
with ZConfig.substitution and uses no regular expressions.

scan(s) -> (tokens, error)
    tokens: list of ('lit', text) | ('esc',) | ('ref', form, name)
            form in {'plain', 'brace', 'env'}; name keeps its case
    error:  None | ('syntax', kind, index)
    Scanning stops at the first syntax error; tokens before it are returned.

subst(s, mapping, env) -> ('ok', text) | ('syntax', kind) |
                          ('missing', name, form) | ('unjudged', why)
"""

_LOWER = "abcdefghijklmnopqrstuvwxyz"
_START = frozenset(_LOWER + _LOWER.upper() + "_")
_CONT = frozenset(_LOWER + _LOWER.upper() + "_0123456789")


# Names are ASCII: "a letter or underscore followed by letters, digits and
# underscores" is read as [A-Za-z_][A-Za-z0-9_]*, the only reading under
# which the statement holds for the pinned tree ('$\xe9' is a syntax error
# there).  Until seeded round 4 a non-ASCII letter at a name boundary made
# the case unjudged; that abstention hid changes which let U+212A, U+017F,
# U+0130 or U+0131 into names (case-insensitive patterns), so it is gone.
JUDGE_NON_ASCII = True


def _is_foreign_alnum(c):
    if JUDGE_NON_ASCII:
        return False
    return ord(c) > 127 and (c.isalnum() or c == "_")


def scan(s):
    tokens = []
    i = 0
    n = len(s)
    lit = []
    unjudged = None
    while i < n:
        c = s[i]
        if c != "$":
            lit.append(c)
            i += 1
            continue
        if lit:
            tokens.append(("lit", "".join(lit)))
            lit = []
        if i + 1 >= n:
            return tokens, ("syntax", "lone-dollar-at-end", i), unjudged
        d = s[i + 1]
        if d == "$":
            tokens.append(("esc",))
            i += 2
            continue
        if d == "{" or d == "(":
            closer = "}" if d == "{" else ")"
            form = "brace" if d == "{" else "env"
            j = i + 2
            if j >= n or s[j] not in _START:
                if j < n and _is_foreign_alnum(s[j]):
                    unjudged = "non-ASCII letter where a name starts"
                return tokens, ("syntax", "no-name-after-" + form, i), \
                    unjudged
            k = j + 1
            while k < n and s[k] in _CONT:
                k += 1
            if k >= n or s[k] != closer:
                if k < n and _is_foreign_alnum(s[k]):
                    unjudged = "non-ASCII letter directly after a name"
                return tokens, ("syntax", "unterminated-" + form, i), \
                    unjudged
            tokens.append(("ref", form, s[j:k]))
            i = k + 1
            continue
        if d in _START:
            k = i + 2
            while k < n and s[k] in _CONT:
                k += 1
            if k < n and _is_foreign_alnum(s[k]):
                unjudged = "non-ASCII letter directly after a name"
            tokens.append(("ref", "plain", s[i + 1:k]))
            i = k
            continue
        if _is_foreign_alnum(d):
            unjudged = "non-ASCII letter where a name starts"
        return tokens, ("syntax", "dollar-before-other", i), unjudged
    if lit:
        tokens.append(("lit", "".join(lit)))
    return tokens, None, unjudged


def subst(s, mapping, env):
    """*mapping* has lower-case keys; *env* is a plain dict."""
    tokens, err, unjudged = scan(s)
    if unjudged:
        return ("unjudged", unjudged)
    out = []
    for t in tokens:
        if t[0] == "lit":
            out.append(t[1])
        elif t[0] == "esc":
            out.append("$")
        else:
            form, name = t[1], t[2]
            if form == "env":
                v = env.get(name)
            else:
                v = mapping.get(name.lower())
            if v is None:
                # an earlier missing value wins over a later syntax error
                return ("missing", name, form)
            out.append(v)
    if err is not None:
        return ("syntax", err[1])
    return ("ok", "".join(out))


def names(s):
    """(define-style names lower-cased, env names) referenced before the
    first syntax error, in order of first occurrence."""
    tokens, err, _ = scan(s)
    d, e = [], []
    for t in tokens:
        if t[0] == "ref":
            if t[1] == "env":
                if t[2] not in e:
                    e.append(t[2])
            elif t[2].lower() not in d:
                d.append(t[2].lower())
    return d, e


def shape(s):
    """Bounded feature signature of a string (token kinds + error kind)."""
    tokens, err, unjudged = scan(s)
    parts = []
    for t in tokens:
        if t[0] == "ref":
            parts.append(t[1][0] + ("U" if t[2] != t[2].lower() else "l"))
        else:
            parts.append(t[0][0])
    # collapse long repetitions
    out = []
    for p in parts:
        if len(out) >= 2 and out[-1] == p and out[-2] == p:
            continue
        out.append(p)
    return "".join(out[:10]) + "|" + (err[1] if err else "-")


def isname(s):
    """True / False / None (unjudged: non-ASCII letters involved)."""
    if s == "":
        return False
    if any(_is_foreign_alnum(c) for c in s):
        rest_ok = all(c in _CONT or _is_foreign_alnum(c) for c in s)
        first_ok = s[0] in _START or (_is_foreign_alnum(s[0])
                                      and not s[0].isdigit())
        if rest_ok and first_ok:
            return None
        return False
    if s[0] not in _START:
        return False
    for c in s[1:]:
        if c not in _CONT:
            return False
    return True
