"""Independent reference for ZConfig's stock datatypes (property C09).

Written from /repo/docs/standard-datatypes.rst and the property statement.
No regular expressions, nothing imported from ZConfig.  Every reference
function maps a string to one of

    ("ok", value)          the contract pins acceptance and the value
    ("ok?", None)          acceptance pinned, value not pinned (unjudged value)
    ("err",)               the contract demands ValueError
    ("typeerr",)           timedelta only: unknown unit letter -> TypeError
    ("anyerr",)            timedelta only: must fail, ValueError or TypeError
    ("unjudged", reason)   documentation silent / documentation and code
                           disagree: only totality is checked

The shapes judged for numbers are the plain decimal ones; the extras that
Python's int()/float() happen to accept (surrounding white space, '_' digit
separators, non-ASCII decimal digits, a leading '+', inf/nan) are *unjudged*:
the documentation says nothing about them.
"""

import datetime
import os
import sys
import unicodedata

OK, OKQ, ERR, TYPEERR, ANYERR, UNJ = ("ok", "ok?", "err", "typeerr", "anyerr",
                                      "unjudged")

_LOWER = "abcdefghijklmnopqrstuvwxyz"
_UPPER = "ABCDEFGHIJKLMNOPQRSTUVWXYZ"
_DIGITS = "0123456789"
_HEX = "0123456789abcdefABCDEF"
_FOLD = {u: l for u, l in zip(_UPPER, _LOWER)}


def is_ascii(s):
    for c in s:
        if ord(c) > 127:
            return False
    return True


def ascii_lower(s):
    """Case folding of A-Z only (what 'case-insensitive' means for the
    ASCII keywords and suffixes of the documentation)."""
    return "".join(_FOLD.get(c, c) for c in s)


# ---------------------------------------------------------------------------
# hand-written automata for the regular-expression types


class DFA:
    """Deterministic automaton over character classes.

    *classify* maps a character to a class name; *table* maps
    state -> {class: state}; a missing entry is the dead state.
    """

    def __init__(self, name, classify, table, start, accepting):
        self.name = name
        self.classify = classify
        self.table = table
        self.start = start
        self.accepting = frozenset(accepting)
        # number of states including the (implicit) dead state
        self.nstates = len(table) + 1

    def accepts(self, s):
        st = self.start
        table = self.table
        classify = self.classify
        for c in s:
            st = table[st].get(classify(c))
            if st is None:
                return False
        return st in self.accepting


def _cls_key(c):
    if c in _LOWER or c in _UPPER:
        return "L"
    if c in _DIGITS:
        return "D"
    if c == "-" or c == "." or c == "_":
        return "P"
    return "x"


def _cls_ident(c):
    if c in _LOWER or c in _UPPER or c == "_":
        return "L"
    if c in _DIGITS:
        return "D"
    if c == ".":
        return "."
    return "x"


def _cls_host(c):
    if c in _LOWER or c in _UPPER or c == "_":
        return "L"
    if c in _DIGITS or c == "-":
        return "D"
    if c == ".":
        return "."
    return "x"


# basic-key: a letter, then letters, digits, '-', '.', '_'
DFA_BASIC_KEY = DFA("basic-key", _cls_key,
                    {0: {"L": 1}, 1: {"L": 1, "D": 1, "P": 1}}, 0, [1])
# identifier: letter or '_', then letters, digits, '_'
DFA_IDENTIFIER = DFA("identifier", _cls_ident,
                     {0: {"L": 1}, 1: {"L": 1, "D": 1}}, 0, [1])
# dotted-name: identifier ('.' identifier)*
DFA_DOTTED_NAME = DFA("dotted-name", _cls_ident,
                      {0: {"L": 1}, 1: {"L": 1, "D": 1, ".": 2}, 2: {"L": 1}},
                      0, [1])
# dotted-suffix: as dotted-name, possibly prefixed by a period
DFA_DOTTED_SUFFIX = DFA("dotted-suffix", _cls_ident,
                        {0: {"L": 1, ".": 2}, 1: {"L": 1, "D": 1, ".": 2},
                         2: {"L": 1}}, 0, [1])
# host name (DESIGN.md C09): letter or '_', then letters/digits/'-'/'_'/'.',
# not ending in '.'.  State 1 = exactly one character read (unjudged).
DFA_HOSTNAME = DFA("hostname", _cls_host,
                   {0: {"L": 1},
                    1: {"L": 2, "D": 2, ".": 3},
                    2: {"L": 2, "D": 2, ".": 3},
                    3: {"L": 2, "D": 2, ".": 3}}, 0, [1, 2])

DFAS = {"basic-key": DFA_BASIC_KEY, "identifier": DFA_IDENTIFIER,
        "dotted-name": DFA_DOTTED_NAME, "dotted-suffix": DFA_DOTTED_SUFFIX}

_KEYWORDS = frozenset("""False None True and as assert async await break class
continue def del elif else except finally for from global if import in is
lambda nonlocal not or pass raise return try while with yield""".split())


def basic_key(s):
    if DFA_BASIC_KEY.accepts(s):
        return (OK, ascii_lower(s))
    return (ERR,)


def _ident_family(dfa, s):
    if not is_ascii(s):
        # "Any valid Python identifier" includes non-ASCII identifiers, the
        # implementation is ASCII only: documentation and code disagree
        for c in s:
            if ord(c) > 127 and (c.isalnum() or
                                 unicodedata.category(c)[0] in "LMN" or
                                 unicodedata.category(c) == "Pc"):
                return (UNJ, "non-ASCII identifier character")
        return (ERR,)
    if dfa.accepts(s):
        for part in s.split("."):
            if part in _KEYWORDS:
                return (UNJ, "Python keyword as identifier")
        return (OK, s)
    return (ERR,)


def identifier(s):
    return _ident_family(DFA_IDENTIFIER, s)


def dotted_name(s):
    return _ident_family(DFA_DOTTED_NAME, s)


def dotted_suffix(s):
    return _ident_family(DFA_DOTTED_SUFFIX, s)


# ---------------------------------------------------------------------------
# boolean

_TRUE = ("yes", "true", "on")
_FALSE = ("no", "false", "off")


def boolean(s):
    low = ascii_lower(s)
    if low in _TRUE:
        return (OK, True)
    if low in _FALSE:
        return (OK, False)
    return (ERR,)


# ---------------------------------------------------------------------------
# numbers


def _all_digits(s):
    if not s:
        return False
    for c in s:
        if c not in _DIGITS:
            return False
    return True


def _digits_value(s):
    v = 0
    for c in s:
        v = v * 10 + (ord(c) - 48)
    return v


def _lenient_norm(s):
    """Undo the extras Python's number parsers tolerate (surrounding white
    space, one leading sign, non-ASCII decimal digits, single '_' between
    digits).  None when a non-ASCII character is not a decimal digit."""
    i, j = 0, len(s)
    while i < j and s[i].isspace():
        i += 1
    while j > i and s[j - 1].isspace():
        j -= 1
    out = []
    for c in s[i:j]:
        if ord(c) > 127:
            d = unicodedata.decimal(c, None)
            if d is None:
                return None
            out.append(chr(48 + d))
        else:
            out.append(c)
    if out and out[0] in "+-":
        del out[0]
    r = []
    for k, c in enumerate(out):
        if c == "_" and 0 < k < len(out) - 1 and out[k - 1] in _DIGITS \
                and out[k + 1] in _DIGITS:
            continue
        r.append(c)
    return "".join(r)


_WHY_LENIENT = ("number shape only Python's parser defines (white space, "
                "'_', leading '+', non-ASCII digits): documentation silent")


def parse_int(s):
    """-> ("ok", n) for -?[0-9]+, ("unjudged", why) for lenient shapes,
    ("err",) otherwise."""
    body = s[1:] if s[:1] == "-" else s
    if _all_digits(body):
        if len(body) > 4000:
            return (UNJ, "beyond the interpreter's integer digit limit")
        v = _digits_value(body)
        return (OK, -v if s[0] == "-" else v)
    n = _lenient_norm(s)
    if n is not None and _all_digits(n):
        return (UNJ, _WHY_LENIENT)
    return (ERR,)


def integer(s):
    return parse_int(s)


def port_number(s):
    r = parse_int(s)
    if r[0] != OK:
        return r
    if 0 <= r[1] <= 65535:
        return r
    return (ERR,)


def _float_literal(s):
    """-> (negative, mantissa, exponent) for
    -? (digits [. digits*] | . digits) ([eE] [+-]? digits)?   else None"""
    i = 0
    n = len(s)
    neg = False
    if i < n and s[i] == "-":
        neg = True
        i += 1
    j = i
    while j < n and s[j] in _DIGITS:
        j += 1
    ipart = s[i:j]
    fpart = ""
    if j < n and s[j] == ".":
        k = j + 1
        while k < n and s[k] in _DIGITS:
            k += 1
        fpart = s[j + 1:k]
        j = k
    if not (ipart or fpart):
        return None
    exp = 0
    if j < n and s[j] in "eE":
        k = j + 1
        eneg = False
        if k < n and s[k] in "+-":
            eneg = s[k] == "-"
            k += 1
        m = k
        while m < n and s[m] in _DIGITS:
            m += 1
        if m == k:
            return None
        exp = _digits_value(s[k:m])
        if eneg:
            exp = -exp
        j = m
    if j != n:
        return None
    return neg, ipart + fpart, exp - len(fpart)


def parse_float(s):
    """Plain decimal floating point literals are judged; the value is the
    correctly rounded quotient of two integers."""
    lit = _float_literal(s)
    if lit is not None:
        neg, digits, exp = lit
        if len(digits) > 400 or abs(exp) > 2000:
            return (UNJ, "literal beyond the reference's size cap")
        mant = _digits_value(digits)
        try:
            if exp >= 0:
                v = float(mant * 10 ** exp)
            else:
                v = mant / 10 ** (-exp)     # correctly rounded int/int
        except OverflowError:
            return (UNJ, "finite literal overflowing to infinity")
        if v == float("inf"):
            return (UNJ, "finite literal overflowing to infinity")
        return (OK, -v if neg else v)
    n = _lenient_norm(s)
    if n is not None:
        if _float_literal(n) is not None:
            return (UNJ, _WHY_LENIENT)
        if ascii_lower(n) in ("inf", "infinity", "nan"):
            return (UNJ, "inf/nan: documentation forbids, implementation "
                    "accepts, statement silent")
    return (ERR,)


def float_(s):
    return parse_float(s)


# ---------------------------------------------------------------------------
# suffix multipliers

BYTE_SUFFIXES = {"kb": 1024, "mb": 1024 * 1024, "gb": 1024 * 1024 * 1024}
TIME_SUFFIXES = {"s": 1, "m": 60, "h": 3600, "d": 86400}


def _suffixed(s, table, width):
    if s.lower() != ascii_lower(s):
        return (UNJ, "non-ASCII cased characters (Unicode case mapping of "
                "suffixes is not documented)")
    mult = 1
    num = s
    if len(s) >= width:
        m = table.get(ascii_lower(s[-width:]))
        if m is not None:
            mult = m
            num = s[:-width]
    r = parse_int(num)
    if r[0] == OK:
        return (OK, r[1] * mult)
    return r


def byte_size(s):
    return _suffixed(s, BYTE_SUFFIXES, 2)


def time_interval(s):
    return _suffixed(s, TIME_SUFFIXES, 1)


# ---------------------------------------------------------------------------
# inet-address family

if sys.platform[:3] == "win":
    PLATFORM_DEFAULT_HOST = "localhost"
else:
    PLATFORM_DEFAULT_HOST = ""

DEFAULT_HOSTS = {"inet-address": PLATFORM_DEFAULT_HOST,
                 "inet-binding-address": "",
                 "inet-connection-address": "127.0.0.1"}


def _has_space(s):
    for c in s:
        if c.isspace():
            return True
    return False


def inet(s, default_host):
    """(host, port) per the documentation: port only -> default host; port
    omitted -> None; '[addr]:port' for IPv6 with a port; an unbracketed
    multi-colon text is an IPv6 host without port; host lower-cased."""
    if s == "":
        return (UNJ, "empty string: documentation silent")
    if _has_space(s):
        return (UNJ, "white space in an address: documentation silent")
    i = -1
    for k in range(len(s) - 1, -1, -1):
        if s[k] == ":":
            i = k
            break
    if i < 0:
        if "[" in s or "]" in s:
            return (UNJ, "brackets outside the [addr]:port form")
        r = port_number(s)
        if r[0] == OK:
            return (OK, (default_host, r[1]))
        if r[0] == UNJ:
            return r
        if parse_int(s)[0] == OK:
            return (UNJ, "out-of-range number without host: host name or "
                    "error, documentation silent")
        return (OK, (s.lower(), None))
    head = s[:i]
    tail = s[i + 1:]
    if "[" in s or "]" in s:
        if not (len(head) >= 2 and head[0] == "[" and head[-1] == "]"
                and "[" not in head[1:-1] and "]" not in head[1:-1]
                and "[" not in tail and "]" not in tail):
            return (UNJ, "brackets outside the [addr]:port form")
        host = head[1:-1]
    elif ":" in head:
        host = s
        tail = ""
    else:
        host = head
    port = None
    if tail != "":
        r = port_number(tail)
        if r[0] != OK:
            return r
        port = r[1]
    host = host.lower()
    if host == "":
        host = default_host
    return (OK, (host, port))


def inet_address(s):
    return inet(s, DEFAULT_HOSTS["inet-address"])


def inet_binding_address(s):
    return inet(s, DEFAULT_HOSTS["inet-binding-address"])


def inet_connection_address(s):
    return inet(s, DEFAULT_HOSTS["inet-connection-address"])


def socket_addr(s, default_host):
    """-> ("ok", (family_name, address)) with family_name one of
    'AF_UNIX', 'AF_INET', 'AF_INET6'."""
    if "/" in s or (os.sep != "/" and os.sep in s):
        return (OK, ("AF_UNIX", s))
    r = inet(s, default_host)
    if r[0] != OK:
        return r
    fam = "AF_INET6" if ":" in r[1][0] else "AF_INET"
    return (OK, (fam, r[1]))


def socket_address(s):
    return socket_addr(s, DEFAULT_HOSTS["inet-address"])


def socket_binding_address(s):
    return socket_addr(s, DEFAULT_HOSTS["inet-binding-address"])


def socket_connection_address(s):
    return socket_addr(s, DEFAULT_HOSTS["inet-connection-address"])


# ---------------------------------------------------------------------------
# ipaddr-or-hostname


def _octet(p):
    """True valid / False invalid / None leading zero (unjudged)."""
    if not _all_digits(p) or len(p) > 3:
        return False
    if _digits_value(p) > 255:
        return False
    if len(p) > 1 and p[0] == "0":
        return None
    return True


def dotted_quad(s):
    parts = s.split(".")
    if len(parts) != 4:
        return False
    res = True
    for p in parts:
        o = _octet(p)
        if o is False:
            return False
        if o is None:
            res = None
    return res


def ipv6(s):
    """RFC 4291 section 2.2 text forms: x:x:x:x:x:x:x:x, one '::', and a
    trailing dotted quad.  True / False / None (unjudged: leading zeros in
    the embedded dotted quad)."""
    idx = s.find("::")
    if idx >= 0:
        if s.find("::", idx + 1) >= 0:
            return False
        left = s[:idx]
        right = s[idx + 2:]
        groups = (left.split(":") if left else []) + \
                 (right.split(":") if right else [])
        v4_allowed = bool(right)
    else:
        groups = s.split(":")
        v4_allowed = True
    n = 0
    res = True
    for gi, g in enumerate(groups):
        if "." in g:
            if gi != len(groups) - 1 or not v4_allowed:
                return False
            q = dotted_quad(g)
            if q is False:
                return False
            if q is None:
                res = None
            n += 2
        else:
            if not 1 <= len(g) <= 4:
                return False
            for c in g:
                if c not in _HEX:
                    return False
            n += 1
    if idx >= 0:
        if n > 7:
            return False
    elif n != 8:
        return False
    return res


def ipaddr_or_hostname(s):
    if not is_ascii(s):
        # host names are ASCII (letters, digits, '-', '.', '_'): an
        # internationalised name is written in its ASCII (punycode) form.
        # Until seeded round 5 non-ASCII letters were unjudged here, which
        # hid a converter that lower-cases before it validates (U+212A
        # KELVIN SIGN lower-cases to 'k').
        return (ERR,)
    if ":" in s:
        v = ipv6(s)
        if v is None:
            return (UNJ, "leading zero in dotted quad embedded in IPv6")
        return (OK, ascii_lower(s)) if v else (ERR,)
    if s[:1] in _DIGITS and s[:1] != "":
        q = dotted_quad(s)
        if q is None:
            return (UNJ, "leading zero in a dotted-quad octet")
        return (OK, s) if q else (ERR,)
    if DFA_HOSTNAME.accepts(s):
        if len(s) == 1:
            return (UNJ, "one-character host name")
        return (OK, ascii_lower(s))
    return (ERR,)


# ---------------------------------------------------------------------------
# string, null, string-list


def string(s):
    if is_ascii(s):
        return (OK, s)
    return (OKQ, None)       # docs speak of a 7-bit check nobody performs


def null(s):
    return (OK, s)


def string_list(s):
    out = []
    cur = []
    for c in s:
        if c.isspace():
            if cur:
                out.append("".join(cur))
                cur = []
        else:
            cur.append(c)
    if cur:
        out.append("".join(cur))
    return (OK, out)


# ---------------------------------------------------------------------------
# timedelta

_UNITS = {"w": "weeks", "d": "days", "h": "hours", "m": "minutes",
          "s": "seconds"}
_TD_MAX_DAYS = 999999999


def timedelta(s):
    parts = string_list(s)[1]
    kinds = set()
    seen = {}
    unjudged = None
    for part in parts:
        num, unit = part[:-1], part[-1]
        r = parse_float(num)
        if r[0] == UNJ:
            unjudged = unjudged or r[1]
            continue
        if unit in _UNITS:
            if r[0] == OK:
                if unit in seen:
                    unjudged = unjudged or "unit given twice"
                seen[unit] = r[1]
            else:
                kinds.add(ERR)
        elif unit in _UPPER and ascii_lower(unit) in _UNITS:
            unjudged = unjudged or ("upper-case unit letter: 'similar to "
                                    "time-interval' may or may not imply "
                                    "case-insensitive")
        elif unit in _LOWER or unit in _UPPER or \
                (ord(unit) > 127 and unit.isalpha()):
            # an unknown unit *letter*
            kinds.add(TYPEERR if r[0] == OK else ANYERR)
        else:
            # no unit letter at all (digit, punctuation)
            kinds.add(ANYERR)
    if unjudged:
        return (UNJ, unjudged)
    if kinds:
        if kinds == {ERR}:
            return (ERR,)
        if kinds == {TYPEERR}:
            return (TYPEERR,)
        return (ANYERR,)
    kw = {_UNITS[u]: v for u, v in seen.items()}
    try:
        v = datetime.timedelta(**kw)
    except OverflowError:
        return (UNJ, "magnitude beyond datetime.timedelta: documentation "
                "silent about the limit (must still be a ValueError)")
    return (OK, v)


# ---------------------------------------------------------------------------
# existing-* (evaluated against the real file system; the check supplies a
# fixture directory) and locale (evaluated against the C library)


def _tilde(s):
    return s[:1] == "~"


def existing_directory(s):
    if _tilde(s):
        return (UNJ, "'~' expansion is not documented")
    return (OK, s) if os.path.isdir(s) else (ERR,)


def existing_path(s):
    if _tilde(s):
        return (UNJ, "'~' expansion is not documented")
    if os.path.lexists(s) != os.path.exists(s):
        return (UNJ, "dangling symlink: 'file, directory, or symlink ... "
                "exists' vs os.path.exists")
    return (OK, s) if os.path.exists(s) else (ERR,)


def existing_file(s):
    if _tilde(s):
        return (UNJ, "'~' expansion is not documented")
    if os.path.lexists(s) != os.path.exists(s):
        return (UNJ, "dangling symlink")
    if os.path.isdir(s):
        return (UNJ, "a directory given to existing-file: documentation "
                "says file, implementation accepts any existing path")
    return (OK, s) if os.path.exists(s) else (ERR,)


def existing_dirpath(s):
    if _tilde(s):
        return (UNJ, "'~' expansion is not documented")
    i = s.rfind("/")
    if i < 0:
        return (OK, s)
    head = s[:i + 1]
    if head.strip("/") != "":
        head = head.rstrip("/")
    return (OK, s) if os.path.isdir(head) else (ERR,)


def locale_(s):
    """'Any valid locale specifier accepted by the available
    locale.setlocale function' -- asked of the C library directly."""
    import locale
    prev = locale.setlocale(locale.LC_ALL)
    try:
        try:
            locale.setlocale(locale.LC_ALL, s)
        finally:
            locale.setlocale(locale.LC_ALL, prev)
    except locale.Error:
        return (ERR,)
    except ValueError:
        return (ERR,)
    return (OK, s)


REFERENCE = {
    "basic-key": basic_key,
    "boolean": boolean,
    "byte-size": byte_size,
    "dotted-name": dotted_name,
    "dotted-suffix": dotted_suffix,
    "existing-dirpath": existing_dirpath,
    "existing-directory": existing_directory,
    "existing-file": existing_file,
    "existing-path": existing_path,
    "float": float_,
    "identifier": identifier,
    "inet-address": inet_address,
    "inet-binding-address": inet_binding_address,
    "inet-connection-address": inet_connection_address,
    "integer": integer,
    "ipaddr-or-hostname": ipaddr_or_hostname,
    "locale": locale_,
    "null": null,
    "port-number": port_number,
    "socket-address": socket_address,
    "socket-binding-address": socket_binding_address,
    "socket-connection-address": socket_connection_address,
    "string": string,
    "string-list": string_list,
    "time-interval": time_interval,
    "timedelta": timedelta,
}

# converters the rest of ZConfig uses to normalise key / section names
KEY_NORMALISERS = ("basic-key", "identifier", "ipaddr-or-hostname")


def shape(s, cap=10):
    """Bounded feature signature of a string: run-collapsed class word."""
    out = []
    last = None
    for c in s:
        if c in _LOWER or c in _UPPER:
            k = "a"
        elif c in _DIGITS:
            k = "0"
        elif ord(c) > 127:
            k = "d" if c.isdigit() else "s" if c.isspace() else "u"
        elif c.isspace():
            k = "s"
        elif ord(c) < 32 or ord(c) == 127:
            k = "c"
        else:
            k = c
        if k != last:
            out.append(k)
            last = k
            if len(out) >= cap:
                out.append("+")
                break
    return "".join(out)
