"""Reference conformance and evaluation (DESIGN.md Appendix B).

Whole-tree, declarative; shares no code with ZConfig.matcher / ZConfig.info.

conform(resolved, text) ->
   ('accept', value, handler_entries)
 | ('reject', stage, why)          stage in {'syntax','subst','match','convert'}
 | ('unjudged', why)

value: canonical JSON-able tree
   section  -> ['S', typename|None, name|None, {attr: value}]
   wrapped  -> ['W', classname, section]
   scalars  -> ['str', s] ['int', n] ['float', repr] ['bool', b] None
   tuple    -> ['tuple', [...]]   list -> ['list', [...]]
   dict     -> ['dict', {key: value}]
handler_entries: [[handler_name_normalised, value], ...] in call order.
"""

from ..gen import family
from . import refparse


class Reject(Exception):
    def __init__(self, stage, why):
        self.stage, self.why = stage, why


class Unjudged(Exception):
    pass


def canon(v):
    if v is None:
        return None
    if isinstance(v, bool):
        return ["bool", v]
    if isinstance(v, int):
        return ["int", v]
    if isinstance(v, float):
        return ["float", repr(v)]
    if isinstance(v, str):
        return ["str", v]
    if isinstance(v, tuple):
        return ["tuple", [canon(x) for x in v]]
    if isinstance(v, list):
        return ["list", [canon(x) for x in v]]
    if isinstance(v, dict):
        return ["dict", {k: canon(x) for k, x in v.items()}]
    raise TypeError(v)


WRAP_CLASS = {"wrap": "Wrapped", "wrap2": "Wrapped2"}


def build_tree(events):
    """events -> node {'type','name','items':[('k',key,value,line) |
    ('s',node)], 'open','close'}"""
    top = {"type": None, "name": None, "items": [], "open": 0, "close": None}
    nodes = {0: top}
    for e in events:
        if e[0] == "open":
            n = {"type": e[3], "name": e[4], "items": [], "open": e[5],
                 "close": None}
            nodes[e[1]] = n
            nodes[e[2]]["items"].append(("s", n))
        elif e[0] == "close":
            nodes[e[1]]["close"] = e[5]
        elif e[0] == "key":
            nodes[e[1]]["items"].append(("k", e[2], e[3], e[4]))
    return top


def conv(dt, text):
    r = family.convert(dt, text)
    if r is None:
        raise Unjudged("value %r outside the %s vocabulary" % (text, dt))
    if r == family.ERR:
        raise Reject("convert", "%r is not a valid %s" % (text, dt))
    return r[1]


def eval_container(res, cont, node, entries):
    kt = cont.keytype
    children = cont.children
    # index the container
    declared = {}        # normalised key -> child (keys and fixed slots)
    wildcard = None
    for c in children:
        if c["kind"] in ("key", "multikey") and c["name"] == "+":
            wildcard = c
        elif c["name"] not in ("*", "+"):
            dk = family.norm_key(c.get("_declared_under", kt), c["name"])
            declared[dk] = c
    # ---- key lines -------------------------------------------------------
    got = {}             # id(child) -> list of texts | {rk: [texts]}
    for it in node["items"]:
        if it[0] != "k":
            continue
        _, key, value, _line = it
        try:
            rk = family.norm_key(kt, key)
        except ValueError as e:
            raise Unjudged(str(e))
        if rk is None:
            raise Reject("match", "key %r not valid under %s" % (key, kt))
        c = declared.get(rk)
        if c is not None:
            if c["kind"] in ("section", "multisection"):
                raise Reject("match", "key %r names a section slot" % key)
            lst = got.setdefault(id(c), [])
            if c["kind"] == "key" and lst:
                raise Reject("match", "single key %r given twice" % key)
            lst.append(value)
        elif wildcard is not None:
            d = got.setdefault(id(wildcard), {})
            if wildcard["kind"] == "key" and rk in d:
                raise Reject("match", "wildcard entry %r given twice" % key)
            d.setdefault(rk, []).append(value)
        else:
            raise Reject("match", "unknown key %r" % key)
    # ---- child sections --------------------------------------------------
    filled = {}          # id(slot) -> [values]
    names_seen = set()
    dk_names = set(k for k, c in declared.items()
                   if c["kind"] in ("key", "multikey"))
    fixed = dict((k, c) for k, c in declared.items()
                 if c["kind"] in ("section", "multisection"))
    order = {id(c): i for i, c in enumerate(children)}
    for it in node["items"]:
        if it[0] != "s":
            continue
        child = it[1]
        tname, name = child["type"], child["name"]
        if name in ("*", "+"):
            raise Reject("match", "section named %r" % name)
        if tname not in res.types:
            raise Reject("match", "unknown section type %r" % tname)
        if res.is_abstract(tname):
            raise Reject("match", "abstract type %r used directly" % tname)
        unnamed = [c for c in children
                   if c["kind"] in ("section", "multisection")
                   and c["name"] in ("*", "+") and res.admits(c, tname)]
        slot = None
        if name is not None and name in dk_names:
            if unnamed:
                raise Unjudged("section name equals a declared key while an "
                               "unnamed slot admits the type")
            raise Reject("match", "section name %r is a key" % name)
        if name is not None and name in fixed:
            s = fixed[name]
            if res.admits(s, tname):
                if any(order[id(u)] < order[id(s)] for u in unnamed):
                    raise Unjudged("fixed-name slot declared after an "
                                   "unnamed slot admitting the same type")
                slot = s
            else:
                if not unnamed:
                    raise Reject("match", "name %r reserved for another "
                                 "type" % name)
                # the section fits an unnamed slot by type and name rule,
                # which is all the statement asks for; the implementation
                # agrees when that slot is declared before the fixed-name
                # slot of the other type and refuses otherwise (not pinned)
                if not any(order[id(u)] < order[id(s)] for u in unnamed):
                    raise Unjudged("reserved name with non-fitting type "
                                   "declared before the unnamed slot that "
                                   "admits the type")
                if len(unnamed) > 1:
                    raise Unjudged("two unnamed slots admit type %r" % tname)
                slot = unnamed[0]
        else:
            if len(unnamed) > 1:
                raise Unjudged("two unnamed slots admit type %r" % tname)
            if not unnamed:
                raise Reject("match", "no slot for type %r name %r"
                             % (tname, name))
            slot = unnamed[0]
        if slot["name"] == "+" and name is None:
            raise Reject("match", "sections in a '+' slot must be named")
        if name is not None:
            if name in names_seen:
                raise Reject("match", "section name %r reused" % name)
            names_seen.add(name)
        lst = filled.setdefault(id(slot), [])
        if slot["kind"] == "section" and lst:
            raise Reject("match", "single slot filled twice")
        sub = res.types[tname]
        v = eval_container(res, sub, child, entries)
        sv = ["S", tname, name, v]
        if sub.datatype:
            sv = ["W", WRAP_CLASS[sub.datatype], sv]
        lst.append(sv)
    # ---- requirements, defaults, conversion -------------------------------
    attrs = {}
    own_entries = []
    for c in children:
        attr = cont.attr_of(c)
        kind = c["kind"]
        if kind in ("key", "multikey"):
            dt = c["datatype"]
            if c["name"] == "+":
                d = got.get(id(c), {})
                if c["required"] and not d:
                    raise Reject("match", "required wildcard map empty")
                if d:
                    if kind == "key":
                        val = {k: canon(conv(dt, vs[0])) for k, vs in
                               d.items()}
                    else:
                        val = {k: ["list", [canon(conv(dt, x)) for x in vs]]
                               for k, vs in d.items()}
                else:
                    val = {}
                    raws = {}
                    for dk, dv in c.get("defaults") or []:
                        raws.setdefault(family.norm_key(kt, dk),
                                        set()).add(dk)
                    if kind == "multikey" and any(len(r) > 1
                                                  for r in raws.values()):
                        # the order of default values whose differently
                        # spelled keys normalise to one key is not pinned
                        # by the statement
                        raise Unjudged("wildcard defaults with differently "
                                       "spelled colliding keys")
                    for dk, dv in c.get("defaults") or []:
                        try:
                            nk = family.norm_key(kt, dk)
                        except ValueError as e:
                            raise Unjudged(str(e))
                        if nk is None:
                            raise Unjudged("default key not valid")
                        if kind == "key":
                            val[nk] = canon(conv(dt, dv))
                        else:
                            val.setdefault(nk, ["list", []])[1].append(
                                canon(conv(dt, dv)))
                value = ["dict", val]
            elif kind == "key":
                lst = got.get(id(c), [])
                if lst:
                    value = canon(conv(dt, lst[0]))
                elif c["required"]:
                    raise Reject("match", "required key %r missing"
                                 % c["name"])
                elif c.get("default") is not None:
                    value = canon(conv(dt, c["default"]))
                elif c.get("defaults"):
                    value = canon(conv(dt, c["defaults"][0]))
                else:
                    value = None
            else:
                lst = got.get(id(c), [])
                if not lst:
                    lst = list(c.get("defaults") or [])
                if c["required"] and not lst:
                    raise Reject("match", "required multikey %r empty"
                                 % c["name"])
                value = ["list", [canon(conv(dt, x)) for x in lst]]
        else:
            lst = filled.get(id(c), [])
            if c["required"] and not lst:
                raise Reject("match", "required section slot empty")
            if kind == "section":
                value = lst[0] if lst else None
            else:
                value = ["list", lst]
        attrs[attr] = value
        if c.get("handler"):
            own_entries.append([family.basic_key(c["handler"]), value])
    entries.extend(own_entries)
    return attrs


def conform_tree(res, tree):
    entries = []
    try:
        attrs = eval_container(res, res.top, tree, entries)
    except Reject as r:
        return ("reject", r.stage, r.why)
    except Unjudged as u:
        return ("unjudged", str(u))
    value = ["S", None, None, attrs]
    if res.top.datatype:
        value = ["W", WRAP_CLASS[res.top.datatype], value]
    if res.top.handler:
        entries.append([family.basic_key(res.top.handler), value])
    return ("accept", value, entries)


def conform(res, text):
    events, outcome, _ = refparse.parse(text)
    if outcome[0] == "unjudged":
        return ("unjudged", outcome[1])
    if outcome[0] == "syntax":
        # a syntactically bad line may come after a matching error that the
        # implementation reports first; both are rejections
        return ("reject", "syntax", outcome[2])
    if outcome[0] in ("subst-syntax", "subst-missing", "reject-any"):
        return ("reject", "subst", outcome[0])
    if any(e[0] in ("import", "include") for e in events):
        return ("unjudged", "directive outside this model")
    return conform_tree(res, build_tree(events))
