"""Parent side: shard a check over worker subprocesses, decide, write evidence.

Exit codes: 0 held (possibly with KNOWN-FINDING lines), 1 violated,
2 inconclusive.
"""

import collections
import hashlib
import importlib
import json
import os
import subprocess
import sys
import tempfile
import time

from . import hostile, tree

WATCHDOG = {"quick": 15 * 60, "thorough": 90 * 60}


def load_check(prop):
    return importlib.import_module("zcverif.checks." + prop.lower())


def known_findings():
    path = os.path.join(tree.VERIF_ROOT, "known_findings.json")
    try:
        with open(path) as f:
            return json.load(f).get("findings", [])
    except FileNotFoundError:
        return []


def default_jobs():
    try:
        return max(1, int(os.environ.get("ZCVERIF_JOBS", "") or
                          min(16, os.cpu_count() or 1)))
    except ValueError:
        return 8


def run_check(prop, tier, seed):
    t0 = time.time()
    mod = load_check(prop)
    zfile = tree.bind()
    shash, nfiles = tree.source_hash()
    jobs = default_jobs()
    nshards = mod.shards(tier) if hasattr(mod, "shards") else jobs
    nshards = max(1, min(nshards, 64))
    outdir = tempfile.mkdtemp(prefix="zcverif-out-%s-" % prop)
    env = dict(os.environ)
    env["PYTHONHASHSEED"] = "0"
    env["PYTHONDONTWRITEBYTECODE"] = "1"
    env["PYTHONPATH"] = tree.VERIF_ROOT + os.pathsep + env.get("PYTHONPATH",
                                                                "")
    env.setdefault("ZCVERIF_REPO", tree.repo_root())
    hostile.driver_env(env)
    pending = list(range(nshards))
    running = {}
    results = {}
    failures = []
    deadline = t0 + WATCHDOG[tier]
    try:
        while pending or running:
            while pending and len(running) < jobs:
                i = pending.pop(0)
                out = os.path.join(outdir, "shard%d.json" % i)
                log = open(os.path.join(outdir, "shard%d.log" % i), "w")
                wenv = hostile.worker_env(env, i)
                p = subprocess.Popen(
                    [sys.executable, "-m", "zcverif.run", "worker", prop,
                     "--tier", tier, "--seed", str(seed), "--shard", str(i),
                     "--nshards", str(nshards), "--out", out],
                    env=wenv, cwd=tree.VERIF_ROOT, stdout=log,
                    stderr=subprocess.STDOUT)
                running[i] = (p, out, log)
            time.sleep(0.05)
            for i in list(running):
                p, out, log = running[i]
                rc = p.poll()
                if rc is None:
                    continue
                log.close()
                del running[i]
                if rc == 0 and os.path.exists(out):
                    with open(out) as f:
                        results[i] = json.load(f)
                else:
                    with open(log.name) as f:
                        tail = f.read()[-1500:]
                    failures.append("shard %d exited %s: %s" % (i, rc, tail))
            if time.time() > deadline:
                for i, (p, out, log) in running.items():
                    p.kill()
                    failures.append("shard %d hit the wall-clock watchdog"
                                    % i)
                running.clear()
                pending[:] = []
    finally:
        for i, (p, out, log) in list(running.items()):
            p.kill()
        import shutil
        shutil.rmtree(outdir, ignore_errors=True)

    merged = merge(results.values())
    merged["inconclusive"].extend(failures)
    return decide(mod, prop, tier, seed, merged, time.time() - t0,
                  zfile, shash, nfiles, nshards)


def merge(parts):
    m = {"evaluations": 0, "counters": collections.Counter(),
         "hooks": collections.Counter(), "sigs": set(), "samples": [],
         "violations": [], "violation_count": 0, "inconclusive": [],
         "info": {}}
    seen_kinds = collections.Counter()
    for r in parts:
        m["evaluations"] += r["evaluations"]
        m["counters"].update(r["counters"])
        m["hooks"].update(r["hooks"])
        m["sigs"].update(r["sigs"])
        for s in r["samples"]:
            if seen_kinds[s["kind"]] < 2 and len(m["samples"]) < 14:
                seen_kinds[s["kind"]] += 1
                m["samples"].append(s)
        m["violations"].extend(r["violations"])
        m["violation_count"] += r["violation_count"]
        m["inconclusive"].extend(r["inconclusive"])
        for k, v in r.get("info", {}).items():
            if k == "_linecov":
                lc = m["info"].setdefault("_linecov", {})
                for f, ls in v.items():
                    lc.setdefault(f, set()).update(ls)
            else:
                m["info"].setdefault(k, v)
    return m


def decide(mod, prop, tier, seed, m, wall, zfile, shash, nfiles, nshards):
    findings = [f for f in known_findings() if f.get("property") == prop]
    open_by_mech = {f["mechanism"]: f for f in findings
                    if f.get("status") == "open"}
    lines = []
    fresh = []
    known_seen = collections.Counter()
    for v in m["violations"]:
        mech = v.get("mechanism")
        if mech and mech in open_by_mech:
            known_seen[mech] += 1
        else:
            fresh.append(v)
    # floors → inconclusive
    inconclusive = list(m["inconclusive"])
    for name, floor in getattr(mod, "FLOORS", {}).get(tier, {}).items():
        if m["counters"].get(name, 0) < floor:
            inconclusive.append("counter %s=%d below floor %d"
                                % (name, m["counters"].get(name, 0), floor))
    for name, floor in getattr(mod, "HOOK_FLOORS", {}).get(tier, {}).items():
        if m["hooks"].get(name, 0) < floor:
            inconclusive.append("hook %s observed %d events, floor %d"
                                % (name, m["hooks"].get(name, 0), floor))
    if m["evaluations"] == 0:
        inconclusive.append("no case was evaluated")

    replay_dir = os.path.join(tree.VERIF_ROOT, "replays", prop)
    written = set()
    minimised = 0
    for v in fresh:
        if v["vsig"] in written or len(written) >= 20:
            continue
        written.add(v["vsig"])
        if minimised < 4:
            minimised += 1
            try:
                minimise(mod, prop, v)
            except Exception as e:  # noqa  (never let triage help hurt)
                v["minimise_error"] = "%s: %s" % (type(e).__name__, e)
        os.makedirs(replay_dir, exist_ok=True)
        blob = json.dumps(v, sort_keys=True, indent=1)
        name = hashlib.sha1(blob.encode()).hexdigest()[:16] + ".json"
        path = os.path.join(replay_dir, name)
        with open(path, "w") as f:
            f.write(blob)
        lines.append("VIOLATION property=%s replay=%s" % (prop, path))
        lines.append("  kind=%s detail=%s" % (v["kind"],
                                              str(v.get("detail"))[:300]))
        if v.get("minimised_text") is not None:
            lines.append("  minimised text=%r" % v["minimised_text"][:300])
    for mech, n in sorted(known_seen.items()):
        lines.append("KNOWN-FINDING: property=%s %s [mechanism=%s, "
                     "%d witness(es) this run]"
                     % (prop, open_by_mech[mech]["what"], mech, n))

    extra = {}
    if hasattr(mod, "finalize"):
        extra = mod.finalize(m, tier) or {}
    samples = m["samples"] or [{"kind": "none", "case": None}]
    coverage = {
        "evaluations": int(m["evaluations"]),
        "distinct_nontrivial": len(m["sigs"]),
        "rule": mod.RULE,
        "samples": samples,
        "counters": dict(sorted(m["counters"].items())),
        "hook_events": dict(sorted(m["hooks"].items())),
        "shards": nshards,
        "tree_under_test": {"ZConfig": zfile, "source_sha1": shash,
                            "source_files": nfiles},
        "known_findings_seen": dict(known_seen),
        "verdict": ("violated" if fresh else
                    "inconclusive" if inconclusive else "held"),
        "inconclusive_reasons": inconclusive[:10],
    }
    coverage.update(extra)
    linecov = m["info"].pop("_linecov", None)
    if linecov is not None:
        coverage["anchor_line_coverage"] = anchor_coverage(prop, linecov)
        dump = os.environ.get("ZCVERIF_LINECOV_DUMP")
        if dump:        # tools/uncovered.py: full hit map, not evidence
            with open(os.path.join(dump, prop + ".json"), "w") as f:
                json.dump({k: sorted(v) for k, v in linecov.items()}, f)
    coverage.update({k: v for k, v in m["info"].items()
                     if k not in coverage})
    ev = {
        "property_id": prop, "tier": tier, "seed": int(seed),
        "level": mod.LEVEL, "coverage": coverage,
        "assumptions": list(getattr(mod, "ASSUMPTIONS", [])),
        "wall_s": round(wall, 2), "violations": len(fresh),
    }
    evdir = os.path.join(tree.VERIF_ROOT, "evidence")
    os.makedirs(evdir, exist_ok=True)
    tmp = os.path.join(evdir, prop + ".json.tmp")
    with open(tmp, "w") as f:
        json.dump(ev, f, indent=1, sort_keys=True, default=repr)
        f.write("\n")
    os.replace(tmp, os.path.join(evdir, prop + ".json"))

    for ln in lines:
        print(ln)
    summary = ("%s %s tier=%s seed=%s evaluations=%d distinct=%d "
               "wall=%.1fs counters=%s"
               % (prop, coverage["verdict"].upper(), tier, seed,
                  m["evaluations"], len(m["sigs"]), wall,
                  json.dumps(coverage["counters"])))
    print(summary)
    if fresh:
        return 1
    if inconclusive:
        for r in inconclusive[:10]:
            print("INCONCLUSIVE property=%s reason=%s" % (prop, r))
        return 2
    return 0


def minimise(mod, prop, v, budget=60):
    """Greedy line deletion on the witness text: keep a deletion only if
    replaying the case still yields a violation of the same kind.  The
    original text stays in the witness; the reduced one is added."""
    from .shard import Ctx
    case = v.get("case")
    if not isinstance(case, dict) or not isinstance(case.get("text"), str) \
            or not hasattr(mod, "replay"):
        return
    os.environ.update(hostile.driver_env({}))

    def still(text):
        ctx = Ctx(prop, "quick", 0, 0, 1)
        try:
            mod.replay(ctx, dict(case, text=text))
        except Exception:  # noqa
            return False
        finally:
            ctx.cleanup()
        return any(w["kind"] == v["kind"] for w in ctx.res.violations)

    text = case["text"]
    if not still(text):
        v["replay_reproduces"] = False
        return
    v["replay_reproduces"] = True
    lines = text.split("\n")
    i = 0
    while i < len(lines) and budget > 0 and len(lines) > 1:
        cand = lines[:i] + lines[i + 1:]
        budget -= 1
        if still("\n".join(cand)):
            lines = cand
        else:
            i += 1
    reduced = "\n".join(lines)
    if reduced != text:
        v["minimised_text"] = reduced


def anchor_coverage(prop, linecov):
    """Executed / executable lines of the files the property is anchored
    in (properties.jsonl anchors.files), measured by mon.linecov."""
    from ..mon.linecov import executable_lines
    files = []
    try:
        with open(os.path.join(tree.VERIF_ROOT, "properties.jsonl")) as f:
            for line in f:
                d = json.loads(line)
                if d["id"] == prop:
                    files = d["anchors"]["files"]
    except Exception:  # noqa
        pass
    out = {"note": "first-hit LINE events of sys.monitoring in the worker "
           "processes; executed/executable lines per anchored file"}
    base = os.path.join(tree.repo_root(), "src", "ZConfig")
    for rel in files:
        if not rel.endswith(".py"):
            continue
        short = rel.split("src/ZConfig/", 1)[-1]
        total = executable_lines(os.path.join(base, short))
        hit = set(linecov.get(short, ())) & total if total else set()
        out[short] = {"executed": len(hit), "executable": len(total)}
    return out


def run_worker(prop, tier, seed, shard, nshards, out):
    from .shard import Ctx
    cov = None
    if os.environ.get("ZCVERIF_LINECOV", "1") != "0":
        # started before ZConfig is imported so that module-level lines count
        from ..mon.linecov import LineCoverage
        cov = LineCoverage(os.path.join(tree.repo_root(), "src", "ZConfig"))
        if not cov.start():
            cov = None
    hostile.apply_in_process(shard)
    tree.bind()
    mod = load_check(prop)
    ctx = Ctx(prop, tier, seed, shard, nshards)
    try:
        mod.run_shard(ctx)
    finally:
        for v in ctx.res.violations:
            v["worker"] = hostile.describe(shard)
        if cov is not None:
            cov.stop()
            ctx.res.info["_linecov"] = cov.dump()
        ctx.cleanup()
    ctx.res.dump(out)
    return 0


def run_replay(path):
    with open(path) as f:
        v = json.load(f)
    prop = v["property"]
    w = v.get("worker") or {}
    if w.get("optimize") and not sys.flags.optimize and \
            not os.environ.get("ZCVERIF_REEXEC"):
        # the witness was observed with assert statements compiled out
        env = dict(os.environ, ZCVERIF_REEXEC="1", PYTHONOPTIMIZE="1")
        return subprocess.call([sys.executable, "-m", "zcverif.run",
                                "replay", path], env=env)
    os.environ.update(hostile.driver_env({}))
    if "shard" in w:
        hostile.apply_in_process(w["shard"])
    tree.bind()
    mod = load_check(prop)
    from .shard import Ctx
    ctx = Ctx(prop, "quick", 0, 0, 1)
    try:
        mod.replay(ctx, v["case"])
    finally:
        ctx.cleanup()
    if ctx.res.violations:
        for w in ctx.res.violations:
            print("VIOLATION property=%s replay=%s" % (prop, path))
            print("  kind=%s mechanism=%s" % (w["kind"], w.get("mechanism")))
            print("  expected=%s" % json.dumps(w["expected"])[:600])
            print("  observed=%s" % json.dumps(w["observed"])[:600])
            print("  detail=%s" % str(w.get("detail"))[:600])
        return 1
    print("%s replay: no disagreement on the current tree" % prop)
    return 0
