"""Per-worker context and result accumulator."""

import collections
import hashlib
import json
import os
import random
import shutil
import tempfile

MAX_SIGS = 200000
MAX_SAMPLES = 12
MAX_VIOLATIONS = 40


class Ctx:
    """What a check's ``run_shard`` receives."""

    def __init__(self, prop, tier, seed, shard, nshards):
        self.prop = prop
        self.tier = tier
        self.seed = seed
        self.shard = shard
        self.nshards = nshards
        self._tmp = None
        self.res = Result(prop)

    @property
    def quick(self):
        return self.tier == "quick"

    def rng(self, *salt):
        key = "%s|%s|%s|%s" % (self.prop, self.seed, self.shard,
                               "|".join(map(str, salt)))
        return random.Random(int(hashlib.sha1(key.encode()).hexdigest()[:16],
                                 16))

    def mine(self, index):
        """True when case number *index* belongs to this shard."""
        return index % self.nshards == self.shard

    @property
    def tmp(self):
        if self._tmp is None:
            base = None
            if os.path.isdir("/dev/shm") and os.access("/dev/shm", os.W_OK):
                base = "/dev/shm"       # tmpfs: file-heavy checks run faster
            self._tmp = tempfile.mkdtemp(prefix="zcverif-%s-" % self.prop,
                                         dir=base)
        return self._tmp

    def cleanup(self):
        if self._tmp is not None:
            shutil.rmtree(self._tmp, ignore_errors=True)
            self._tmp = None


class Result:
    def __init__(self, prop):
        self.prop = prop
        self.evaluations = 0
        self.counters = collections.Counter()
        self.hooks = collections.Counter()
        self.sigs = set()
        self.samples = []
        self._sample_kinds = collections.Counter()
        self.violations = []
        self.violation_count = 0
        self._vsigs = set()
        self.inconclusive = []
        self.info = {}

    # -- recording ---------------------------------------------------------
    def count(self, name, n=1):
        self.counters[name] += n

    def hook(self, name, n=1):
        self.hooks[name] += n

    def sig(self, s):
        if len(self.sigs) < MAX_SIGS:
            self.sigs.add(s)

    def sample(self, kind, case, per_kind=2):
        """Keep a few written-out cases of each kind."""
        if self._sample_kinds[kind] < per_kind and \
                len(self.samples) < MAX_SAMPLES * 3:
            self._sample_kinds[kind] += 1
            self.samples.append({"kind": kind, "case": _abridge(case)})

    def violate(self, kind, case, expected=None, observed=None, detail=None,
                mechanism=None, vsig=None):
        """Record a disagreement between oracle and implementation.

        *kind*  – which oracle disagreed (short slug)
        *case*  – JSON-serialisable record that replays the case
        *mechanism* – slug of a known-finding mechanism, or None
        *vsig*  – deduplication signature (defaults to kind+mechanism)
        """
        self.violation_count += 1
        vsig = vsig or "%s|%s" % (kind, mechanism)
        if vsig in self._vsigs and len(self.violations) >= 3:
            return
        if len(self.violations) >= MAX_VIOLATIONS:
            return
        n_same = sum(1 for v in self.violations if v["vsig"] == vsig)
        if n_same >= 3:
            return
        self._vsigs.add(vsig)
        self.violations.append({
            "property": self.prop, "kind": kind, "case": case,
            "expected": _js(expected), "observed": _js(observed),
            "detail": detail, "mechanism": mechanism, "vsig": vsig})

    def inconclusive_because(self, reason):
        self.inconclusive.append(reason)

    # -- transport ---------------------------------------------------------
    def dump(self, path):
        data = {
            "evaluations": self.evaluations,
            "counters": dict(self.counters),
            "hooks": dict(self.hooks),
            "sigs": sorted(self.sigs),
            "samples": self.samples,
            "violations": self.violations,
            "violation_count": self.violation_count,
            "inconclusive": self.inconclusive,
            "info": self.info,
        }
        tmp = path + ".tmp"
        with open(tmp, "w") as f:
            json.dump(data, f)
        os.replace(tmp, path)


def _abridge(x, limit=1500):
    """Samples are illustrations: long strings are cut (witnesses of
    violations are kept whole)."""
    if isinstance(x, str):
        if len(x) > limit:
            return x[:limit // 2] + " ...[%d characters]... " % len(x) + \
                x[-limit // 4:]
        return x
    if isinstance(x, dict):
        return {k: _abridge(v, limit) for k, v in x.items()}
    if isinstance(x, (list, tuple)):
        return [_abridge(v, limit) for v in x]
    return x


def _js(x):
    try:
        json.dumps(x)
        return x
    except (TypeError, ValueError):
        return repr(x)
