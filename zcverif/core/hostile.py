"""Process environments a deployment may well have, applied to workers.

Nothing here changes what ZConfig is asked to do; it changes what the
process looks like around it.  The pinned tree consults none of it, so
every check must come out the same; a change that starts to consult it is
observed by the ordinary oracles.

 * every worker: environment variables named like the %define names the
   generators use, ZCV_SET, and a stale PWD (set by the driver);
 * worker i with i % 4 == 3: assert statements compiled out (-O);
 * worker i with i % 4 == 2: the locale says Latin-1 or ASCII (what
   locale.getpreferredencoding()/getencoding() answer; simulated in-process
   because the sandbox has no such locale and the harness's own files must
   stay UTF-8);
 * worker i with i % 4 == 1: the application registered its own numbers for
   the level names TRACE, BLATHER and ALL with the logging package, and
   the recursion limit is the interpreter's default.
"""

import os

DEFINE_ENV = dict(("Def%d" % i, "ZCV-FROM-ENVIRONMENT") for i in range(1, 13))
DEFINE_ENV["ZCV_SET"] = "zcv-env-value"
STALE_PWD = "/usr"


def driver_env(env):
    env.update(DEFINE_ENV)
    if os.path.isdir(STALE_PWD):
        # a process that changes directory never updates PWD
        env["PWD"] = STALE_PWD
    return env


def worker_env(env, shard):
    if shard % 4 == 3:
        return dict(env, PYTHONOPTIMIZE="1")
    return env


def describe(shard):
    import sys
    return {"shard": shard, "optimize": sys.flags.optimize,
            "latin1_locale": shard % 4 == 2,
            "own_level_names": shard % 4 == 1}


def apply_in_process(shard):
    """Called in the worker before ZConfig is imported."""
    if shard % 4 == 2:
        import locale
        # Latin-1 on one worker, plain ASCII (the "C" locale) on the next
        enc = "iso8859-1" if shard % 8 == 2 else "ANSI_X3.4-1968"
        loc = ("de_DE", "ISO8859-1") if shard % 8 == 2 else (None, None)
        locale.getpreferredencoding = lambda do_setlocale=True: enc
        locale.getencoding = lambda: enc
        locale.getlocale = lambda category=None: loc
        locale.getdefaultlocale = lambda *a: loc
    if shard % 4 == 1:
        import logging
        logging.addLevelName(7, "TRACE")
        logging.addLevelName(25, "BLATHER")
        logging.addLevelName(3, "ALL")
