"""Bind the interpreter to the ZConfig tree under test."""

import hashlib
import os
import sys

VERIF_ROOT = os.path.dirname(os.path.dirname(os.path.dirname(
    os.path.abspath(__file__))))


def repo_root():
    return os.path.abspath(os.environ.get("ZCVERIF_REPO", "/repo"))


def bind():
    """Make ``import ZConfig`` resolve to <repo>/src, compiled from source.

    Nothing is written under the repository: byte code goes nowhere.
    """
    sys.dont_write_bytecode = True
    src = os.path.join(repo_root(), "src")
    if not os.path.isdir(os.path.join(src, "ZConfig")):
        raise SystemExit("INCONCLUSIVE reason=no ZConfig package under %s"
                         % src)
    # drop anything already imported from somewhere else
    for name in list(sys.modules):
        if name == "ZConfig" or name.startswith("ZConfig."):
            mod = sys.modules[name]
            f = getattr(mod, "__file__", "") or ""
            if not f.startswith(src):
                del sys.modules[name]
    if src in sys.path:
        sys.path.remove(src)
    sys.path.insert(0, src)
    if VERIF_ROOT not in sys.path:
        sys.path.insert(1, VERIF_ROOT)
    import ZConfig
    f = os.path.abspath(ZConfig.__file__)
    if not f.startswith(src + os.sep):
        raise SystemExit("INCONCLUSIVE reason=ZConfig imported from %s, "
                         "not from %s" % (f, src))
    return f


def source_hash():
    """sha1 over the non-test sources of the tree under test."""
    h = hashlib.sha1()
    base = os.path.join(repo_root(), "src", "ZConfig")
    n = 0
    for dirpath, dirnames, filenames in os.walk(base):
        dirnames[:] = sorted(d for d in dirnames
                             if d not in ("tests", "__pycache__"))
        for fn in sorted(filenames):
            if fn.endswith((".py", ".xml")):
                p = os.path.join(dirpath, fn)
                h.update(os.path.relpath(p, base).encode())
                with open(p, "rb") as f:
                    h.update(f.read())
                n += 1
    return h.hexdigest(), n
