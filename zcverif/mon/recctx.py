"""Recording context for ZConfigParser (the extension point schemaless uses).

Produces the same event vocabulary as ref.refparse so traces can be compared
element-wise.
"""


class RecSection:
    __slots__ = ("serial", "ctx")

    def __init__(self, serial, ctx):
        self.serial = serial
        self.ctx = ctx

    def addValue(self, key, value, position):
        lineno = position[0] if isinstance(position, tuple) else None
        self.ctx.events.append(("key", self.serial, key, value, lineno))
        if self.ctx.reenter is not None:
            self.ctx.reenter()


class RecordingContext:
    def __init__(self):
        self.events = []
        self.serial = 0
        self.top = RecSection(0, self)
        self.parser = None      # set by the driver so line numbers are known
        # a callable run from inside the callbacks (it parses other texts
        # while this parse is in progress), or None
        self.reenter = None

    def _lineno(self):
        return self.parser.lineno if self.parser is not None else None

    def startSection(self, container, type_, name):
        self.serial += 1
        s = RecSection(self.serial, self)
        self.events.append(("open", s.serial, container.serial, type_,
                            name if name else None, self._lineno()))
        if self.reenter is not None:
            self.reenter()
        return s

    def endSection(self, container, type_, name, newsect):
        self.events.append(("close", newsect.serial, container.serial, type_,
                            name if name else None, self._lineno()))

    def importSchemaComponent(self, pkgname):
        self.events.append(("import", pkgname, self._lineno()))

    def includeConfiguration(self, section, newurl, defines):
        self.events.append(("include", section.serial, newurl,
                            self._lineno()))


class FlatContext(RecordingContext):
    """An application context whose sections are 'transparent': the child
    of a container is the container itself (one recorder for everything)."""

    def startSection(self, container, type_, name):
        self.events.append(("open", 0, 0, type_, name if name else None,
                            self._lineno()))
        return container
