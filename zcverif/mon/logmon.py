"""Logging-state and reopen-registry monitors for C20.

Installed from the harness by wrapping attributes (nothing is edited in the
tree under test):

* ``logging.Logger.addHandler``                      -> ('add', logger, handler)
* ``loghandler.{FileHandler,RotatingFileHandler,TimedRotatingFileHandler}``
  ``.__init__`` / ``.close`` / ``.reopen``          -> ('init'|'close'|'reopen', serial)

The registry is the monitor's *own* list of weak references to every handler
constructed through the component's handler classes; it never looks at
``loghandler._reopenable_handlers`` to decide anything.

``Sandbox`` snapshots and restores the global logging state around one case.
"""

import gc
import logging
import sys
import weakref

FILE_CLASSES = ("FileHandler", "RotatingFileHandler",
                "TimedRotatingFileHandler")


class LogMonitor:

    def __init__(self, loghandler, on_hook=None):
        self.loghandler = loghandler
        self.on_hook = on_hook or (lambda name: None)
        self.events = []
        self.registry = {}          # serial -> weakref
        self.kind = {}              # serial -> class name
        self._by_id = {}            # id(handler) -> serial, live objects only
        self._next = 0
        self._saved = []
        self.gc_inside_reopen = False
        self.installed = False

    # -- registry -----------------------------------------------------------
    def serial_of(self, handler):
        return self._by_id.get(id(handler))

    def _register(self, handler, clsname):
        serial = self._next
        self._next += 1
        hid = id(handler)

        def gone(wr, self=self, hid=hid, serial=serial):
            if self._by_id.get(hid) == serial:
                del self._by_id[hid]

        self.registry[serial] = weakref.ref(handler, gone)
        self.kind[serial] = clsname
        self._by_id[hid] = serial
        return serial

    def alive(self, collect=True):
        """Serials of the registered handlers that still exist."""
        if collect:
            gc.collect()
        return [s for s, wr in sorted(self.registry.items())
                if wr() is not None]

    def get(self, serial):
        return self.registry[serial]()

    def forget_all(self):
        self.registry.clear()
        self.kind.clear()
        self._by_id.clear()
        del self.events[:]

    # -- wrapping -----------------------------------------------------------
    def install(self):
        assert not self.installed
        mon = self

        orig_add = logging.Logger.__dict__["addHandler"]

        def addHandler(self, hdlr):
            mon.on_hook("addHandler")
            mon.events.append(("add", self, hdlr))
            return orig_add(self, hdlr)

        self._patch(logging.Logger, "addHandler", addHandler)

        seen = set()
        for clsname in FILE_CLASSES:
            cls = getattr(self.loghandler, clsname)
            if cls in seen:
                continue
            seen.add(cls)
            self._wrap_class(cls, clsname)
        self.installed = True

    def _wrap_class(self, cls, clsname):
        mon = self
        orig_init = cls.__dict__.get("__init__")
        orig_close = cls.__dict__.get("close")
        orig_reopen = cls.__dict__.get("reopen")

        if orig_init is not None:
            def __init__(self, *a, **kw):
                orig_init(self, *a, **kw)
                if mon.serial_of(self) is None:
                    mon.on_hook("handler_init")
                    mon.events.append(("init", mon._register(self, clsname)))
            self._patch(cls, "__init__", __init__)

        if orig_close is not None:
            def close(self):
                serial = mon.serial_of(self)
                mon.on_hook("handler_close")
                mon.events.append(("close", serial))
                return orig_close(self)
            self._patch(cls, "close", close)

        if orig_reopen is not None:
            def reopen(self):
                serial = mon.serial_of(self)
                mon.on_hook("handler_reopen")
                mon.events.append(("reopen", serial))
                if mon.gc_inside_reopen:
                    # a collection may happen at any point of a program;
                    # make it happen here, deterministically
                    gc.collect()
                return orig_reopen(self)
            self._patch(cls, "reopen", reopen)

    def _patch(self, owner, name, new):
        self._saved.append((owner, name, owner.__dict__[name]))
        new.__name__ = name
        setattr(owner, name, new)

    def uninstall(self):
        while self._saved:
            owner, name, old = self._saved.pop()
            setattr(owner, name, old)
        self.installed = False

    # -- event helpers ------------------------------------------------------
    def clear(self):
        del self.events[:]

    def added(self, logger):
        return [e[2] for e in self.events if e[0] == "add" and e[1] is logger]

    def serials(self, what):
        return [e[1] for e in self.events if e[0] == what]


class Sandbox:
    """Snapshot / restore of the process-wide logging state around a case."""

    def __init__(self, loghandler):
        self.loghandler = loghandler

    def __enter__(self):
        root = logging.getLogger()
        mgr = logging.Logger.manager
        self.root_state = (list(root.handlers), root.level, root.propagate,
                           root.disabled, list(root.filters))
        self.keys = set(mgr.loggerDict)
        self.disable = mgr.disable
        self.reopenable = list(self.loghandler._reopenable_handlers)
        self.std = (sys.stdout, sys.stderr)
        self.raise_exc = logging.raiseExceptions
        return self

    def __exit__(self, *exc):
        sys.stdout, sys.stderr = self.std
        root = logging.getLogger()
        mgr = logging.Logger.manager
        doomed = []
        for key in list(mgr.loggerDict):
            if key in self.keys:
                continue
            obj = mgr.loggerDict.pop(key)
            if isinstance(obj, logging.Logger):
                for h in list(obj.handlers):
                    obj.removeHandler(h)
                    doomed.append(h)
        old_handlers, level, propagate, disabled, filters = self.root_state
        for h in list(root.handlers):
            if not any(h is o for o in old_handlers):
                root.removeHandler(h)
                doomed.append(h)
        root.handlers[:] = old_handlers
        root.setLevel(level)
        root.propagate = propagate
        root.disabled = disabled
        root.filters[:] = filters
        mgr.disable = self.disable
        logging.raiseExceptions = self.raise_exc
        for h in doomed:
            try:
                h.close()
            except Exception:  # noqa - cleanup must go on
                pass
        del doomed[:]
        self.loghandler._reopenable_handlers[:] = self.reopenable
        mgr._clear_cache()
        return False
