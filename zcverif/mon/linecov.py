"""First-hit line coverage of the ZConfig package under the workload
(evidence only): sys.monitoring LINE events, each location disabled after
its first hit, so the cost is negligible."""

import os
import sys


class LineCoverage:
    def __init__(self, package_dir):
        self.pkg = os.path.abspath(package_dir) + os.sep
        self.hits = {}          # relative file -> set(lines)
        self.tool = None

    def start(self):
        mon = getattr(sys, "monitoring", None)
        if mon is None:
            return False
        for tid in (mon.COVERAGE_ID, 4, 3):
            try:
                mon.use_tool_id(tid, "zcverif-linecov")
                self.tool = tid
                break
            except ValueError:
                continue
        if self.tool is None:
            return False
        pkg = self.pkg
        hits = self.hits
        DISABLE = mon.DISABLE

        def on_line(code, line):
            fn = code.co_filename
            if fn.startswith(pkg) and "/tests/" not in fn:
                hits.setdefault(fn[len(pkg):], set()).add(line)
            return DISABLE
        mon.register_callback(self.tool, mon.events.LINE, on_line)
        mon.set_events(self.tool, mon.events.LINE)
        return True

    def stop(self):
        if self.tool is None:
            return
        mon = sys.monitoring
        try:
            mon.set_events(self.tool, 0)
            mon.register_callback(self.tool, mon.events.LINE, None)
            mon.free_tool_id(self.tool)
        except Exception:  # noqa
            pass
        self.tool = None

    def dump(self):
        return {f: sorted(ls) for f, ls in self.hits.items()}


def executable_lines(path):
    """Line numbers that carry code in a source file (from the compiled
    code objects)."""
    try:
        src = open(path).read()
        top = compile(src, path, "exec")
    except Exception:  # noqa
        return set()
    lines = set()
    stack = [top]
    while stack:
        co = stack.pop()
        for _, _, ln in co.co_lines():
            if ln is not None:
                lines.add(ln)
        for c in co.co_consts:
            if hasattr(c, "co_lines"):
                stack.append(c)
    return lines
