"""Canonical outcome of a load (DESIGN.md 3.4) and structural monitors."""

import io


def is_wrapped(v):
    return hasattr(v, "section") and any(
        c.__name__ == "Wrapped" for c in type(v).__mro__)


def canon_value(v, seen_ids=None, containers=None):
    """Canonical form of a value found in a configuration tree (same
    vocabulary as ref.refmatch.canon).  *containers* collects (id, obj) of
    every list/dict reached (aliasing monitor)."""
    if v is None:
        return None
    if isinstance(v, bool):
        return ["bool", v]
    if isinstance(v, int):
        return ["int", v]
    if isinstance(v, float):
        return ["float", repr(v)]
    if isinstance(v, str):
        return ["str", v]
    if isinstance(v, tuple):
        return ["tuple", [canon_value(x, seen_ids, containers) for x in v]]
    if isinstance(v, list):
        if containers is not None:
            containers.append(v)
        return ["list", [canon_value(x, seen_ids, containers) for x in v]]
    if isinstance(v, dict):
        if containers is not None:
            containers.append(v)
        return ["dict", {str(k): canon_value(x, seen_ids, containers)
                         for k, x in v.items()}]
    cls = type(v).__name__
    if is_wrapped(v):
        return ["W", cls, canon_value(v.section, seen_ids, containers)]
    if hasattr(v, "getSectionAttributes"):
        return canon_section(v, seen_ids, containers)
    import functools
    import types
    if isinstance(v, functools.partial):
        return ["partial", getattr(v.func, "__qualname__", repr(v.func)),
                [canon_value(x) for x in v.args],
                {k: canon_value(x) for k, x in v.keywords.items()}]
    if isinstance(v, (types.FunctionType, types.MethodType, type)):
        return ["callable", getattr(v, "__qualname__", cls)]
    if type(v) is object:
        return ["marker"]
    mod = type(v).__module__ or ""
    if mod.startswith("ZConfig.") and hasattr(v, "__dict__"):
        # application objects built by section datatypes of the shipped
        # components (factories): compare their state structurally
        return ["O", cls, {k: canon_value(x, seen_ids, containers)
                           for k, x in sorted(vars(v).items())}]
    return ["obj", cls, repr(v)]


def canon_section(sv, seen_ids=None, containers=None):
    attrs = {}
    for a in sv.getSectionAttributes():
        attrs[a] = canon_value(getattr(sv, a), seen_ids, containers)
    return ["S", sv.getSectionType(), sv.getSectionName(), attrs]


def extra_public_attributes(sv):
    """Public instance attributes a section value carries beyond the ones
    getSectionAttributes() lists (must be empty), recursively."""
    bad = []

    def rec(v, path):
        if isinstance(v, (list, tuple)):
            for i, x in enumerate(v):
                rec(x, path + [i])
        elif isinstance(v, dict):
            for k, x in v.items():
                rec(x, path + [k])
        elif is_wrapped(v):
            rec(v.section, path + ["W"])
        elif hasattr(v, "getSectionAttributes"):
            listed = set(v.getSectionAttributes())
            have = set(k for k in vars(v)
                       if k not in ("_name", "_matcher", "_attributes"))
            if have != listed:
                bad.append((path, sorted(have ^ listed)))
            for a in listed:
                rec(getattr(v, a, None), path + [a])
    rec(sv, [])
    return bad


def classify_exception(e):
    """(family, type name, lineno, url)"""
    import ZConfig
    fam = "config" if isinstance(e, ZConfig.ConfigurationError) else \
        "internal"
    return (fam, type(e).__name__, getattr(e, "lineno", None),
            getattr(e, "url", None))


OVERRIDE_KINDS = ["list", "list", "tuple", "iterator", "generator"]
_OV_N = [0]


def as_override_container(specs):
    """The override list as a list, a tuple, an iterator or a generator:
    'overrides' is an iterable of specifier strings."""
    _OV_N[0] += 1
    kind = OVERRIDE_KINDS[_OV_N[0] % len(OVERRIDE_KINDS)]
    specs = list(specs)
    if kind == "tuple":
        return tuple(specs)
    if kind == "iterator":
        return iter(specs)
    if kind == "generator":
        return (s for s in specs)
    return specs


def load_text(schema, text, overrides=(), url=None, want_objects=False):
    """Load *text* with ZConfig.loadConfigFile.

    -> ('ok', tree, handler_entries, (config, handler, containers))
     | ('reject', family, type name, lineno, url, message)
    """
    import ZConfig
    import zcverif_dt.fam as _fam
    overrides = list(overrides)
    _fam.CURRENT[0] = ("text", schema, text, overrides)
    try:
        if overrides:
            r = ZConfig.loadConfigFile(
                schema, io.StringIO(text), url,
                overrides=as_override_container(overrides))
        else:
            r = ZConfig.loadConfigFile(schema, io.StringIO(text), url)
    except Exception as e:  # noqa
        fam, tn, lineno, eurl = classify_exception(e)
        _fam.same_load_mismatch(False)
        return ("reject", fam, tn, lineno, eurl, str(e)[:200], e)
    finally:
        _fam.CURRENT[0] = None
    config, handler = r
    containers = []
    tree = canon_value(config, None, containers)
    entries = [[h, canon_value(v)] for h, v in handler._handlers]
    return _same_load_check(("ok", tree, entries,
                             (config, handler, containers)))


def _finish(fn):
    try:
        r = fn()
    except Exception as e:  # noqa
        fam, tn, lineno, eurl = classify_exception(e)
        return ("reject", fam, tn, lineno, eurl, str(e)[:200], e)
    config, handler = r
    containers = []
    tree = canon_value(config, None, containers)
    entries = [[h, canon_value(v)] for h, v in handler._handlers]
    return ("ok", tree, entries, (config, handler, containers))


class NestedLoadDiffers(Exception):
    pass


def _same_load_check(result):
    """Turn an outer success into an internal failure when a nested run of
    the same load (see zcverif_dt/fam.py) was rejected."""
    import zcverif_dt.fam as _fam
    msg = _fam.same_load_mismatch(result[0] == "ok")
    if msg is None:
        return result
    return ("reject", "internal", "NestedLoadDiffers", None, None, msg,
            NestedLoadDiffers(msg))


def write_text(path, text, pad=0):
    """Write *text* as UTF-8 with '\n' line ends kept as they are; with
    *pad*, comment and blank lines are put in front until the text starts
    beyond that many bytes."""
    with open(path, "w", encoding="utf-8", newline="\n") as f:
        n = 0
        i = 0
        while n < pad:
            i += 1
            # (two-byte characters at ever changing offsets: some of them
            # straddle every power-of-two byte offset)
            line = "# padding line %d %s\n" % (i, "\u00e9" * (i % 61)) \
                if i % 7 else "\n"
            f.write(line)
            n += len(line)
        f.write(text)
    return path


def pad_file(path, nbytes, xml=False):
    """Put comment lines full of two-byte characters in front of what the
    file holds, so that it extends beyond *nbytes* bytes and some character
    straddles every block boundary a reader might use."""
    with open(path, "rb") as f:
        data = f.read()
    if xml and data.lstrip().startswith(b"<?xml"):
        return False
    out = []
    n = i = 0
    while n < nbytes:
        i += 1
        body = "padding %d %s" % (i, "\u00e9" * (20 + i % 61))
        line = ("<!-- %s -->\n" if xml else "# %s\n") % body
        out.append(line)
        n += len(line.encode("utf-8"))
    with open(path, "wb") as f:
        f.write("".join(out).encode("utf-8") + data)
    return True


def load_path(schema, path, overrides=()):
    """Load the file at *path* (or URL) with ZConfig.loadConfig."""
    import ZConfig
    import zcverif_dt.fam as _fam
    _fam.CURRENT[0] = ("path", schema, path, overrides)
    try:
        if overrides:
            return _same_load_check(_finish(lambda: ZConfig.loadConfig(
                schema, path, overrides=overrides)))
        return _same_load_check(_finish(
            lambda: ZConfig.loadConfig(schema, path)))
    finally:
        _fam.CURRENT[0] = None


def load_open_file(schema, path, overrides=(), url=None, bytes_name=False):
    """Load through ZConfig.loadConfigFile on a real open file (with
    *bytes_name*, one that was opened by a bytes path: its name is bytes)."""
    import os
    import ZConfig

    def go():
        with open(os.fsencode(path) if bytes_name else path,
                  encoding="utf-8", newline="\n") as f:
            if overrides:
                return ZConfig.loadConfigFile(schema, f, url,
                                              overrides=overrides)
            return ZConfig.loadConfigFile(schema, f, url)
    return _finish(go)


def outcome_key(o):
    """What metamorphic checks compare: the tree, or the fact of rejection
    by a configuration error."""
    if o[0] == "ok":
        return ("ok", o[1])
    return ("reject", o[1])


def odd_mappings(config):
    """Mappings of a result that do not behave like a plain mapping when
    an absent key is looked up: m[absent] must raise KeyError and leave
    the mapping as it was.  -> list of descriptions (empty = fine)."""
    bad = []
    seen = set()
    probe = "zcv-absent-key"

    def rec(v, path):
        if id(v) in seen:
            return
        seen.add(id(v))
        if isinstance(v, list):
            for i, x in enumerate(v):
                rec(x, path + "[%d]" % i)
        elif isinstance(v, dict):
            n = len(v)
            try:
                v[probe]
                bad.append("%s: m[absent] returned a value" % path)
            except KeyError:
                pass
            except Exception as e:  # noqa
                bad.append("%s: m[absent] raised %s" % (path,
                                                        type(e).__name__))
            if len(v) != n or probe in v:
                bad.append("%s: looking up an absent key changed the "
                           "mapping" % path)
                v.pop(probe, None)
            for k, x in list(v.items()):
                rec(x, path + "[%r]" % (k,))
        elif is_wrapped(v):
            rec(v.section, path + ".section")
        elif hasattr(v, "getSectionAttributes"):
            for a in v.getSectionAttributes():
                rec(getattr(v, a, None), path + "." + a)
    rec(config, "config")
    return bad


def poison(config):
    """Poison every list/dict reachable through getSectionAttributes()."""
    n = [0]
    seen = set()

    def rec(v):
        if id(v) in seen:
            return
        seen.add(id(v))
        if isinstance(v, list):
            for x in list(v):
                rec(x)
            n[0] += 1
            if n[0] % 3 == 0:
                del v[:]
            else:
                v.append("POISON")
        elif isinstance(v, dict):
            for x in list(v.values()):
                rec(x)
            n[0] += 1
            if n[0] % 3 == 0:
                v.clear()
            else:
                v["poison"] = ["POISON"]
        elif is_wrapped(v):
            rec(v.section)
        elif hasattr(v, "getSectionAttributes"):
            for a in v.getSectionAttributes():
                rec(getattr(v, a, None))
    rec(config)
    return n[0]
