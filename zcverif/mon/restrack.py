"""Resource tracker: which resources a ZConfig load opened, and whether each
was closed (C19; also usable by C06 / C18).

Wrap points (all restored by ``Tracker.uninstall`` / leaving the ``with``):

* ``ZConfig.loader.BaseLoader.createResource`` -- the documented override
  point.  ZConfig calls it as ``self.createResource(...)``, so the *class
  attribute* is replaced.  The file handed to the real method is a
  ``FileProxy`` that counts ``read``/``readline`` calls and can make the i-th
  of them raise.
* ``urllib.request.urlopen`` -- ``ZConfig.loader`` calls
  ``urllib.request.urlopen(url)`` through the module attribute, so the
  attribute of ``urllib.request`` (as reachable from ``ZConfig.loader``) is
  replaced.  The returned stream is wrapped in a ``StreamProxy``.
* ``ZConfig.loader.openPackageResource`` -- a module global of that module.

``Tracker.begin(fault)`` starts a fresh trace for one call; ``fault`` is one
of ``None``, ``("open-url", j)``, ``("open-pkg", j)`` (the j-th call raises
``OSError`` instead of opening), ``("uread", j)`` (reading the j-th URL stream
raises), ``("read", j, i)`` (the i-th ``read``/``readline`` on the file of the
j-th created resource raises).  All indices start at 0.
"""

INJECTED_MESSAGE = "zcverif: injected I/O failure"


def is_closed(obj):
    """Best-effort 'this stream is closed' for files, StringIO, addinfourl."""
    if obj is None:
        return True
    try:
        c = obj.closed
    except Exception:          # noqa  (ValueError on exotic objects)
        c = None
    if isinstance(c, bool):
        return c
    fp = getattr(obj, "fp", None)
    if fp is not None and fp is not obj:
        return is_closed(fp)
    return False


class ResourceRec:
    """One object returned by createResource."""

    __slots__ = ("index", "url", "real", "proxy", "resource", "reads",
                 "close_calls", "fail_read", "origin", "streams_open_before")

    def __init__(self, index, url, real, origin):
        self.index = index
        self.url = url
        self.real = real            # the stream ZConfig handed over
        self.proxy = None
        self.resource = None        # what createResource returned
        self.reads = 0
        self.close_calls = 0
        self.fail_read = None
        self.origin = origin        # 'url' | 'package' | 'file'
        self.streams_open_before = []

    def state(self):
        r = self.resource
        return {
            "index": self.index, "url": self.url, "origin": self.origin,
            "resource_closed_flag": bool(getattr(r, "closed", None)),
            "resource_file_is_none": getattr(r, "file", None) is None,
            "stream_closed": is_closed(self.real),
            "reads": self.reads,
        }

    def leaks(self):
        """List of reasons why this resource does not count as closed."""
        s = self.state()
        why = []
        if not s["resource_closed_flag"]:
            why.append("resource.closed is not true")
        if not s["resource_file_is_none"]:
            why.append("resource.file is not None")
        if not s["stream_closed"]:
            why.append("underlying stream still open")
        return why


class StreamRec:
    """One stream returned by urllib.request.urlopen."""

    __slots__ = ("index", "url", "real", "reads", "close_calls", "fail_read")

    def __init__(self, index, url, real):
        self.index = index
        self.url = url
        self.real = real
        self.reads = 0
        self.close_calls = 0
        self.fail_read = False

    def closed(self):
        return is_closed(self.real)


class FileProxy:
    """Stands in for the stream inside a Resource."""

    def __init__(self, real, rec):
        self.__dict__["_real"] = real
        self.__dict__["_rec"] = rec

    def _tick(self):
        rec = self._rec
        rec.reads += 1
        if rec.fail_read is not None and rec.reads - 1 == rec.fail_read:
            raise OSError(5, INJECTED_MESSAGE)

    def read(self, *a):
        self._tick()
        return self._real.read(*a)

    def readline(self, *a):
        self._tick()
        return self._real.readline(*a)

    def close(self):
        self._rec.close_calls += 1
        return self._real.close()

    def __iter__(self):
        return self

    def __next__(self):
        line = self.readline()
        if not line:
            raise StopIteration
        return line

    def __bool__(self):
        # as true or false as the object it stands for
        return bool(self._real)

    def __getattr__(self, name):
        return getattr(self._real, name)

    def __setattr__(self, name, value):
        setattr(self._real, name, value)


class StreamProxy:
    """Stands in for the object urlopen returned."""

    def __init__(self, real, rec):
        self.__dict__["_real"] = real
        self.__dict__["_rec"] = rec

    def read(self, *a):
        rec = self._rec
        rec.reads += 1
        if rec.fail_read:
            raise OSError(5, INJECTED_MESSAGE)
        return self._real.read(*a)

    def close(self):
        self._rec.close_calls += 1
        return self._real.close()

    def __getattr__(self, name):
        return getattr(self._real, name)


class Tracker:

    def __init__(self, on_event=None):
        self.installed = False
        self.on_event = on_event      # callable(name) -> None, counts hooks
        self._saved = None
        self.begin(None)

    # -- per-call trace ----------------------------------------------------
    def begin(self, fault=None):
        self.fault = fault
        self.events = []              # ('urlopen', j) ('create', j) ...
        self.resources = []
        self.streams = []
        self.pkg_opens = []           # (package, path, stream | None)
        self.url_calls = 0
        self.pkg_calls = 0
        self.injected = None          # what the fault did, once it fired
        self._pending_origin = None
        self.active = True

    def end(self):
        self.active = False

    def _event(self, name):
        if self.on_event is not None:
            self.on_event(name)

    # -- wrappers ----------------------------------------------------------
    def install(self):
        if self.installed:
            return self
        import ZConfig.loader as L
        req = L.urllib.request
        tracker = self
        orig_create = L.BaseLoader.__dict__["createResource"]
        orig_urlopen = req.urlopen
        orig_pkg = L.openPackageResource
        self._saved = (L, req, orig_create, orig_urlopen, orig_pkg)

        def createResource(self, file, url):
            if not tracker.active:
                return orig_create(self, file, url)
            tracker._event("createResource")
            j = len(tracker.resources)
            origin = tracker._pending_origin or "file"
            tracker._pending_origin = None
            rec = ResourceRec(j, None if url is None else str(url), file,
                              origin)
            # "as soon as its content has been read": by now every URL
            # stream handed out so far must be closed
            rec.streams_open_before = [s.index for s in tracker.streams
                                       if not s.closed()]
            if tracker.fault and tracker.fault[0] == "read" \
                    and tracker.fault[1] == j:
                rec.fail_read = tracker.fault[2]
            proxy = FileProxy(file, rec)
            rec.proxy = proxy
            res = orig_create(self, proxy, url)
            rec.resource = res
            tracker.resources.append(rec)
            tracker.events.append(("create", j, origin))
            return res

        def urlopen(url, *a, **kw):
            if not tracker.active:
                return orig_urlopen(url, *a, **kw)
            tracker._event("urlopen")
            j = tracker.url_calls
            tracker.url_calls += 1
            if tracker.fault == ("open-url", j):
                tracker.injected = ("open-url", j, str(url))
                raise OSError(5, INJECTED_MESSAGE)
            real = orig_urlopen(url, *a, **kw)
            rec = StreamRec(len(tracker.streams), str(url), real)
            if tracker.fault == ("uread", rec.index):
                rec.fail_read = True
            tracker.streams.append(rec)
            tracker.events.append(("urlopen", rec.index))
            tracker._pending_origin = "url"
            return StreamProxy(real, rec)

        def openPackageResource(package, path):
            if not tracker.active:
                return orig_pkg(package, path)
            tracker._event("openPackageResource")
            j = tracker.pkg_calls
            tracker.pkg_calls += 1
            if tracker.fault == ("open-pkg", j):
                tracker.injected = ("open-pkg", j, "%s:%s" % (package, path))
                raise OSError(5, INJECTED_MESSAGE)
            stream = orig_pkg(package, path)
            tracker.pkg_opens.append((package, path, stream))
            tracker.events.append(("pkgopen", j))
            tracker._pending_origin = "package"
            return stream

        createResource.__wrapped__ = orig_create
        L.BaseLoader.createResource = createResource
        req.urlopen = urlopen
        L.openPackageResource = openPackageResource
        self._wrappers = (createResource, urlopen, openPackageResource)
        self.installed = True
        return self

    def uninstall(self):
        if not self.installed:
            return
        L, req, orig_create, orig_urlopen, orig_pkg = self._saved
        L.BaseLoader.createResource = orig_create
        req.urlopen = orig_urlopen
        L.openPackageResource = orig_pkg
        self._saved = None
        self.installed = False

    def __enter__(self):
        return self.install()

    def __exit__(self, *exc):
        self.uninstall()
        return False

    # -- verdict on one finished call ---------------------------------------
    def shape(self):
        """What the call opened, in order (used to enumerate fault points)."""
        return {
            "resources": [(r.url, r.origin, r.reads) for r in self.resources],
            "url_opens": self.url_calls,
            "pkg_opens": self.pkg_calls,
            "streams": len(self.streams),
        }

    def problems(self):
        """Everything that refutes 'every opened resource is closed'."""
        out = []
        for r in self.resources:
            why = r.leaks()
            if why:
                out.append({"what": "resource-not-closed", "index": r.index,
                            "url": r.url, "origin": r.origin, "why": why})
            if r.streams_open_before:
                out.append({"what": "url-stream-open-at-next-resource",
                            "index": r.index, "url": r.url,
                            "open_streams": list(r.streams_open_before)})
        for s in self.streams:
            if not s.closed():
                out.append({"what": "url-stream-not-closed",
                            "index": s.index, "url": s.url})
        return out
