"""Line failpoints through ``sys.monitoring`` (DESIGN.md Appendix E).

A *failpoint* is a ``LINE`` event of a code object whose source file lies
under the package directory of the tree under test.  A ``Session`` owns one
free ``sys.monitoring`` tool id (always freed again); with it a scenario is
first run in *counting* mode, which enumerates its failpoints, and then once
per ``n`` in *armed* mode, where the n-th failpoint raises an injected
exception inside the monitored frame, exactly as if the statement on that line
had raised it.

Not armed (Appendix E): a fault there is a fault in the closing code itself --

* whole code objects named in ``excluded_code`` (default ``Resource.__enter__``
  ``Resource.__exit__`` ``Resource.close`` of ``loader.py``);
* the header lines of every ``with`` statement (they are re-visited when the
  block is left, which is where ``__exit__`` is called);
* the ``finally:`` suites of the functions named in ``excluded_finally``
  (default: ``BaseLoader.openResource`` of ``loader.py``), together with the
  ``try:`` keyword line of the same statement.  That line carries a NOP whose
  LINE event fires *before* the protected region is entered; no statement
  executes there, so no real exception can originate there, but an injected
  one would by construction bypass the ``finally`` (same situation as a
  ``with`` header).

The two line lists are computed from the AST of the source file the code
object was compiled from, so they follow edits of the tree under test.
Events of files outside the package return ``sys.monitoring.DISABLE`` and cost
nothing afterwards.
"""

import ast
import os
import sys


class InjectedFault(Exception):
    """Stands for any ordinary error raised by the statement on a line."""


class InjectedAbort(BaseException):
    """Stands for KeyboardInterrupt / SystemExit arriving on a line."""


EXC_CLASSES = {"fault": InjectedFault, "abort": InjectedAbort}

DEFAULT_EXCLUDED_CODE = (("loader.py", "Resource.__enter__"),
                         ("loader.py", "Resource.__exit__"),
                         ("loader.py", "Resource.close"))
DEFAULT_EXCLUDED_FINALLY = (("loader.py", "BaseLoader", "openResource"),)


def available():
    return hasattr(sys, "monitoring")


def with_header_lines(tree):
    """Lines occupied by the headers of ``with`` statements."""
    lines = set()
    for node in ast.walk(tree):
        if isinstance(node, (ast.With, ast.AsyncWith)):
            last = node.lineno
            for item in node.items:
                last = max(last, item.context_expr.end_lineno or last)
                if item.optional_vars is not None:
                    last = max(last, item.optional_vars.end_lineno or last)
            lines.update(range(node.lineno, last + 1))
    return lines


def finally_lines(tree, clsname, funcname):
    """Lines of every ``finally:`` suite inside ``clsname.funcname`` and the
    ``try:`` keyword line of the statement it belongs to."""
    lines = set()
    for cls in ast.walk(tree):
        if not (isinstance(cls, ast.ClassDef) and cls.name == clsname):
            continue
        for fn in cls.body:
            if not (isinstance(fn, (ast.FunctionDef, ast.AsyncFunctionDef))
                    and fn.name == funcname):
                continue
            for node in ast.walk(fn):
                if isinstance(node, ast.Try) and node.finalbody:
                    first = node.finalbody[0].lineno
                    last = max(s.end_lineno or s.lineno
                               for s in node.finalbody)
                    lines.update(range(first, last + 1))
                    lines.add(node.lineno)
    return lines


class Domain:
    """Decides, per code object, whether its LINE events are failpoints."""

    def __init__(self, pkgdir, excluded_code=DEFAULT_EXCLUDED_CODE,
                 excluded_finally=DEFAULT_EXCLUDED_FINALLY,
                 exclude_with_lines=True):
        self.pkgdir = os.path.realpath(pkgdir)
        self.prefix = self.pkgdir + os.sep
        self.excluded_code = set(excluded_code)
        self.excluded_finally = tuple(excluded_finally)
        self.exclude_with_lines = exclude_with_lines
        self._files = {}      # filename -> frozenset(excluded lines) | None
        self._codes = {}      # code -> frozenset(excluded lines) | None
        self.excluded_lines_by_file = {}

    def _file_info(self, filename):
        try:
            return self._files[filename]
        except KeyError:
            pass
        real = os.path.realpath(filename)
        info = None
        if real.startswith(self.prefix) and real.endswith(".py"):
            rel = os.path.relpath(real, self.pkgdir)
            lines = set()
            try:
                with open(real, "rb") as f:
                    tree = ast.parse(f.read(), real)
            except (OSError, SyntaxError, ValueError):
                tree = None
            if tree is not None:
                if self.exclude_with_lines:
                    lines |= with_header_lines(tree)
                for frel, clsname, funcname in self.excluded_finally:
                    if frel == rel:
                        lines |= finally_lines(tree, clsname, funcname)
            info = (rel, frozenset(lines))
            self.excluded_lines_by_file[rel] = sorted(lines)
        self._files[filename] = info
        return info

    def classify(self, code):
        """None: never a failpoint; else the set of excluded lines."""
        try:
            return self._codes[code]
        except KeyError:
            pass
        info = self._file_info(code.co_filename)
        result = None
        if info is not None:
            rel, lines = info
            if (rel, code.co_qualname) not in self.excluded_code:
                result = lines
        self._codes[code] = result
        return result


class Shot:
    """State of one monitored call."""

    __slots__ = ("target", "exc_class", "count", "fired", "trace",
                 "code", "line")

    def __init__(self, target, exc_class, trace, code=None, line=None):
        self.target = target          # 0 = counting only
        self.exc_class = exc_class
        self.count = 0                # events seen (global mode) or visits
        #                               of the target location (local mode)
        self.fired = None             # (relative file, qualname, line)
        self.trace = [] if trace else None    # [(code, line), ...]
        self.code = code              # local mode: the only code object
        self.line = line              # whose LINE events are switched on


class _Armed:
    def __init__(self, session, shot):
        self.session = session
        self.shot = shot

    def __enter__(self):
        self.session._activate(self.shot)
        return self.shot

    def __exit__(self, *exc):
        self.session._deactivate()
        return False


class Session:
    """Owns a tool id for a series of counting / armed calls.

    >>> with Session(pkgdir) as fp:
    ...     with fp.counting(trace=True) as shot: call()   # shot.count events
    ...     with fp.armed(17, InjectedFault) as shot: call()   # raises at #17
    ...     code, line = trace[16]; k = visits of (code, line) in trace[:17]
    ...     with fp.armed_at(code, line, k, InjectedFault) as shot: call()

    ``armed`` counts every failpoint of the call in a Python callback (about
    6x slowdown of the monitored code).  ``armed_at`` realises the same
    failpoint -- "the n-th LINE event" = "the k-th visit of location L", L and
    k read off the counting pass's trace -- by switching LINE events on for
    the one code object that contains L only, so the rest of the call runs at
    full speed.  Both raise inside the monitored frame.
    """

    PREFERRED_IDS = (4, 3, 2, 1, 0, 5)

    def __init__(self, pkgdir, **domain_args):
        self.domain = Domain(pkgdir, **domain_args)
        self.tool = None
        self._shot = None

    # -- tool id ---------------------------------------------------------
    def __enter__(self):
        mon = sys.monitoring
        for tid in self.PREFERRED_IDS:
            if mon.get_tool(tid) is None:
                try:
                    mon.use_tool_id(tid, "zcverif-failpoints")
                except ValueError:
                    continue
                self.tool = tid
                break
        else:
            raise RuntimeError("no free sys.monitoring tool id")
        try:
            mon.register_callback(self.tool, mon.events.LINE, self._on_line)
            mon.restart_events()
        except BaseException:
            self._release()
            raise
        return self

    def __exit__(self, *exc):
        self._release()
        return False

    def _release(self):
        mon = sys.monitoring
        tid, self.tool = self.tool, None
        shot, self._shot = self._shot, None
        if tid is None:
            return
        try:
            if shot is not None and shot.code is not None:
                mon.set_local_events(tid, shot.code, 0)
            mon.set_events(tid, 0)
            mon.register_callback(tid, mon.events.LINE, None)
        finally:
            mon.free_tool_id(tid)

    # -- monitored calls ---------------------------------------------------
    def counting(self, trace=False):
        return _Armed(self, Shot(0, None, trace))

    def armed(self, n, exc_class, trace=False):
        if n < 1:
            raise ValueError("failpoints are numbered from 1")
        return _Armed(self, Shot(n, exc_class, trace))

    def armed_at(self, code, line, k, exc_class):
        """Raise at the k-th visit (k >= 1) of *line* of *code*."""
        if k < 1:
            raise ValueError("visits are numbered from 1")
        if self.excluded(code, line):
            raise ValueError("%s:%d is outside the failpoint domain"
                             % (code.co_qualname, line))
        return _Armed(self, Shot(k, exc_class, False, code, line))

    def excluded(self, code, line):
        ex = self.domain.classify(code)
        return ex is None or line in ex

    def describe(self, code, line):
        info = self.domain._file_info(code.co_filename)
        return (info[0] if info else code.co_filename, code.co_qualname,
                line)

    def _activate(self, shot):
        if self.tool is None:
            raise RuntimeError("failpoint session is not open")
        if self._shot is not None:
            raise RuntimeError("failpoint calls do not nest")
        self._shot = shot
        mon = sys.monitoring
        if shot.code is None:
            mon.set_events(self.tool, mon.events.LINE)
        else:
            mon.set_local_events(self.tool, shot.code, mon.events.LINE)

    def _deactivate(self):
        shot, self._shot = self._shot, None
        if self.tool is not None and shot is not None:
            if shot.code is None:
                sys.monitoring.set_events(self.tool, 0)
            else:
                sys.monitoring.set_local_events(self.tool, shot.code, 0)

    def _on_line(self, code, line):
        shot = self._shot
        if shot is not None and shot.code is not None:
            # local mode: only visits of the target location count
            if code is shot.code and line == shot.line:
                shot.count += 1
                if shot.count == shot.target:
                    self._fire(shot, code, line)
            return None
        excluded = self.domain._codes.get(code, 0)
        if excluded == 0:
            excluded = self.domain.classify(code)
        if excluded is None or line in excluded:
            return sys.monitoring.DISABLE
        if shot is None:
            return None
        shot.count += 1
        if shot.trace is not None:
            shot.trace.append((code, line))
        if shot.count == shot.target:
            self._fire(shot, code, line)
        return None

    def _fire(self, shot, code, line):
        shot.fired = self.describe(code, line)
        raise shot.exc_class("injected at %s:%d (%s), visit/event %d"
                             % (shot.fired[0], line, code.co_qualname,
                                shot.count))
