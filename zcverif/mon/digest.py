"""Structural digest of a schema object (DESIGN.md Appendix D)."""


def _dtname(registry, conv):
    if conv is None:
        return None
    try:
        return registry.find_name(conv)
    except Exception:  # noqa
        return repr(type(conv))


def _default_texts(info):
    d = getattr(info, "_default", None)
    raw = getattr(info, "_rawdefaults", None)

    def one(x):
        if x is None:
            return None
        if hasattr(x, "value"):
            pos = x.position
            return [x.value, list(pos[:2]) if pos else None]
        if isinstance(x, list):
            return [one(y) for y in x]
        if isinstance(x, dict):
            return {str(k): one(v) for k, v in x.items()}
        return repr(x)
    return [one(d), one(raw)]


def _children(t, registry):
    out = []
    for key, info in t:
        rec = {"key": key, "attribute": info.attribute,
               "class": type(info).__name__, "min": info.minOccurs,
               "max": repr(info.maxOccurs), "handler": info.handler,
               "name": info.name}
        if info.issection():
            rec["sectiontype"] = info.sectiontype.name
        else:
            rec["datatype"] = _dtname(registry, info.datatype)
            rec["defaults"] = _default_texts(info)
        out.append(rec)
    return out


PROBE_KEYS = ["wild", "Wild", "w-2", "w_2", "zed", "192.168.0.1", "alpha",
              "beta", "nosuchkey", "marker", "items", "k1", "main"]


def _getinfo_probe(t):
    """What the type's public getinfo() answers for a fixed vocabulary of
    key names (declared names, names texts use for wildcard keys, unknown
    names): part of the schema's description."""
    out = {}
    for k in PROBE_KEYS:
        try:
            info = t.getinfo(k)
            out[k] = [type(info).__name__, info.attribute]
        except Exception as e:  # noqa
            out[k] = type(e).__name__
    return out


def digest(schema):
    reg = schema.registry
    d = {"types": {}, "url": schema.url,
         "components": list(getattr(schema, "_components", {}).keys()),
         "top": {"getinfo": _getinfo_probe(schema),
                 "keytype": _dtname(reg, schema.keytype),
                 "datatype": _dtname(reg, schema.datatype),
                 "handler": schema.handler,
                 "children": _children(schema, reg)}}
    for name in sorted(schema.gettypenames()):
        t = schema.gettype(name)
        if t.isabstract():
            d["types"][name] = {
                "kind": "abstract",
                "implementers": t.getsubtypenames(),
                "implementer_identity": {n: st.name for n, st in t}}
        else:
            d["types"][name] = {
                "getinfo": _getinfo_probe(t),
                "kind": "section", "keytype": _dtname(reg, t.keytype),
                "datatype": _dtname(reg, t.datatype),
                "valuetype": _dtname(reg, t.valuetype),
                "handler": t.handler, "children": _children(t, reg)}
    return d


def diff(a, b, path=""):
    """List of (path, before, after) where two digests differ."""
    out = []
    if type(a) != type(b):
        return [(path, a, b)]
    if isinstance(a, dict):
        for k in sorted(set(a) | set(b), key=str):
            if k not in a:
                out.append(("%s/%s" % (path, k), None, b[k]))
            elif k not in b:
                out.append(("%s/%s" % (path, k), a[k], None))
            else:
                out.extend(diff(a[k], b[k], "%s/%s" % (path, k)))
        return out
    if isinstance(a, list):
        if len(a) != len(b):
            return [(path, a, b)]
        for i, (x, y) in enumerate(zip(a, b)):
            out.extend(diff(x, y, "%s/%d" % (path, i)))
        return out
    if a != b:
        return [(path, a, b)]
    return out
