#!/bin/bash
# usage: tools/seedsum.sh N [Cxx ...] - run seedn.sh and print one line per change
n=$1; shift
props=${@:-$(cat tools/ready.txt)}
tools/seedn.sh $n $props 2>&1 | grep -E "^\{|^C[0-9]+ exit" | paste - - | sed 's/"stock_tests": "[^"]*", //; s/"demo_clean_exit": 0, "demo_changed_exit": 1, //' | cut -c1-150
