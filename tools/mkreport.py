"""Regenerate the generated blocks of DESIGN.md (between the markers
<!-- BEGIN name --> and <!-- END name -->) from evidence/, seeded/ and
selftest/RESULTS.md."""
import glob
import json
import os
import re

ROOT = os.path.dirname(os.path.dirname(os.path.abspath(__file__)))


def evidence_table():
    rows = ["| id | tier | evaluations | distinct signatures | wall s | "
            "verdict | key counters |", "|---|---|---|---|---|---|---|"]
    for f in sorted(glob.glob(os.path.join(ROOT, "evidence", "C*.json"))):
        e = json.load(open(f))
        c = e["coverage"]
        cnt = c.get("counters", {})
        keys = [k for k in cnt if ":" not in k][:6]
        rows.append("| %s | %s | %d | %d | %s | %s | %s |" % (
            e["property_id"], e["tier"], c["evaluations"],
            c["distinct_nontrivial"], e["wall_s"], c.get("verdict"),
            ", ".join("%s=%s" % (k, cnt[k]) for k in keys)))
    return "\n".join(rows)


def seeded_table():
    rows = ["| change | written against | what it needs to manifest "
            "(sub-agent's words, abridged) | confirmed | caught by its "
            "property's quick check |", "|---|---|---|---|---|"]
    matrix = {}
    mp = os.path.join(ROOT, "seeded", "matrix.json")
    if os.path.exists(mp):
        matrix = json.load(open(mp))
    for f in sorted(glob.glob(os.path.join(ROOT, "seeded", "*",
                                           "meta.json"))):
        m = json.load(open(f))
        name = os.path.basename(os.path.dirname(f))
        need = (m.get("needs_to_manifest") or "").replace("\n", " ")
        need = re.sub(r"\s+", " ", need)
        mm = re.search(r"(?i)(needs?[^.]*\.|to manifest[^.]*\.|trigger"
                       r"[^.]*\.)", need)
        short = (mm.group(0) if mm else need[:160]).replace("|", "/")[:220]
        others = ""
        if name in matrix and "error" not in matrix[name]:
            o = [p for p, rc in sorted(matrix[name].items())
                 if rc == 1 and p != m["property"]]
            if o:
                others = " (also: %s)" % ", ".join(o)
        caught = "yes" if m["property"] in (m.get("caught_by") or []) \
            else "**no**"
        if m.get("obsolete_after_fix"):
            caught += " (obsolete: the behaviour it relied on was a defect, " \
                "since repaired - see meta.json)"
        rows.append("| %s | %s | %s | %s | %s%s |" % (
            name, m["property"], short, "yes" if m.get("confirmed") else
            "no", caught, others))
    return "\n".join(rows)


def main():
    p = os.path.join(ROOT, "DESIGN.md")
    s = open(p).read()
    for name, fn in (("evidence-table", evidence_table),
                     ("seeded-table", seeded_table)):
        a, b = "<!-- BEGIN %s -->" % name, "<!-- END %s -->" % name
        if a in s and b in s:
            s = s[:s.index(a) + len(a)] + "\n" + fn() + "\n" + s[s.index(b):]
    open(p, "w").write(s)


if __name__ == "__main__":
    main()
