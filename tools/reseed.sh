#!/bin/bash
# usage: tools/reseed.sh C01-r2m3 [...] : re-run seedtest from the stored seeded/<name> (patch+demo)
for n in "$@"; do
  p=${n%%-*}
  d=$(mktemp -d); cp seeded/$n/patch.diff seeded/$n/demo.py $d/; [ -f seeded/$n/README.md ] && cp seeded/$n/README.md $d/
  python3 - "$n" "$d" <<'PY'
import json,sys,os
n,d=sys.argv[1:]
m=json.load(open('/verif/seeded/%s/meta.json'%n))
if m.get('needs_to_manifest'):
    open(os.path.join(d,'README.md'),'w').write(m['needs_to_manifest'])
PY
  python3 tools/seedtest.py $p $d --name $n 2>&1 | grep -E "^\{|exit|kind" | cut -c1-220 | sed 's/"stock_tests": "[^"]*", //'
  rm -rf $d
done
