"""Regenerate /verif/MANIFEST.json from the check modules that exist."""
import importlib
import json
import os
import sys

ROOT = os.path.dirname(os.path.dirname(os.path.abspath(__file__)))
sys.path.insert(0, ROOT)
PY = "/venv/bin/python"

ENGINES = [
    ("lang", ["C03", "C04", "C05", "C17"], "reference line grammar / substitution / define-namespace models vs parser traces"),
    ("conform", ["C01", "C02", "C08", "C10", "C16"], "generated schema family + reference conformance/evaluation model vs loadConfigFile / loadSchemaFile"),
    ("meta", ["C06", "C11", "C14", "C15", "C18"], "metamorphic comparators: transformed input must give the same outcome"),
    ("hist", ["C12", "C13", "C19"], "history / state monitors: schema digest, implementer tables, resource tracker, failpoints"),
    ("dt", ["C09"], "reference datatype conversions and DFAs vs the stock registry"),
    ("robust", ["C07"], "exception-family monitor at the loading entry points under mutation fuzzing"),
    ("logger", ["C20"], "logging-state and reopen-registry monitors on the logger component"),
]

READY = open(os.path.join(ROOT, "tools", "ready.txt")).read().split()
props = [json.loads(l) for l in open(os.path.join(ROOT, "properties.jsonl"))]
checks = []
na = []
for p in props:
    pid = p["id"]
    path = os.path.join(ROOT, "zcverif", "checks", pid.lower() + ".py")
    if not os.path.exists(path) or pid not in READY:
        na.append({"property_id": pid, "reason": "check not built yet in this session (planned in DESIGN.md section 4; runtime monitoring is applicable)"})
        continue
    src = open(path).read()
    meta = {}
    # metadata lives in module-level constants; import lazily without ZConfig
    mod = importlib.import_module("zcverif.checks." + pid.lower())
    engine = [e[0] for e in ENGINES if pid in e[1]][0]
    checks.append({
        "property_id": pid,
        "quick_cmd": "%s -m zcverif.run check %s --tier quick" % (PY, pid),
        "thorough_cmd": "%s -m zcverif.run check %s --tier thorough" % (PY, pid),
        "evidence_file": "/verif/evidence/%s.json" % pid,
        "replay_cmd_template": "%s -m zcverif.run replay {path}" % PY,
        "engine": engine,
        "level_claimed": {
            "category": mod.LEVEL,
            "text": getattr(mod, "LEVEL_TEXT", mod.RULE),
            "design_ref": "DESIGN.md section 4, " + pid,
        },
        "level_note": getattr(mod, "LEVEL_NOTE", "; ".join(getattr(mod, "ASSUMPTIONS", [])) or "reference model in zcverif/ref is trusted"),
        "technique": getattr(mod, "TECHNIQUE", "runtime monitoring: reference-model oracle over generated executions"),
    })

manifest = {
    "version": 1,
    "setup_cmd": "%s -m zcverif.run setup" % PY,
    "hooks": {
        "guard": "ZOPEFOUNDATION_ZCONFIG_VERIF",
        "enable": "no source hooks: monitors are installed from the harness by wrapping attributes of the imported ZConfig modules (createResource, urlopen, AbstractType.addsubtype, getdefault, ZConfigParser.*, sys.monitoring line events); the guard variable is declared for form only",
        "baseline_off_cmd": "cd /repo && /venv/bin/python -m pytest -ra -q -p no:cacheprovider --timeout=900 --continue-on-collection-errors",
        "source_commits": [],
        "add_only": True,
    },
    "engines": [{"name": n, "path": "/verif/zcverif", "serves_properties": [p for p in ps if any(c["property_id"] == p for c in checks)], "kind_free_text": t} for n, ps, t in ENGINES],
    "checks": checks,
    "notes": "All checks are runtime monitors over executions of the real ZConfig code from /repo/src (ZCVERIF_REPO overrides). Exit 0 held / 1 violated / 2 inconclusive. Known findings: /verif/known_findings.json.",
    "not_applicable": na,
}
with open(os.path.join(ROOT, "MANIFEST.json"), "w") as f:
    json.dump(manifest, f, indent=1)
    f.write("\n")
print("claimed:", [c["property_id"] for c in checks])
print("not claimed:", [n["property_id"] for n in na])
