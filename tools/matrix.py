"""Run every quick check against every seeded change (seeded/*/patch.diff).

usage: python3 tools/matrix.py [--jobs N] [--only PREFIX]
Writes seeded/MATRIX.md and seeded/matrix.json.  Each change is applied in a
scratch worktree of /repo HEAD (never in /repo); evidence files are restored
afterwards (these runs are not evidence).
"""
import concurrent.futures
import json
import os
import shutil
import subprocess
import sys
import tempfile

PY = "/venv/bin/python"
args = sys.argv[1:]
jobs = int(args[args.index("--jobs") + 1]) if "--jobs" in args else 2
only = args[args.index("--only") + 1] if "--only" in args else ""
match = args[args.index("--match") + 1] if "--match" in args else ""
PROPS = ["C%02d" % i for i in range(1, 21)]
ROOT = os.path.dirname(os.path.dirname(os.path.abspath(__file__)))
SEEDED = os.path.join(ROOT, "seeded")


def run_one(name):
    patch = os.path.join(SEEDED, name, "patch.diff")
    scratch = tempfile.mkdtemp(prefix="zcmx-")
    wt = os.path.join(scratch, "wt")
    row = {}
    try:
        subprocess.check_call(["git", "-C", "/repo", "worktree", "add", "-q",
                               "--detach", wt, "HEAD"])
        r = subprocess.run(["git", "-C", wt, "apply", "-3", patch],
                           capture_output=True, text=True)
        if r.returncode != 0:
            return name, {"error": "patch does not apply"}
        env = dict(os.environ, ZCVERIF_REPO=wt, ZCVERIF_JOBS="8")
        for p in PROPS:
            r = subprocess.run([PY, "-m", "zcverif.run", "check", p,
                                "--tier", "quick"], cwd=ROOT, env=env,
                               capture_output=True, text=True)
            row[p] = r.returncode
        return name, row
    finally:
        subprocess.run(["git", "-C", "/repo", "worktree", "remove",
                        "--force", wt], capture_output=True)
        shutil.rmtree(scratch, ignore_errors=True)


def main():
    names = sorted(n for n in os.listdir(SEEDED)
                   if os.path.exists(os.path.join(SEEDED, n, "patch.diff"))
                   and n.startswith(only) and match in n)
    result = {}
    path = os.path.join(SEEDED, "matrix.json")
    if os.path.exists(path) and (only or match):
        result = json.load(open(path))
    with concurrent.futures.ThreadPoolExecutor(jobs) as ex:
        for name, row in ex.map(run_one, names):
            result[name] = row
            print(name, "".join("X" if row.get(p) == 1 else
                                "?" if row.get(p) == 2 else "."
                                for p in PROPS), flush=True)
    subprocess.run(["git", "checkout", "--", "evidence"], cwd=ROOT,
                   capture_output=True)
    shutil.rmtree(os.path.join(ROOT, "replays"), ignore_errors=True)
    json.dump(result, open(path, "w"), indent=1, sort_keys=True)
    out = ["# Seeded changes x quick checks", "",
           "X = the check exits 1 (violation reported), . = exit 0, "
           "? = inconclusive (exit 2).  The first column is the property "
           "the change was written against.", "",
           "| change | " + " | ".join(p[1:] for p in PROPS) + " |",
           "|---|" + "---|" * len(PROPS)]
    for name in sorted(result):
        row = result[name]
        if "error" in row:
            out.append("| %s | %s |" % (name, row["error"]))
            continue
        out.append("| %s | " % name + " | ".join(
            "X" if row.get(p) == 1 else "?" if row.get(p) == 2 else "."
            for p in PROPS) + " |")
    open(os.path.join(SEEDED, "MATRIX.md"), "w").write("\n".join(out) + "\n")


if __name__ == "__main__":
    main()
