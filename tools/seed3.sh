#!/bin/bash
# usage: tools/seed3.sh C03 [C04 ...]  - confirm and test round-2 seeded changes
for p in "$@"; do for m in m1 m2 m3; do
  [ -f /tmp/seed3/${p}_out/$m/patch.diff ] || continue
  python3 tools/seedtest.py $p /tmp/seed3/${p}_out/$m --name $p-r3$m 2>&1 | grep -v conda | cut -c1-270
done; done
