#!/bin/bash
# usage: tools/run_all.sh <tier> [seed] [props...]   (runs sequentially, prints one line per check)
tier=${1:-quick}; seed=${2:-0}; shift; shift
props=${@:-$(cat tools/ready.txt)}
for p in $props; do
  start=$(date +%s)
  out=$(VERIF_SEED=$seed /venv/bin/python -m zcverif.run check $p --tier $tier 2>&1)
  rc=$?
  echo "$p rc=$rc $(($(date +%s)-start))s $(echo "$out" | grep -c '^VIOLATION') violations | $(echo "$out" | tail -1 | cut -c1-160)"
  echo "$out" | grep -A1 '^VIOLATION' | head -6 | cut -c1-300
  echo "$out" | grep '^INCONCLUSIVE' | head -3 | cut -c1-300
done
