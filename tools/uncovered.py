"""Union line coverage of src/ZConfig over all quick checks.

usage: python3 tools/uncovered.py [--tier quick] [--props C01,C02]
Runs every check with ZCVERIF_LINECOV_DUMP set (evidence files are restored
afterwards: these runs are not evidence) and prints, per source file, the
executable lines that no check's workload reached, with their text.  Lines
the workload never drives are lines nothing here can say anything about.
"""
import json
import os
import subprocess
import sys
import tempfile

sys.path.insert(0, "/verif")
from zcverif.mon.linecov import executable_lines  # noqa

args = sys.argv[1:]
tier = args[args.index("--tier") + 1] if "--tier" in args else "quick"
props = (args[args.index("--props") + 1].split(",") if "--props" in args
         else open("/verif/tools/ready.txt").read().split())
d = tempfile.mkdtemp(prefix="zccov-")
env = dict(os.environ, ZCVERIF_LINECOV_DUMP=d)
for p in props:
    subprocess.run(["/venv/bin/python", "-m", "zcverif.run", "check", p,
                    "--tier", tier], cwd="/verif", env=env,
                   capture_output=True)
subprocess.run(["git", "-C", "/verif", "checkout", "--", "evidence"])
union = {}
per = {}
for p in props:
    try:
        m = json.load(open(os.path.join(d, p + ".json")))
    except OSError:
        print("no dump for", p)
        continue
    for f, ls in m.items():
        union.setdefault(f, set()).update(ls)
        per.setdefault(f, {})[p] = set(ls)
base = "/repo/src/ZConfig"
tot_e = tot_h = 0
for root, dirs, files in os.walk(base):
    dirs[:] = [x for x in dirs if x != "tests"]
    for fn in sorted(files):
        if not fn.endswith(".py"):
            continue
        path = os.path.join(root, fn)
        rel = os.path.relpath(path, base)
        ex = executable_lines(path)
        hit = union.get(rel, set()) & ex
        tot_e += len(ex)
        tot_h += len(hit)
        miss = sorted(ex - hit)
        print("== %s: %d/%d" % (rel, len(hit), len(ex)))
        src = open(path).read().split("\n")
        for ln in miss:
            print("   %4d  %s" % (ln, src[ln - 1].rstrip()[:110]))
print("TOTAL %d/%d" % (tot_h, tot_e))
import shutil
shutil.rmtree(d, ignore_errors=True)
