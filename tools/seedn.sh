#!/bin/bash
# usage: tools/seedn.sh 4 C03 [C04 ...]  - confirm and test round-N seeded changes from /tmp/seedN/Cxx_out/m{1,2,3}
n=$1; shift
for p in "$@"; do for m in m1 m2 m3; do
  [ -f /tmp/seed$n/${p}_out/$m/patch.diff ] || continue
  python3 tools/seedtest.py $p /tmp/seed$n/${p}_out/$m --name $p-r${n}$m 2>&1 | grep -v conda | cut -c1-270
done; done
