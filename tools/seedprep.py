"""Prepare a round of independent seeding sub-agents.

usage: python3 tools/seedprep.py N LENSFILE [Cxx ...]
Creates /tmp/seedN/Cxx_wt (scratch worktree of /repo HEAD), /tmp/seedN/Cxx_out/
PROPERTY.txt (the property's text, nothing from /verif besides it) and
PROMPT.md (tools/seed_prompt.tmpl with the round's three lenses).
"""
import json
import os
import subprocess
import sys

n, lensfile = sys.argv[1], sys.argv[2]
props = sys.argv[3:] or ["C%02d" % i for i in range(1, 21)]
root = "/tmp/seed%s" % n
here = os.path.dirname(os.path.abspath(__file__))
tmpl = open(os.path.join(here, "seed_prompt.tmpl")).read()
lenses = open(lensfile).read().rstrip("\n")
table = {}
for line in open(os.path.join(here, "..", "properties.jsonl")):
    p = json.loads(line)
    table[p["id"]] = p
os.makedirs(root, exist_ok=True)
for pid in props:
    wt = "%s/%s_wt" % (root, pid)
    out = "%s/%s_out" % (root, pid)
    os.makedirs(out, exist_ok=True)
    if not os.path.isdir(wt):
        subprocess.check_call(["git", "-C", "/repo", "worktree", "add", "-q",
                               "--detach", wt, "HEAD"])
    p = table[pid]
    with open(out + "/PROPERTY.txt", "w") as f:
        f.write("Property %s: %s\n\nStatement:\n%s\n\n" % (
            pid, p["title"], p["statement"]))
        for k, v in p.items():
            if k in ("id", "title", "statement"):
                continue
            f.write("%s:\n%s\n\n" % (k, v if isinstance(v, str)
                                     else json.dumps(v, indent=1,
                                                     ensure_ascii=False)))
    with open(out + "/PROMPT.md", "w") as f:
        f.write(tmpl.replace("@WT@", wt).replace("@OUT@", out)
                .replace("@ROOT@", root).replace("@LENSES@", lenses))
    print(pid, wt, out)
