#!/bin/bash
# usage: tools/sweep.sh quick 3 4 5 6 7   - run every check for several seeds, print only non-zero exits
tier=$1; shift
for s in "$@"; do
  for p in $(cat tools/ready.txt); do
    out=$(VERIF_SEED=$s /venv/bin/python -m zcverif.run check $p --tier $tier 2>&1); rc=$?
    if [ $rc -ne 0 ]; then echo "seed=$s $p rc=$rc"; echo "$out" | grep -E "^VIOLATION|^  kind|^INCONCLUSIVE" | head -6 | cut -c1-300; fi
  done
  echo "seed $s done"
done
