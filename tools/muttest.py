"""Ad-hoc mutant test: copy /repo/src, apply textual replacements, run checks.

usage: muttest.py PROP[,PROP...] FILE OLD NEW [FILE OLD NEW ...] [--tests] [--tier T]
FILE is relative to src/ZConfig.  Exit code 0 if every listed check exits 1
(mutant caught)."""
import os
import shutil
import subprocess
import sys
import tempfile

args = sys.argv[1:]
run_tests = "--tests" in args
if run_tests:
    args.remove("--tests")
tier = "quick"
if "--tier" in args:
    i = args.index("--tier")
    tier = args[i + 1]
    del args[i:i + 2]
props = args[0].split(",")
edits = args[1:]
assert len(edits) % 3 == 0 and edits
d = tempfile.mkdtemp(prefix="zcmut-")
try:
    shutil.copytree("/repo/src", os.path.join(d, "src"),
                    ignore=shutil.ignore_patterns("__pycache__"))
    for i in range(0, len(edits), 3):
        f, old, new = edits[i:i + 3]
        p = os.path.join(d, "src", "ZConfig", f)
        s = open(p).read()
        old = old.encode().decode("unicode_escape")
        new = new.encode().decode("unicode_escape")
        if old not in s:
            print("OLD TEXT NOT FOUND in", f)
            sys.exit(3)
        open(p, "w").write(s.replace(old, new, 1))
    env = dict(os.environ, ZCVERIF_REPO=d)
    if run_tests:
        r = subprocess.run(["/venv/bin/python", "-m", "pytest", "-q", "-x",
                            "-p", "no:cacheprovider", os.path.join(d, "src")],
                           cwd=d, capture_output=True, text=True,
                           env=dict(os.environ, PYTHONPATH=os.path.join(d, "src")))
        print("stock tests:", r.stdout.strip().splitlines()[-1] if r.stdout.strip() else r.stderr[-300:])
    allcaught = True
    for prop in props:
        r = subprocess.run(["/venv/bin/python", "-m", "zcverif.run", "check",
                            prop, "--tier", tier], cwd="/verif", env=env,
                           capture_output=True, text=True)
        lines = r.stdout.strip().splitlines()
        nviol = sum(1 for l in lines if l.startswith("VIOLATION"))
        print("%s exit=%d violations=%d" % (prop, r.returncode, nviol))
        for l in [x for x in lines if x.startswith("  kind")][:2]:
            print("   ", l[:260])
        if r.returncode != 1:
            allcaught = False
            print("    last:", lines[-1][:300] if lines else r.stderr[-300:])
    # never leave replays/evidence from mutant runs behind
    subprocess.run(["git", "checkout", "--", "evidence"], cwd="/verif",
                   capture_output=True)
    sys.exit(0 if allcaught else 1)
finally:
    shutil.rmtree(d, ignore_errors=True)
