"""Confirm a seeded change and run checks against it.

usage: seedtest.py PROP DIR [--name NAME] [--checks C01,C07] [--tier quick]

DIR holds patch.diff and demo.py (written by an independent sub-agent).
Steps, all in a scratch worktree of /repo HEAD under /tmp (never in /repo):
  1. demo on the clean tree must exit 0
  2. apply patch.diff; the stock test suite must give the baseline result
  3. demo on the changed tree must exit non-zero
  4. run the listed checks (default: PROP) with ZCVERIF_REPO=<scratch>
and record everything in /verif/seeded/<NAME>/ (patch.diff, demo.py,
meta.json).  Exit 0 when confirmed and caught by PROP's check.
"""
import json
import os
import shutil
import subprocess
import sys
import tempfile
import time

args = sys.argv[1:]


def opt(name, default=None):
    if name in args:
        i = args.index(name)
        v = args[i + 1]
        del args[i:i + 2]
        return v
    return default


name = opt("--name")
checks = opt("--checks")
tier = opt("--tier", "quick")
prop, d = args[0], os.path.abspath(args[1])
name = name or "%s-%s" % (prop, os.path.basename(d))
checks = checks.split(",") if checks else [prop]
patch = os.path.join(d, "patch.diff")
demo = os.path.join(d, "demo.py")
PY = "/venv/bin/python"
meta = {"property": prop, "source_dir": d, "ran": [],
        "repo_head": subprocess.check_output(
            ["git", "-C", "/repo", "rev-parse", "--short", "HEAD"],
            text=True).strip()}
scratch = tempfile.mkdtemp(prefix="zcseed-")
wt = os.path.join(scratch, "wt")


def run(cmd, **kw):
    t0 = time.time()
    r = subprocess.run(cmd, capture_output=True, text=True, **kw)
    meta["ran"].append({"cmd": " ".join(cmd) if isinstance(cmd, list)
                        else cmd, "exit": r.returncode,
                        "secs": round(time.time() - t0, 1)})
    return r


try:
    subprocess.check_call(["git", "-C", "/repo", "worktree", "add", "-q",
                           "--detach", wt, "HEAD"])
    env = dict(os.environ, PYTHONPATH=os.path.join(wt, "src"))
    r = run([PY, demo], env=env, cwd=scratch, timeout=300)
    meta["demo_clean_exit"] = r.returncode
    r = run(["git", "-C", wt, "apply", patch])
    rebased = None
    if r.returncode != 0:
        # the tree moved on since the sub-agent wrote the patch: 3-way
        r = run(["git", "-C", wt, "apply", "-3", patch])
        if r.returncode != 0:
            meta["error"] = "patch does not apply: " + r.stderr[-300:]
            print(meta["error"])
            raise SystemExit(3)
        run(["git", "-C", wt, "reset", "-q"])
        rebased = subprocess.check_output(["git", "-C", wt, "diff"],
                                          text=True)
        meta["patch_rebased_onto"] = meta["repo_head"]
    r = run([PY, "-m", "pytest", "-q", "-p", "no:cacheprovider",
             "src/ZConfig"], env=env, cwd=wt, timeout=900)
    tail = (r.stdout.strip().splitlines() or [""])[-1]
    meta["stock_tests"] = tail
    meta["stock_tests_ok"] = "1 failed, 353 passed" in tail
    r = run([PY, demo], env=env, cwd=scratch, timeout=300)
    meta["demo_changed_exit"] = r.returncode
    meta["demo_changed_output"] = (r.stdout + r.stderr)[-600:]
    meta["confirmed"] = (meta["demo_clean_exit"] == 0 and
                         meta["demo_changed_exit"] != 0 and
                         meta["stock_tests_ok"])
    meta["checks"] = {}
    cenv = dict(os.environ, ZCVERIF_REPO=wt)
    for c in checks:
        r = run([PY, "-m", "zcverif.run", "check", c, "--tier", tier],
                env=cenv, cwd="/verif", timeout=7200)
        lines = r.stdout.strip().splitlines()
        meta["checks"][c] = {
            "exit": r.returncode, "tier": tier,
            "violations": sum(1 for l in lines if l.startswith("VIOLATION")),
            "first": [l.strip()[:300] for l in lines
                      if l.startswith("  kind")][:2],
            "summary": lines[-1][:200] if lines else r.stderr[-200:]}
    meta["caught_by"] = [c for c, v in meta["checks"].items()
                         if v["exit"] == 1]
finally:
    subprocess.run(["git", "-C", "/repo", "worktree", "remove", "--force",
                    wt], capture_output=True)
    shutil.rmtree(scratch, ignore_errors=True)
    subprocess.run(["git", "checkout", "--", "evidence"], cwd="/verif",
                   capture_output=True)

out = os.path.join("/verif", "seeded", name)
os.makedirs(out, exist_ok=True)
if rebased:
    with open(os.path.join(out, "patch.diff"), "w") as f:
        f.write(rebased)
else:
    shutil.copy(patch, os.path.join(out, "patch.diff"))
shutil.copy(demo, os.path.join(out, "demo.py"))
rd = os.path.join(d, "README.md")
if os.path.exists(rd):
    meta["needs_to_manifest"] = open(rd).read()[:1500]
with open(os.path.join(out, "meta.json"), "w") as f:
    json.dump(meta, f, indent=1)
print(json.dumps({k: meta.get(k) for k in
                  ("confirmed", "stock_tests", "demo_clean_exit",
                   "demo_changed_exit", "caught_by")}, indent=None))
for c, v in meta.get("checks", {}).items():
    print(c, "exit", v["exit"], "violations", v["violations"])
    for l in v["first"]:
        print("   ", l[:250])
    if v["exit"] != 1:
        print("    ", v["summary"])
sys.exit(0 if meta.get("confirmed") and prop in meta.get("caught_by", [])
         else 1)
